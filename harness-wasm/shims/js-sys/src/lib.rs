//! Host shim of the part of `js-sys` that `searchlite-wasm/src/wasm.rs` uses:
//! `global()`, `Reflect::get`, `Array`, `Uint8Array`, `Function`, `Object`, `Date::now`.
use std::cell::RefCell;
use std::collections::HashMap;
use wasm_bindgen::{js_class, JsCast, JsValue};

js_class!(Object, "Object", deref JsValue);
js_class!(Function, "Function", deref Object, Object);
js_class!(Array, "Array", deref Object, Object);
js_class!(Uint8Array, "Uint8Array", deref Object, Object);

thread_local! {
  /// properties of the global object of this "page" (thread)
  static GLOBALS: RefCell<HashMap<String, JsValue>> = RefCell::new(HashMap::new());
  static GLOBAL_OBJ: JsValue = JsValue::from_host(&["Window", "Object"], GlobalMarker);
}

struct GlobalMarker;

/// shim-only: what the harness uses to build the page's global scope
pub mod sim {
  use super::*;
  pub fn set_global(name: &str, value: JsValue) {
    GLOBALS.with(|g| {
      g.borrow_mut().insert(name.to_string(), value);
    });
  }
  pub fn clear_globals() {
    GLOBALS.with(|g| g.borrow_mut().clear());
  }
}

pub fn global() -> Object {
  Object::unchecked_from_js(GLOBAL_OBJ.with(|g| g.clone()))
}

pub struct Reflect;

impl Reflect {
  /// `Reflect.get(target, key)`: properties exist on the global object only; other targets
  /// give `undefined`; a non-object target is a `TypeError`.
  pub fn get(target: &JsValue, key: &JsValue) -> Result<JsValue, JsValue> {
    if target.host::<GlobalMarker>().is_some() {
      let k = key.as_string().unwrap_or_default();
      return Ok(GLOBALS.with(|g| g.borrow().get(&k).cloned()).unwrap_or(JsValue::UNDEFINED));
    }
    if target.classes().is_empty() {
      return Err(JsValue::from_str("TypeError: Reflect.get called on non-object"));
    }
    Ok(JsValue::UNDEFINED)
  }
}

struct ArrayData(RefCell<Vec<JsValue>>);

impl Array {
  pub fn new() -> Array {
    Array::unchecked_from_js(JsValue::from_host(&["Array", "Object"], ArrayData(RefCell::new(Vec::new()))))
  }
  pub fn push(&self, v: &JsValue) -> u32 {
    let d = self.as_ref().host::<ArrayData>().expect("Array payload");
    d.0.borrow_mut().push(v.clone());
    d.0.borrow().len() as u32
  }
  pub fn length(&self) -> u32 {
    self.as_ref().host::<ArrayData>().map(|d| d.0.borrow().len() as u32).unwrap_or(0)
  }
  pub fn get(&self, i: u32) -> JsValue {
    self.as_ref().host::<ArrayData>().and_then(|d| d.0.borrow().get(i as usize).cloned()).unwrap_or(JsValue::UNDEFINED)
  }
  pub fn iter(&self) -> std::vec::IntoIter<JsValue> {
    let v: Vec<JsValue> = self.as_ref().host::<ArrayData>().map(|d| d.0.borrow().clone()).unwrap_or_default();
    v.into_iter()
  }
  pub fn to_vec(&self) -> Vec<JsValue> {
    self.iter().collect()
  }
}

impl Default for Array {
  fn default() -> Self {
    Array::new()
  }
}

struct BytesData(RefCell<Vec<u8>>);

impl Uint8Array {
  /// `new Uint8Array(x)`: a copy of another typed array; anything else gives length 0
  pub fn new(v: &JsValue) -> Uint8Array {
    let bytes = v.host::<BytesData>().map(|d| d.0.borrow().clone()).unwrap_or_default();
    Uint8Array::from(bytes.as_slice())
  }
  pub fn to_vec(&self) -> Vec<u8> {
    self.as_ref().host::<BytesData>().map(|d| d.0.borrow().clone()).unwrap_or_default()
  }
  pub fn length(&self) -> u32 {
    self.as_ref().host::<BytesData>().map(|d| d.0.borrow().len() as u32).unwrap_or(0)
  }
}

impl From<&[u8]> for Uint8Array {
  fn from(b: &[u8]) -> Uint8Array {
    Uint8Array::unchecked_from_js(JsValue::from_host(&["Uint8Array", "Object"], BytesData(RefCell::new(b.to_vec()))))
  }
}

pub struct Date;

impl Date {
  /// deterministic on the host
  pub fn now() -> f64 {
    0.0
  }
}
