//! Host shim of `serde_wasm_bindgen::{from_value, to_value}`: plain data crosses the
//! boundary as `serde_json::Value` carried inside the shim's `JsValue`.
use wasm_bindgen::JsValue;

#[derive(Debug)]
pub struct Error(String);

impl std::fmt::Display for Error {
  fn fmt(&self, f: &mut std::fmt::Formatter<'_>) -> std::fmt::Result {
    write!(f, "{}", self.0)
  }
}

impl std::error::Error for Error {}

impl From<Error> for JsValue {
  fn from(e: Error) -> JsValue {
    JsValue::from_str(&e.0)
  }
}

pub fn from_value<T: serde::de::DeserializeOwned>(value: JsValue) -> Result<T, Error> {
  let v = value.to_json().ok_or_else(|| Error("value is not plain data".to_string()))?;
  serde_json::from_value(v).map_err(|e| Error(e.to_string()))
}

pub fn to_value<T: serde::Serialize + ?Sized>(value: &T) -> Result<JsValue, Error> {
  serde_json::to_value(value).map(JsValue::from_json).map_err(|e| Error(e.to_string()))
}
