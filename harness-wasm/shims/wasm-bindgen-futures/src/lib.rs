//! Host shim of `wasm_bindgen_futures::spawn_local`.
//!
//! The real crate queues the future on the page's microtask queue.  Here every thread is one
//! "page": `spawn_local` puts the future into a thread-local task table and marks it
//! runnable; nothing runs until the harness calls `sim::poll(id)`.  Wake-ups append the
//! task to the run queue in wake order, so polling `sim::runnable()[0]` until the queue is
//! empty reproduces the FIFO microtask order of the real crate, and any other choice is a
//! reordering of the asynchronous tasks.
use std::cell::RefCell;
use std::collections::VecDeque;
use std::future::Future;
use std::pin::Pin;
use std::sync::{Arc, Mutex};
use std::task::{Context, Poll, Wake, Waker};

type LocalFuture = Pin<Box<dyn Future<Output = ()> + 'static>>;

struct Slot {
  fut: Option<LocalFuture>,
  done: bool,
}

#[derive(Default)]
struct Exec {
  slots: Vec<Slot>,
  closed: bool,
}

type RunQueue = Arc<Mutex<VecDeque<usize>>>;

thread_local! {
  static EXEC: RefCell<Exec> = RefCell::new(Exec::default());
  static QUEUE: RunQueue = Arc::new(Mutex::new(VecDeque::new()));
}

struct TaskWaker {
  id: usize,
  queue: RunQueue,
}

impl Wake for TaskWaker {
  fn wake(self: Arc<Self>) {
    self.wake_by_ref();
  }
  fn wake_by_ref(self: &Arc<Self>) {
    let mut q = self.queue.lock().unwrap();
    if !q.contains(&self.id) {
      q.push_back(self.id);
    }
  }
}

pub fn spawn_local<F>(future: F)
where
  F: Future<Output = ()> + 'static,
{
  let _ = sim::spawn(future);
}

/// shim-only control surface for the harness
pub mod sim {
  use super::*;

  /// spawn and return the task id (ids count from 0 in spawn order within this page)
  pub fn spawn<F: Future<Output = ()> + 'static>(future: F) -> Option<usize> {
    let boxed: LocalFuture = Box::pin(future);
    let res = EXEC.try_with(|e| {
      let mut e = e.borrow_mut();
      if e.closed {
        return Err(boxed);
      }
      e.slots.push(Slot { fut: Some(boxed), done: false });
      Ok(e.slots.len() - 1)
    });
    match res {
      Ok(Ok(id)) => {
        QUEUE.with(|q| q.lock().unwrap().push_back(id));
        Some(id)
      }
      // page already closed: the future is dropped, it never runs
      Ok(Err(fut)) => {
        drop(fut);
        None
      }
      Err(_) => None,
    }
  }

  /// runnable task ids in wake/spawn order
  pub fn runnable() -> Vec<usize> {
    QUEUE.with(|q| q.lock().unwrap().iter().copied().collect())
  }

  pub fn task_count() -> usize {
    EXEC.with(|e| e.borrow().slots.len())
  }

  pub fn is_done(id: usize) -> bool {
    EXEC.with(|e| e.borrow().slots.get(id).map(|s| s.done).unwrap_or(true))
  }

  /// poll task `id` once; returns true when it finished.  Polling a task that is not
  /// runnable is allowed (spurious poll) but the harness never does it.
  pub fn poll(id: usize) -> bool {
    let queue = QUEUE.with(|q| q.clone());
    {
      let mut q = queue.lock().unwrap();
      if let Some(pos) = q.iter().position(|x| *x == id) {
        q.remove(pos);
      }
    }
    let fut = EXEC.with(|e| {
      let mut e = e.borrow_mut();
      match e.slots.get_mut(id) {
        Some(s) if !s.done => s.fut.take(),
        _ => None,
      }
    });
    let mut fut = match fut {
      Some(f) => f,
      None => return true,
    };
    let waker = Waker::from(Arc::new(TaskWaker { id, queue }));
    let mut cx = Context::from_waker(&waker);
    let done = matches!(fut.as_mut().poll(&mut cx), Poll::Ready(()));
    if done {
      EXEC.with(|e| {
        if let Some(s) = e.borrow_mut().slots.get_mut(id) {
          s.done = true;
        }
      });
      drop(fut);
    } else {
      EXEC.with(|e| {
        if let Some(s) = e.borrow_mut().slots.get_mut(id) {
          s.fut = Some(fut);
        }
      });
    }
    done
  }

  /// the page goes away: no task ever runs again.  Futures are dropped (their destructors
  /// may call `spawn_local`, which is ignored from now on).
  pub fn close_page() {
    let slots = EXEC.with(|e| {
      let mut e = e.borrow_mut();
      e.closed = true;
      std::mem::take(&mut e.slots)
    });
    QUEUE.with(|q| q.lock().unwrap().clear());
    drop(slots);
  }
}
