//! Host shim of the `#[wasm_bindgen]` attribute: the annotated item is compiled as plain
//! Rust.  Inner `#[wasm_bindgen(..)]` attributes (e.g. `js_name = init` on a method) are
//! removed; everything else is passed through untouched.
extern crate proc_macro;
use proc_macro::{Delimiter, Group, TokenStream, TokenTree};

#[proc_macro_attribute]
pub fn wasm_bindgen(_attr: TokenStream, item: TokenStream) -> TokenStream {
  strip(item)
}

fn is_wb_attr(g: &Group) -> bool {
  if g.delimiter() != Delimiter::Bracket {
    return false;
  }
  match g.stream().into_iter().next() {
    Some(TokenTree::Ident(id)) => id.to_string() == "wasm_bindgen",
    _ => false,
  }
}

fn strip(ts: TokenStream) -> TokenStream {
  let mut out: Vec<TokenTree> = Vec::new();
  let mut it = ts.into_iter().peekable();
  while let Some(tt) = it.next() {
    match tt {
      TokenTree::Punct(ref p) if p.as_char() == '#' => {
        let drop_it = matches!(it.peek(), Some(TokenTree::Group(g)) if is_wb_attr(g));
        if drop_it {
          it.next();
        } else {
          out.push(tt);
        }
      }
      TokenTree::Group(g) => {
        let mut ng = Group::new(g.delimiter(), strip(g.stream()));
        ng.set_span(g.span());
        out.push(TokenTree::Group(ng));
      }
      other => out.push(other),
    }
  }
  out.into_iter().collect()
}
