//! Host shim of the part of `wasm-bindgen` that `searchlite-wasm/src/wasm.rs` uses.
//!
//! The real crate is glue to a JavaScript engine and aborts on non-wasm targets.  This shim
//! gives the same *names and signatures* a small in-process semantics so that the file runs
//! unmodified on the host:
//!
//! * `JsValue` — undefined | null | bool | number | string | JSON (what
//!   `serde_wasm_bindgen` produces) | host object (reference semantics, class chain for
//!   `instanceof`).
//! * `JsCast` — `dyn_into` checks the class chain, `unchecked_ref` reinterprets
//!   (`#[repr(transparent)]` wrappers, as in the real crate).
//! * `Closure<T>` — owns the Rust closure; dropping the `Closure` invalidates the function
//!   (a later call is reported as `CallError::Dropped`, in a browser: an exception);
//!   dropping it while it is running is deferred to the end of the call, like the real crate.
use std::any::Any;
use std::cell::{Cell, RefCell};
use std::fmt;
use std::rc::Rc;

pub use wasm_bindgen_macro::wasm_bindgen;

pub mod prelude {
  pub use crate::closure::Closure;
  pub use crate::wasm_bindgen;
  pub use crate::JsCast;
  pub use crate::JsValue;
}

/// A host object: class chain (most specific first) + payload.
pub struct HostObj {
  pub classes: &'static [&'static str],
  pub data: Box<dyn Any>,
}

#[derive(Clone)]
enum Inner {
  Undefined,
  Null,
  Bool(bool),
  Num(f64),
  Str(Rc<str>),
  /// plain data (result of `serde_wasm_bindgen::to_value`)
  Json(Rc<serde_json::Value>),
  Obj(Rc<HostObj>),
}

#[derive(Clone)]
pub struct JsValue(Inner);

impl JsValue {
  pub const NULL: JsValue = JsValue(Inner::Null);
  pub const UNDEFINED: JsValue = JsValue(Inner::Undefined);

  pub fn from_str(s: &str) -> JsValue {
    JsValue(Inner::Str(Rc::from(s)))
  }
  pub fn from_f64(n: f64) -> JsValue {
    JsValue(Inner::Num(n))
  }
  pub fn from_bool(b: bool) -> JsValue {
    JsValue(Inner::Bool(b))
  }
  pub fn null() -> JsValue {
    JsValue(Inner::Null)
  }
  pub fn undefined() -> JsValue {
    JsValue(Inner::Undefined)
  }
  pub fn is_null(&self) -> bool {
    matches!(self.0, Inner::Null)
  }
  pub fn is_undefined(&self) -> bool {
    matches!(self.0, Inner::Undefined)
  }
  pub fn as_string(&self) -> Option<String> {
    match &self.0 {
      Inner::Str(s) => Some(s.to_string()),
      Inner::Json(v) => v.as_str().map(|s| s.to_string()),
      _ => None,
    }
  }
  pub fn as_f64(&self) -> Option<f64> {
    match &self.0 {
      Inner::Num(n) => Some(*n),
      _ => None,
    }
  }
  pub fn as_bool(&self) -> Option<bool> {
    match &self.0 {
      Inner::Bool(b) => Some(*b),
      _ => None,
    }
  }

  // ---- shim-only API (used by the other shim crates and the harness) ----

  /// a new host object of the given class chain
  pub fn from_host<T: Any>(classes: &'static [&'static str], data: T) -> JsValue {
    JsValue(Inner::Obj(Rc::new(HostObj { classes, data: Box::new(data) })))
  }
  /// payload of a host object
  pub fn host<T: Any>(&self) -> Option<&T> {
    match &self.0 {
      Inner::Obj(o) => o.data.downcast_ref::<T>(),
      _ => None,
    }
  }
  pub fn classes(&self) -> &'static [&'static str] {
    match &self.0 {
      Inner::Obj(o) => o.classes,
      _ => &[],
    }
  }
  pub fn is_instance_of(&self, class: &str) -> bool {
    self.classes().iter().any(|c| *c == class)
  }
  /// same JS object (reference identity)?
  pub fn same_object(&self, other: &JsValue) -> bool {
    match (&self.0, &other.0) {
      (Inner::Obj(a), Inner::Obj(b)) => Rc::ptr_eq(a, b),
      _ => false,
    }
  }
  pub fn from_json(v: serde_json::Value) -> JsValue {
    JsValue(Inner::Json(Rc::new(v)))
  }
  /// JSON view of a plain value (`None` for host objects / undefined)
  pub fn to_json(&self) -> Option<serde_json::Value> {
    match &self.0 {
      Inner::Json(v) => Some((**v).clone()),
      Inner::Str(s) => Some(serde_json::Value::String(s.to_string())),
      Inner::Num(n) => serde_json::Number::from_f64(*n).map(serde_json::Value::Number),
      Inner::Bool(b) => Some(serde_json::Value::Bool(*b)),
      Inner::Null => Some(serde_json::Value::Null),
      _ => None,
    }
  }
}

impl fmt::Debug for JsValue {
  fn fmt(&self, f: &mut fmt::Formatter<'_>) -> fmt::Result {
    match &self.0 {
      Inner::Undefined => write!(f, "JsValue(undefined)"),
      Inner::Null => write!(f, "JsValue(null)"),
      Inner::Bool(b) => write!(f, "JsValue({b})"),
      Inner::Num(n) => write!(f, "JsValue({n})"),
      Inner::Str(s) => write!(f, "JsValue({s:?})"),
      Inner::Json(v) => write!(f, "JsValue({v})"),
      Inner::Obj(o) => write!(f, "JsValue({})", o.classes.first().copied().unwrap_or("Object")),
    }
  }
}

impl AsRef<JsValue> for JsValue {
  fn as_ref(&self) -> &JsValue {
    self
  }
}

impl From<&str> for JsValue {
  fn from(s: &str) -> JsValue {
    JsValue::from_str(s)
  }
}
impl From<String> for JsValue {
  fn from(s: String) -> JsValue {
    JsValue::from_str(&s)
  }
}
impl From<bool> for JsValue {
  fn from(b: bool) -> JsValue {
    JsValue::from_bool(b)
  }
}
impl From<f64> for JsValue {
  fn from(n: f64) -> JsValue {
    JsValue::from_f64(n)
  }
}
/// `None` becomes `undefined` (as in the real crate)
impl<T: Into<JsValue>> From<Option<T>> for JsValue {
  fn from(o: Option<T>) -> JsValue {
    match o {
      Some(v) => v.into(),
      None => JsValue::undefined(),
    }
  }
}

/// Checked and unchecked casts between JS types.
pub trait JsCast: AsRef<JsValue> + Into<JsValue> + Sized {
  fn instanceof(val: &JsValue) -> bool;
  fn unchecked_from_js(val: JsValue) -> Self;
  fn unchecked_from_js_ref(val: &JsValue) -> &Self;

  fn has_type<T: JsCast>(&self) -> bool {
    T::instanceof(self.as_ref())
  }
  fn dyn_into<T: JsCast>(self) -> Result<T, Self> {
    if self.has_type::<T>() {
      Ok(T::unchecked_from_js(self.into()))
    } else {
      Err(self)
    }
  }
  fn dyn_ref<T: JsCast>(&self) -> Option<&T> {
    if self.has_type::<T>() {
      Some(T::unchecked_from_js_ref(self.as_ref()))
    } else {
      None
    }
  }
  fn unchecked_into<T: JsCast>(self) -> T {
    T::unchecked_from_js(self.into())
  }
  fn unchecked_ref<T: JsCast>(&self) -> &T {
    T::unchecked_from_js_ref(self.as_ref())
  }
}

impl JsCast for JsValue {
  fn instanceof(_val: &JsValue) -> bool {
    true
  }
  fn unchecked_from_js(val: JsValue) -> Self {
    val
  }
  fn unchecked_from_js_ref(val: &JsValue) -> &Self {
    val
  }
}

/// Declares a `#[repr(transparent)]` wrapper type around `JsValue` with a class name and
/// its parents (`From` conversions upwards), like the types generated by the real crates.
#[macro_export]
macro_rules! js_class {
  ($name:ident, $class:literal, deref $target:ty $(, $parent:ident)*) => {
    #[derive(Clone, Debug)]
    #[repr(transparent)]
    pub struct $name {
      obj: $crate::JsValue,
    }
    impl AsRef<$crate::JsValue> for $name {
      fn as_ref(&self) -> &$crate::JsValue {
        &self.obj
      }
    }
    impl From<$name> for $crate::JsValue {
      fn from(v: $name) -> $crate::JsValue {
        v.obj
      }
    }
    impl std::ops::Deref for $name {
      type Target = $target;
      fn deref(&self) -> &$target {
        <$target as $crate::JsCast>::unchecked_from_js_ref(&self.obj)
      }
    }
    impl $crate::JsCast for $name {
      fn instanceof(val: &$crate::JsValue) -> bool {
        val.is_instance_of($class)
      }
      fn unchecked_from_js(val: $crate::JsValue) -> Self {
        $name { obj: val }
      }
      fn unchecked_from_js_ref(val: &$crate::JsValue) -> &Self {
        // SAFETY: `$name` is `#[repr(transparent)]` over `JsValue`
        unsafe { &*(val as *const $crate::JsValue as *const $name) }
      }
    }
    $(
      impl From<$name> for $parent {
        fn from(v: $name) -> $parent {
          <$parent as $crate::JsCast>::unchecked_from_js(v.obj)
        }
      }
    )*
  };
}

pub mod closure {
  use super::*;
  use std::marker::PhantomData;

  /// shared state of one exported Rust closure
  pub struct FnState<T: ?Sized> {
    f: RefCell<Option<Box<T>>>,
    running: Cell<bool>,
    dropped: Cell<bool>,
  }

  /// payload of a JS function object created from a Rust closure
  pub struct FunctionBox {
    /// `Rc<FnState<dyn FnMut(A)>>` behind `dyn Any`
    state: Rc<dyn Any>,
  }

  pub struct Closure<T: ?Sized + 'static> {
    js: JsValue,
    state: Rc<FnState<T>>,
    _m: PhantomData<Box<T>>,
  }

  pub const FUNCTION_CLASSES: &[&str] = &["Function", "Object"];

  impl<T: ?Sized + 'static> Closure<T> {
    pub fn wrap(data: Box<T>) -> Closure<T> {
      let state = Rc::new(FnState { f: RefCell::new(Some(data)), running: Cell::new(false), dropped: Cell::new(false) });
      let any: Rc<dyn Any> = state.clone();
      let js = JsValue::from_host(FUNCTION_CLASSES, FunctionBox { state: any });
      Closure { js, state, _m: PhantomData }
    }
    /// leak the closure: the function stays valid forever
    pub fn forget(self) {
      std::mem::forget(self);
    }
  }

  impl<T: ?Sized + 'static> AsRef<JsValue> for Closure<T> {
    fn as_ref(&self) -> &JsValue {
      &self.js
    }
  }

  impl<T: ?Sized + 'static> Drop for Closure<T> {
    fn drop(&mut self) {
      self.state.dropped.set(true);
      if !self.state.running.get() {
        // release the captured environment now
        let taken = self.state.f.borrow_mut().take();
        drop(taken);
      }
    }
  }

  #[derive(Debug, Clone, PartialEq, Eq)]
  pub enum CallError {
    NotAFunction,
    /// the `Closure` was dropped before the call (a browser throws here)
    Dropped,
    /// the closure is already running
    Reentrant,
    /// the function takes another argument type
    Signature,
  }

  /// Call a function object created by `Closure::wrap(Box<dyn FnMut(A)>)` with one argument.
  pub fn call1<A: 'static>(func: &JsValue, arg: A) -> Result<(), CallError> {
    let fb = func.host::<FunctionBox>().ok_or(CallError::NotAFunction)?;
    let state: Rc<FnState<dyn FnMut(A)>> = fb.state.clone().downcast::<FnState<dyn FnMut(A)>>().map_err(|_| CallError::Signature)?;
    if state.dropped.get() {
      return Err(CallError::Dropped);
    }
    if state.running.get() {
      return Err(CallError::Reentrant);
    }
    let mut f = match state.f.borrow_mut().take() {
      Some(f) => f,
      None => return Err(CallError::Dropped),
    };
    state.running.set(true);
    f(arg);
    state.running.set(false);
    if state.dropped.get() {
      drop(f);
    } else {
      *state.f.borrow_mut() = Some(f);
    }
    Ok(())
  }
}
