//! Host shim of the part of `web-sys` that `searchlite-wasm/src/wasm.rs` uses, backed by a
//! **simulated IndexedDB** (module `sim`).
//!
//! One thread = one page.  The durable state (`sim::Image`: database → object store →
//! key → bytes) is what survives a page close; it only changes when a transaction
//! *completes*.  Nothing happens spontaneously: the harness asks for the enabled browser
//! actions (`sim::enabled`) and performs one (`sim::perform`):
//!
//! * `Open(req)`     — an `indexedDB.open` request finishes (runs `onupgradeneeded` when the
//!                     database is new, then `onsuccess`)
//! * `Fire(req)`     — the next request of a transaction is executed and its `success`
//!                     event is dispatched (requests of one transaction run in placement order)
//! * `Complete(tx)`  — a transaction whose requests have all run commits: its writes become
//!                     durable, in one step
//!
//! Semantics that matter for the code under test (IndexedDB 3.0):
//! * a request's `success` event comes **before** its transaction's completion; only
//!   completed transactions are durable, an unfinished transaction is lost on page close;
//! * a transaction accepts new requests only while *active*: in the turn that created it and
//!   in the turns of its own request callbacks (`TransactionInactiveError` otherwise);
//! * `Order::Spec`: transactions with overlapping scope start in creation order, a read-write
//!   transaction excludes all others on its stores (the specified behaviour);
//! * `Order::Relaxed`: the adversary of property C27 — requests and completions of
//!   *different* transactions happen in any order; only transactions that write the same key
//!   keep their creation order (no lost update).
use std::cell::RefCell;
use std::collections::BTreeMap;
use wasm_bindgen::closure::{call1, CallError};
use wasm_bindgen::{js_class, JsCast, JsValue};

js_class!(EventTarget, "EventTarget", deref js_sys::Object);
js_class!(Event, "Event", deref js_sys::Object);
js_class!(DomException, "DOMException", deref js_sys::Object);
js_class!(IdbFactory, "IDBFactory", deref js_sys::Object);
js_class!(IdbRequest, "IDBRequest", deref EventTarget, EventTarget);
js_class!(IdbOpenDbRequest, "IDBOpenDBRequest", deref IdbRequest, IdbRequest, EventTarget);
js_class!(IdbDatabase, "IDBDatabase", deref EventTarget, EventTarget);
js_class!(IdbTransaction, "IDBTransaction", deref EventTarget, EventTarget);
js_class!(IdbObjectStore, "IDBObjectStore", deref js_sys::Object);
js_class!(Navigator, "Navigator", deref js_sys::Object);
js_class!(Window, "Window", deref EventTarget, EventTarget);

#[derive(Clone, Copy, Debug, PartialEq, Eq)]
pub enum IdbTransactionMode {
  Readonly,
  Readwrite,
  Versionchange,
}

pub mod console {
  use super::*;
  pub fn error_1(v: &JsValue) {
    sim::console_push("error", v);
  }
  pub fn warn_1(v: &JsValue) {
    sim::console_push("warn", v);
  }
  pub fn log_1(v: &JsValue) {
    sim::console_push("log", v);
  }
}

// ---------------------------------------------------------------------------------------
// payloads of the host objects

struct FactoryData;
struct RequestData {
  id: usize,
  onsuccess: RefCell<Option<JsValue>>,
  onerror: RefCell<Option<JsValue>>,
  onupgradeneeded: RefCell<Option<JsValue>>,
}
struct DatabaseData {
  name: String,
}
struct TransactionData {
  id: usize,
}
struct StoreData {
  tx: usize,
  #[allow(dead_code)]
  name: String,
}
struct EventData {
  target: JsValue,
}
struct ExceptionData {
  name: String,
  message: String,
}

fn dom_exception(name: &str, message: &str) -> JsValue {
  JsValue::from_host(&["DOMException", "Object"], ExceptionData { name: name.to_string(), message: message.to_string() })
}

impl DomException {
  pub fn name(&self) -> String {
    self.as_ref().host::<ExceptionData>().map(|d| d.name.clone()).unwrap_or_default()
  }
  pub fn message(&self) -> String {
    self.as_ref().host::<ExceptionData>().map(|d| d.message.clone()).unwrap_or_default()
  }
}

impl Event {
  pub fn target(&self) -> Option<EventTarget> {
    self.as_ref().host::<EventData>().map(|d| EventTarget::unchecked_from_js(d.target.clone()))
  }
}

fn new_request(id: usize, open: bool) -> JsValue {
  let classes: &'static [&'static str] = if open {
    &["IDBOpenDBRequest", "IDBRequest", "EventTarget", "Object"]
  } else {
    &["IDBRequest", "EventTarget", "Object"]
  };
  JsValue::from_host(
    classes,
    RequestData { id, onsuccess: RefCell::new(None), onerror: RefCell::new(None), onupgradeneeded: RefCell::new(None) },
  )
}

fn req_data(v: &JsValue) -> &RequestData {
  v.host::<RequestData>().expect("IDBRequest payload")
}

impl IdbFactory {
  pub fn open_with_u32(&self, name: &str, version: u32) -> Result<IdbOpenDbRequest, JsValue> {
    if version == 0 {
      return Err(JsValue::from_str("TypeError: version must not be 0"));
    }
    let js = sim::with(|w| {
      let id = w.reqs.len();
      let js = new_request(id, true);
      w.reqs.push(sim::Req {
        js: js.clone(),
        tx: None,
        kind: sim::ReqKind::Open { name: name.to_string(), version },
        state: sim::ReqState::Pending,
        result: None,
      });
      w.log.push(sim::Ev::OpenRequested { req: id, db: name.to_string() });
      js
    });
    Ok(IdbOpenDbRequest::unchecked_from_js(js))
  }
}

impl IdbRequest {
  pub fn set_onsuccess(&self, f: Option<&js_sys::Function>) {
    *req_data(self.as_ref()).onsuccess.borrow_mut() = f.map(|f| f.as_ref().clone());
  }
  pub fn set_onerror(&self, f: Option<&js_sys::Function>) {
    *req_data(self.as_ref()).onerror.borrow_mut() = f.map(|f| f.as_ref().clone());
  }
  /// `request.result`: `InvalidStateError` while the request is pending
  pub fn result(&self) -> Result<JsValue, JsValue> {
    let id = req_data(self.as_ref()).id;
    sim::with(|w| match (&w.reqs[id].state, &w.reqs[id].result) {
      (sim::ReqState::Done, Some(v)) => Ok(v.clone()),
      (sim::ReqState::Done, None) => Ok(JsValue::UNDEFINED),
      _ => Err(dom_exception("InvalidStateError", "the request has not finished")),
    })
  }
  pub fn error(&self) -> Result<Option<DomException>, JsValue> {
    let id = req_data(self.as_ref()).id;
    sim::with(|w| match w.reqs[id].state {
      sim::ReqState::Done => Ok(None),
      sim::ReqState::Pending => Err(dom_exception("InvalidStateError", "the request has not finished")),
    })
  }
}

impl IdbOpenDbRequest {
  pub fn set_onupgradeneeded(&self, f: Option<&js_sys::Function>) {
    *req_data(self.as_ref()).onupgradeneeded.borrow_mut() = f.map(|f| f.as_ref().clone());
  }
}

impl IdbDatabase {
  pub fn name(&self) -> String {
    self.as_ref().host::<DatabaseData>().map(|d| d.name.clone()).unwrap_or_default()
  }
  /// only legal inside an upgrade (`versionchange`) transaction
  pub fn create_object_store(&self, name: &str) -> Result<IdbObjectStore, JsValue> {
    let db = self.name();
    sim::with(|w| {
      if w.upgrading.as_deref() != Some(db.as_str()) {
        return Err(dom_exception("InvalidStateError", "createObjectStore outside of an upgrade transaction"));
      }
      let d = w.image.entry(db.clone()).or_default();
      if d.stores.contains_key(name) {
        return Err(dom_exception("ConstraintError", "object store already exists"));
      }
      d.stores.insert(name.to_string(), BTreeMap::new());
      w.log.push(sim::Ev::StoreCreated { db: db.clone(), store: name.to_string() });
      Ok(IdbObjectStore::unchecked_from_js(JsValue::from_host(
        &["IDBObjectStore", "Object"],
        StoreData { tx: usize::MAX, name: name.to_string() },
      )))
    })
  }
  pub fn transaction_with_str_and_mode(&self, store: &str, mode: IdbTransactionMode) -> Result<IdbTransaction, JsValue> {
    let db = self.name();
    sim::with(|w| {
      if mode == IdbTransactionMode::Versionchange {
        return Err(JsValue::from_str("TypeError: invalid transaction mode"));
      }
      let exists = w.image.get(&db).map(|d| d.stores.contains_key(store)).unwrap_or(false);
      if !exists {
        return Err(dom_exception("NotFoundError", "object store not found"));
      }
      let id = w.txs.len();
      w.txs.push(sim::Tx {
        id,
        db: db.clone(),
        store: store.to_string(),
        readwrite: mode == IdbTransactionMode::Readwrite,
        reqs: Vec::new(),
        fired: 0,
        writes: Vec::new(),
        active_turn: w.turn,
        finished: false,
      });
      w.log.push(sim::Ev::TxCreated { tx: id, readwrite: mode == IdbTransactionMode::Readwrite });
      Ok(IdbTransaction::unchecked_from_js(JsValue::from_host(
        &["IDBTransaction", "EventTarget", "Object"],
        TransactionData { id },
      )))
    })
  }
}

impl IdbTransaction {
  pub fn object_store(&self, name: &str) -> Result<IdbObjectStore, JsValue> {
    let id = self.as_ref().host::<TransactionData>().expect("IDBTransaction payload").id;
    sim::with(|w| {
      let tx = &w.txs[id];
      if tx.finished {
        return Err(dom_exception("InvalidStateError", "the transaction has finished"));
      }
      if tx.store != name {
        return Err(dom_exception("NotFoundError", "object store not in the transaction's scope"));
      }
      Ok(IdbObjectStore::unchecked_from_js(JsValue::from_host(
        &["IDBObjectStore", "Object"],
        StoreData { tx: id, name: name.to_string() },
      )))
    })
  }
}

impl IdbObjectStore {
  fn place(&self, kind: sim::ReqKind, needs_write: bool) -> Result<IdbRequest, JsValue> {
    let sd = self.as_ref().host::<StoreData>().expect("IDBObjectStore payload");
    let txid = sd.tx;
    sim::with(|w| {
      if txid == usize::MAX {
        return Err(dom_exception("TransactionInactiveError", "the upgrade transaction is not active"));
      }
      let turn = w.turn;
      let tx = &w.txs[txid];
      if tx.finished || tx.active_turn != turn {
        w.log.push(sim::Ev::Exception { what: format!("TransactionInactiveError tx={txid}") });
        return Err(dom_exception("TransactionInactiveError", "the transaction is not active"));
      }
      if needs_write && !tx.readwrite {
        return Err(dom_exception("ReadOnlyError", "the transaction is read-only"));
      }
      let id = w.reqs.len();
      let js = new_request(id, false);
      w.log.push(sim::Ev::Placed { req: id, tx: txid, op: kind.describe() });
      w.reqs.push(sim::Req { js: js.clone(), tx: Some(txid), kind, state: sim::ReqState::Pending, result: None });
      w.txs[txid].reqs.push(id);
      Ok(IdbRequest::unchecked_from_js(js))
    })
  }

  /// `store.put(value, key)`: the value is cloned now (structured clone of a `Uint8Array`)
  pub fn put_with_key(&self, value: &JsValue, key: &JsValue) -> Result<IdbRequest, JsValue> {
    let key = key.as_string().ok_or_else(|| dom_exception("DataError", "the key is not valid"))?;
    if !value.is_instance_of("Uint8Array") {
      return Err(dom_exception("DataCloneError", "the simulated store holds Uint8Array values only"));
    }
    let bytes = js_sys::Uint8Array::new(value).to_vec();
    self.place(sim::ReqKind::Put { key, bytes }, true)
  }
  pub fn delete(&self, key: &JsValue) -> Result<IdbRequest, JsValue> {
    let key = key.as_string().ok_or_else(|| dom_exception("DataError", "the key is not valid"))?;
    self.place(sim::ReqKind::Delete { key }, true)
  }
  pub fn get_all_keys(&self) -> Result<IdbRequest, JsValue> {
    self.place(sim::ReqKind::GetAllKeys, false)
  }
  pub fn get_all(&self) -> Result<IdbRequest, JsValue> {
    self.place(sim::ReqKind::GetAll, false)
  }
}

// ---------------------------------------------------------------------------------------

/// The simulated browser side: durable image, transactions, scheduler-visible actions.
pub mod sim {
  use super::*;

  /// object store name → key → value
  #[derive(Clone, Debug, Default, PartialEq, Eq)]
  pub struct Db {
    pub version: u32,
    pub stores: BTreeMap<String, BTreeMap<String, Vec<u8>>>,
  }
  /// what survives a page close
  pub type Image = BTreeMap<String, Db>;

  #[derive(Clone, Copy, Debug, PartialEq, Eq)]
  pub enum Order {
    /// IndexedDB as specified: overlapping transactions run one after the other in creation order
    Spec,
    /// any order, except that writers of the same key keep their creation order
    Relaxed,
  }

  #[derive(Clone, Debug, PartialEq, Eq)]
  pub enum ReqKind {
    Open { name: String, version: u32 },
    Put { key: String, bytes: Vec<u8> },
    Delete { key: String },
    GetAllKeys,
    GetAll,
  }

  impl ReqKind {
    pub fn describe(&self) -> String {
      match self {
        ReqKind::Open { name, .. } => format!("open {name}"),
        ReqKind::Put { key, bytes } => format!("put {key} ({} bytes)", bytes.len()),
        ReqKind::Delete { key } => format!("delete {key}"),
        ReqKind::GetAllKeys => "getAllKeys".to_string(),
        ReqKind::GetAll => "getAll".to_string(),
      }
    }
    fn write_key(&self) -> Option<&str> {
      match self {
        ReqKind::Put { key, .. } | ReqKind::Delete { key } => Some(key),
        _ => None,
      }
    }
  }

  #[derive(Clone, Copy, Debug, PartialEq, Eq)]
  pub enum ReqState {
    Pending,
    Done,
  }

  pub struct Req {
    pub js: JsValue,
    pub tx: Option<usize>,
    pub kind: ReqKind,
    pub state: ReqState,
    pub result: Option<JsValue>,
  }

  pub struct Tx {
    pub id: usize,
    pub db: String,
    pub store: String,
    pub readwrite: bool,
    pub reqs: Vec<usize>,
    /// number of requests already executed
    pub fired: usize,
    /// (key, Some(bytes)) = put, (key, None) = delete — applied at completion
    pub writes: Vec<(String, Option<Vec<u8>>)>,
    pub active_turn: u64,
    pub finished: bool,
  }

  /// observable summary of a transaction (for the harness)
  #[derive(Clone, Debug, PartialEq, Eq)]
  pub struct TxInfo {
    pub id: usize,
    pub readwrite: bool,
    /// requests in placement order
    pub ops: Vec<ReqKind>,
    pub fired: usize,
    pub finished: bool,
  }

  #[derive(Clone, Debug, PartialEq, Eq)]
  pub enum Ev {
    OpenRequested { req: usize, db: String },
    StoreCreated { db: String, store: String },
    TxCreated { tx: usize, readwrite: bool },
    Placed { req: usize, tx: usize, op: String },
    Opened { req: usize, upgraded: bool },
    Fired { req: usize, tx: usize },
    Completed { tx: usize },
    /// something a browser would report as an uncaught exception
    Exception { what: String },
    Console { level: String, text: String },
  }

  #[derive(Clone, Copy, Debug, PartialEq, Eq, PartialOrd, Ord)]
  pub enum Action {
    Open(usize),
    Fire(usize),
    Complete(usize),
  }

  pub struct World {
    pub image: Image,
    pub order: Order,
    pub reqs: Vec<Req>,
    pub txs: Vec<Tx>,
    /// event-loop turn counter: bumped by every browser action
    pub turn: u64,
    pub upgrading: Option<String>,
    pub log: Vec<Ev>,
  }

  thread_local! {
    static WORLD: RefCell<Option<World>> = RefCell::new(None);
  }

  pub(crate) fn with<R>(f: impl FnOnce(&mut World) -> R) -> R {
    WORLD.with(|w| {
      let mut g = w.borrow_mut();
      let world = g.as_mut().expect("no simulated page on this thread (call web_sys::sim::open_page)");
      f(world)
    })
  }

  pub(crate) fn console_push(level: &str, v: &JsValue) {
    let text = v.as_string().unwrap_or_else(|| format!("{v:?}"));
    let _ = WORLD.try_with(|w| {
      if let Ok(mut g) = w.try_borrow_mut() {
        if let Some(world) = g.as_mut() {
          world.log.push(Ev::Console { level: level.to_string(), text });
        }
      }
    });
  }

  /// A new page on this thread over the given durable image; installs `indexedDB` on the
  /// global object.
  pub fn open_page(image: Image, order: Order) {
    WORLD.with(|w| {
      *w.borrow_mut() =
        Some(World { image, order, reqs: Vec::new(), txs: Vec::new(), turn: 0, upgrading: None, log: Vec::new() });
    });
    js_sys::sim::clear_globals();
    js_sys::sim::set_global("indexedDB", JsValue::from_host(&["IDBFactory", "Object"], FactoryData));
  }

  /// The page goes away: returns the durable image (completed transactions only).
  pub fn close_page() -> Image {
    let world = WORLD.with(|w| w.borrow_mut().take());
    js_sys::sim::clear_globals();
    match world {
      Some(w) => {
        let image = w.image.clone();
        // request objects and handlers form reference cycles; they are leaked with the page
        std::mem::forget(w);
        image
      }
      None => Image::new(),
    }
  }

  pub fn image() -> Image {
    with(|w| w.image.clone())
  }

  pub fn set_order(order: Order) {
    with(|w| w.order = order);
  }

  pub fn take_log() -> Vec<Ev> {
    with(|w| std::mem::take(&mut w.log))
  }

  /// the transaction a request was placed against
  pub fn request_tx(req: usize) -> Option<usize> {
    with(|w| w.reqs.get(req).and_then(|r| r.tx))
  }

  pub fn txs() -> Vec<TxInfo> {
    with(|w| {
      w.txs
        .iter()
        .map(|t| TxInfo {
          id: t.id,
          readwrite: t.readwrite,
          ops: t.reqs.iter().map(|r| w.reqs[*r].kind.clone()).collect(),
          fired: t.fired,
          finished: t.finished,
        })
        .collect()
    })
  }

  fn write_keys(w: &World, t: &Tx) -> Vec<String> {
    t.reqs.iter().filter_map(|r| w.reqs[*r].kind.write_key().map(|k| k.to_string())).collect()
  }

  /// may transaction `t` make progress now (start / commit) under the ordering rule?
  fn unblocked(w: &World, t: &Tx) -> bool {
    let keys = write_keys(w, t);
    for u in w.txs.iter() {
      if u.id >= t.id {
        break;
      }
      if u.finished || u.db != t.db || u.store != t.store {
        continue;
      }
      match w.order {
        Order::Spec => {
          if u.readwrite || t.readwrite {
            return false;
          }
        }
        Order::Relaxed => {
          let ukeys = write_keys(w, u);
          let t_reads_all = t.reqs.iter().any(|r| matches!(w.reqs[*r].kind, ReqKind::GetAll | ReqKind::GetAllKeys));
          if ukeys.iter().any(|k| keys.contains(k)) || (t_reads_all && !ukeys.is_empty()) {
            return false;
          }
        }
      }
    }
    true
  }

  /// the browser actions that may happen next, in a canonical order
  pub fn enabled() -> Vec<Action> {
    with(|w| {
      let mut out = Vec::new();
      for (i, r) in w.reqs.iter().enumerate() {
        if r.state == ReqState::Pending && matches!(r.kind, ReqKind::Open { .. }) {
          out.push(Action::Open(i));
        }
      }
      for t in w.txs.iter() {
        if t.finished {
          continue;
        }
        if !unblocked(w, t) {
          continue;
        }
        if t.fired < t.reqs.len() {
          out.push(Action::Fire(t.reqs[t.fired]));
        } else {
          out.push(Action::Complete(t.id));
        }
      }
      out
    })
  }

  fn dispatch(handler: Option<JsValue>, target: &JsValue, what: &str) {
    if let Some(h) = handler {
      let ev = Event::unchecked_from_js(JsValue::from_host(&["Event", "Object"], EventData { target: target.clone() }));
      match call1::<Event>(&h, ev) {
        Ok(()) => {}
        Err(CallError::Dropped) => with(|w| w.log.push(Ev::Exception { what: format!("{what}: closure invoked after being dropped") })),
        Err(e) => with(|w| w.log.push(Ev::Exception { what: format!("{what}: {e:?}") })),
      }
    }
  }

  /// Perform one browser action.  Event handlers run inside (with no borrow of the world
  /// held); tasks they wake are *not* polled here.
  pub fn perform(a: Action) {
    match a {
      Action::Open(id) => {
        let (js, name, version, upgrade) = with(|w| {
          w.turn += 1;
          let (name, version) = match &w.reqs[id].kind {
            ReqKind::Open { name, version } => (name.clone(), *version),
            _ => panic!("Open on a non-open request"),
          };
          let cur = w.image.get(&name).map(|d| d.version).unwrap_or(0);
          let upgrade = cur < version;
          if upgrade {
            w.image.entry(name.clone()).or_default().version = version;
            w.upgrading = Some(name.clone());
          }
          let db = JsValue::from_host(&["IDBDatabase", "EventTarget", "Object"], DatabaseData { name: name.clone() });
          w.reqs[id].result = Some(db);
          w.reqs[id].state = ReqState::Done;
          (w.reqs[id].js.clone(), name, version, upgrade)
        });
        let _ = (name, version);
        if upgrade {
          let h = req_data(&js).onupgradeneeded.borrow().clone();
          dispatch(h, &js, "upgradeneeded");
          with(|w| w.upgrading = None);
        }
        let h = req_data(&js).onsuccess.borrow().clone();
        with(|w| w.log.push(Ev::Opened { req: id, upgraded: upgrade }));
        dispatch(h, &js, "open success");
      }
      Action::Fire(id) => {
        let js = with(|w| {
          w.turn += 1;
          let txid = w.reqs[id].tx.expect("request without transaction");
          assert!(w.txs[txid].reqs.get(w.txs[txid].fired) == Some(&id), "requests of one transaction run in order");
          let kind = w.reqs[id].kind.clone();
          // the transaction's view: durable store + its own earlier writes
          let (db, store) = (w.txs[txid].db.clone(), w.txs[txid].store.clone());
          let mut view: BTreeMap<String, Vec<u8>> =
            w.image.get(&db).and_then(|d| d.stores.get(&store)).cloned().unwrap_or_default();
          for (k, v) in w.txs[txid].writes.iter() {
            match v {
              Some(b) => {
                view.insert(k.clone(), b.clone());
              }
              None => {
                view.remove(k);
              }
            }
          }
          let result = match kind {
            ReqKind::Put { key, bytes } => {
              w.txs[txid].writes.push((key.clone(), Some(bytes)));
              JsValue::from_str(&key)
            }
            ReqKind::Delete { key } => {
              w.txs[txid].writes.push((key, None));
              JsValue::UNDEFINED
            }
            ReqKind::GetAllKeys => {
              let arr = js_sys::Array::new();
              for k in view.keys() {
                arr.push(&JsValue::from_str(k));
              }
              arr.into()
            }
            ReqKind::GetAll => {
              let arr = js_sys::Array::new();
              for v in view.values() {
                arr.push(&js_sys::Uint8Array::from(v.as_slice()).into());
              }
              arr.into()
            }
            ReqKind::Open { .. } => panic!("Fire on an open request"),
          };
          w.reqs[id].result = Some(result);
          w.reqs[id].state = ReqState::Done;
          w.txs[txid].fired += 1;
          w.txs[txid].active_turn = w.turn;
          w.log.push(Ev::Fired { req: id, tx: txid });
          w.reqs[id].js.clone()
        });
        let h = req_data(&js).onsuccess.borrow().clone();
        dispatch(h, &js, "request success");
      }
      Action::Complete(txid) => with(|w| {
        w.turn += 1;
        assert!(!w.txs[txid].finished && w.txs[txid].fired == w.txs[txid].reqs.len());
        let (db, store) = (w.txs[txid].db.clone(), w.txs[txid].store.clone());
        let writes = std::mem::take(&mut w.txs[txid].writes);
        if let Some(s) = w.image.get_mut(&db).and_then(|d| d.stores.get_mut(&store)) {
          for (k, v) in writes {
            match v {
              Some(b) => {
                s.insert(k, b);
              }
              None => {
                s.remove(&k);
              }
            }
          }
        }
        w.txs[txid].finished = true;
        w.log.push(Ev::Completed { tx: txid });
      }),
    }
  }
}
