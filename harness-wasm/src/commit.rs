//! Commit-level exploration: `Searchlite::{init, add_documents, commit}` of the included
//! file under many schedules; the page is closed after every step and every distinct durable
//! image is reopened with `Searchlite::init` + a match-all search.
//!
//! Everything reported here is an observation of the implementation alone.
use crate::page::{self, choices, describe, perform, Choice, Rng, TaskMode, YieldOnce};
use crate::wasm::Searchlite;
use serde_json::{json, Value};
use std::cell::RefCell;
use std::collections::{BTreeMap, BTreeSet, HashMap};
use std::rc::Rc;
use wasm_bindgen_futures::sim as exec;
use web_sys::sim::{self as idb, Action, Ev, Image, Order, ReqKind};

pub const DB: &str = "slw";
pub const STORE: &str = "searchlite_files";
const EXTS: [&str; 5] = ["docs", "post", "terms", "fast", "meta"];

pub fn schema_json() -> String {
  serde_json::to_string(&searchlite_core::Schema::default_text_body()).unwrap()
}

#[derive(Default, Clone, Debug)]
struct Marks {
  /// highest commit whose call has begun (0 = `init`), -1 before
  started: i64,
  /// highest commit whose promise resolved with Ok
  resolved: i64,
  errors: Vec<String>,
  done: bool,
}

/// how the adversary picks browser actions
#[derive(Clone, Copy, Debug, PartialEq, Eq)]
enum Pick {
  First,
  Uniform,
  /// per transaction: 0 = eager, 1 = success early / completion late, 2 = both late
  DelaySet,
}

#[derive(Clone, Copy, Debug)]
struct Strategy {
  order: Order,
  tasks: TaskMode,
  pick: Pick,
}

fn strategy(i: usize, spec_runs: usize) -> Strategy {
  if i < spec_runs {
    return Strategy { order: Order::Spec, tasks: TaskMode::Fifo, pick: Pick::First };
  }
  match i % 4 {
    0 => Strategy { order: Order::Relaxed, tasks: TaskMode::Fifo, pick: Pick::DelaySet },
    1 => Strategy { order: Order::Relaxed, tasks: TaskMode::Fifo, pick: Pick::Uniform },
    2 => Strategy { order: Order::Relaxed, tasks: TaskMode::Any, pick: Pick::DelaySet },
    _ => Strategy { order: Order::Relaxed, tasks: TaskMode::Any, pick: Pick::Uniform },
  }
}

fn strategy_name(s: Strategy) -> String {
  format!(
    "{}-{}-{}",
    if s.order == Order::Spec { "spec" } else { "relaxed" },
    if s.tasks == TaskMode::Fifo { "fifo" } else { "anytask" },
    match s.pick {
      Pick::First => "first",
      Pick::Uniform => "uniform",
      Pick::DelaySet => "delayset",
    }
  )
}

#[derive(Clone, Debug)]
struct ClosePoint {
  step: usize,
  image: usize,
  started: i64,
  resolved: i64,
  /// keys written by transactions whose requests all succeeded but which have not completed
  limbo: Vec<String>,
}

struct RunOut {
  steps: usize,
  points: Vec<ClosePoint>,
  images: Vec<Image>,
  marks: Marks,
  trace: Vec<String>,
  exceptions: Vec<String>,
  console: Vec<String>,
  hung: bool,
  /// (key, fnv(bytes)) → (commit window at transaction creation)
  put_window: HashMap<(String, u64), i64>,
  /// completed puts in completion order: (key, bytes hash, len, ends with commit marker)
  done_log: Vec<(String, u64, usize, bool)>,
}

fn wal_marker() -> Vec<u8> {
  let mut h = crc32fast::Hasher::new();
  h.update(&[2u8]);
  let mut v = vec![0u8, 2u8];
  v.extend_from_slice(&h.finalize().to_le_bytes());
  v
}

/// one page session of the program under one schedule
fn run_schedule(commits: Vec<Vec<Value>>, yield_after_add: bool, strat: Strategy, seed: u64, max_steps: usize) -> RunOut {
  let (res, _img) = page::page(Image::new(), strat.order, move || {
    let marks = Rc::new(RefCell::new(Marks { started: -1, resolved: -1, ..Default::default() }));
    let m = marks.clone();
    let prog = async move {
      m.borrow_mut().started = 0;
      let idx = match Searchlite::init(DB.to_string(), schema_json(), None).await {
        Ok(i) => i,
        Err(e) => {
          m.borrow_mut().errors.push(format!("init: {e:?}"));
          m.borrow_mut().done = true;
          return;
        }
      };
      m.borrow_mut().resolved = 0;
      for (k, docs) in commits.iter().enumerate() {
        let js = serde_wasm_bindgen::to_value(docs).unwrap();
        if let Err(e) = idx.add_documents(js) {
          m.borrow_mut().errors.push(format!("add {}: {e:?}", k + 1));
        }
        if yield_after_add {
          YieldOnce(false).await;
        }
        m.borrow_mut().started = k as i64 + 1;
        match idx.commit().await {
          Ok(()) => m.borrow_mut().resolved = k as i64 + 1,
          Err(e) => m.borrow_mut().errors.push(format!("commit {}: {e:?}", k + 1)),
        }
      }
      m.borrow_mut().done = true;
      // keep the handle alive: a page does not drop its objects before it is closed
      std::mem::forget(idx);
    };
    let main = exec::spawn(prog).expect("spawn main");
    let _ = main;
    let mut rng = Rng::new(seed);
    let mut out = RunOut {
      steps: 0,
      points: Vec::new(),
      images: vec![idb::image()],
      marks: Marks::default(),
      trace: Vec::new(),
      exceptions: Vec::new(),
      console: Vec::new(),
      hung: false,
      put_window: HashMap::new(),
      done_log: Vec::new(),
    };
    let marker = wal_marker();
    let mut tx_class: HashMap<usize, u8> = HashMap::new();
    let mut seen_tx = 0usize;
    let limbo = || -> Vec<String> {
      idb::txs()
        .iter()
        .filter(|t| t.readwrite && !t.finished && t.fired == t.ops.len() && !t.ops.is_empty())
        .flat_map(|t| {
          t.ops.iter().filter_map(|o| match o {
            ReqKind::Put { key, .. } | ReqKind::Delete { key } => Some(key.clone()),
            _ => None,
          })
        })
        .collect()
    };
    let point = |out: &mut RunOut, marks: &Marks, limbo: Vec<String>| {
      out.points.push(ClosePoint { step: out.steps, image: out.images.len() - 1, started: marks.started, resolved: marks.resolved, limbo });
    };
    point(&mut out, &marks.borrow(), limbo());
    loop {
      if out.steps >= max_steps {
        out.hung = true;
        break;
      }
      // classify new transactions (window = commit in progress when they were created)
      let txs = idb::txs();
      while seen_tx < txs.len() {
        let t = &txs[seen_tx];
        tx_class.insert(t.id, (rng.next() % 3) as u8);
        for o in t.ops.iter() {
          if let ReqKind::Put { key, bytes } = o {
            out.put_window.entry((key.clone(), page::fnv(bytes))).or_insert(marks.borrow().started);
          }
        }
        seen_tx += 1;
      }
      let cs = choices(strat.tasks);
      if cs.is_empty() {
        break;
      }
      let c = match strat.pick {
        Pick::First => cs[0],
        Pick::Uniform => cs[rng.below(cs.len())],
        Pick::DelaySet => {
          let preferred: Vec<Choice> = cs
            .iter()
            .copied()
            .filter(|c| match c {
              Choice::Task(_) => true,
              Choice::Idb(Action::Open(_)) => true,
              Choice::Idb(Action::Fire(r)) => {
                let t = fire_tx(*r);
                tx_class.get(&t).copied().unwrap_or(0) != 2
              }
              Choice::Idb(Action::Complete(t)) => tx_class.get(t).copied().unwrap_or(0) == 0,
            })
            .collect();
          if preferred.is_empty() {
            cs[rng.below(cs.len())]
          } else {
            preferred[rng.below(preferred.len())]
          }
        }
      };
      out.trace.push(describe(c));
      perform(c);
      out.steps += 1;
      if let Choice::Idb(Action::Complete(t)) = c {
        out.images.push(idb::image());
        if let Some(info) = idb::txs().get(t) {
          for o in info.ops.iter() {
            if let ReqKind::Put { key, bytes } = o {
              out.done_log.push((key.clone(), page::fnv(bytes), bytes.len(), bytes.ends_with(&marker)));
            }
          }
        }
      }
      for ev in idb::take_log() {
        match ev {
          Ev::Exception { what } => out.exceptions.push(what),
          Ev::Console { level, text } if level == "error" => out.console.push(text),
          _ => {}
        }
      }
      point(&mut out, &marks.borrow(), limbo());
    }
    out.marks = marks.borrow().clone();
    if !out.marks.done {
      out.hung = true;
    }
    out
  });
  match res {
    Ok(o) => o,
    Err(msg) => RunOut {
      steps: 0,
      points: Vec::new(),
      images: Vec::new(),
      marks: Marks { errors: vec![format!("panic: {msg}")], ..Default::default() },
      trace: Vec::new(),
      exceptions: vec![format!("panic: {msg}")],
      console: Vec::new(),
      hung: false,
      put_window: HashMap::new(),
      done_log: Vec::new(),
    },
  }
}

/// transaction of a pending request id
fn fire_tx(req: usize) -> usize {
  idb::request_tx(req).unwrap_or(usize::MAX)
}

#[derive(Clone, Debug, PartialEq)]
pub struct Reopen {
  pub ok: bool,
  pub stage: String,
  pub error: String,
  /// sorted (id, body)
  pub contents: Vec<(String, String)>,
}

/// a new page over `image`: `Searchlite::init` then a match-all search
pub fn reopen(image: Image) -> Reopen {
  let (res, _) = page::page(image, Order::Spec, move || {
    let out: Rc<RefCell<Option<Reopen>>> = Rc::new(RefCell::new(None));
    let o = out.clone();
    let prog = async move {
      let idx = match Searchlite::init(DB.to_string(), schema_json(), None).await {
        Ok(i) => i,
        Err(e) => {
          *o.borrow_mut() = Some(Reopen { ok: false, stage: "init".into(), error: format!("{e:?}"), contents: vec![] });
          return;
        }
      };
      let r = idx.search(json!({"type": "match_all"}).to_string(), 10_000);
      *o.borrow_mut() = Some(match r {
        Ok(v) => {
          let j = v.to_json().unwrap_or(Value::Null);
          let mut contents: Vec<(String, String)> = j["hits"]
            .as_array()
            .cloned()
            .unwrap_or_default()
            .iter()
            .map(|h| (h["doc_id"].as_str().unwrap_or("").to_string(), h["fields"]["body"].as_str().unwrap_or("").to_string()))
            .collect();
          contents.sort();
          Reopen { ok: true, stage: "search".into(), error: String::new(), contents }
        }
        Err(e) => Reopen { ok: false, stage: "search".into(), error: format!("{e:?}"), contents: vec![] },
      });
      std::mem::forget(idx);
    };
    exec::spawn(prog);
    page::run_to_end(10_000);
    let r = out.borrow_mut().take();
    r.unwrap_or(Reopen { ok: false, stage: "hang".into(), error: "reopen did not finish".into(), contents: vec![] })
  });
  res.unwrap_or_else(|msg| Reopen { ok: false, stage: "panic".into(), error: msg, contents: vec![] })
}

/// expected contents after commit `k` (0 = empty): last write per id wins
pub fn contents_after(commits: &[Vec<Value>], k: usize) -> Vec<(String, String)> {
  let mut m: BTreeMap<String, String> = BTreeMap::new();
  for docs in commits.iter().take(k) {
    for d in docs {
      m.insert(d["_id"].as_str().unwrap_or("").to_string(), d["body"].as_str().unwrap_or("").to_string());
    }
  }
  m.into_iter().collect()
}

fn files_of(image: &Image) -> BTreeMap<String, Vec<u8>> {
  image.get(DB).and_then(|d| d.stores.get(STORE)).cloned().unwrap_or_default()
}

fn base_name(p: &str) -> &str {
  p.rsplit('/').next().unwrap_or(p)
}

/// file names the stored manifest refers to that are absent from the image
fn missing_named_files(files: &BTreeMap<String, Vec<u8>>) -> Option<Vec<String>> {
  let (_, bytes) = files.iter().find(|(k, _)| base_name(k) == "MANIFEST.json")?;
  let m: Value = serde_json::from_slice(bytes).ok()?;
  let present: BTreeSet<&str> = files.keys().map(|k| base_name(k)).collect();
  let mut missing = Vec::new();
  for seg in m["segments"].as_array()? {
    for f in ["terms", "postings", "docstore", "fast", "meta"] {
      if let Some(p) = seg["paths"][f].as_str() {
        if !present.contains(base_name(p)) {
          missing.push(base_name(p).to_string());
        }
      }
    }
  }
  Some(missing)
}

/// abstract (path id, data) of a stored file, stable across runs: manifest → (0,[k]),
/// wal → (1, [9, class]), segment file j of commit k → (2+5(k-1)+j, [k, j])
fn abstract_file(key: &str, bytes: &[u8], window: i64, marker: &[u8]) -> (u64, Vec<u64>) {
  let name = base_name(key);
  if name == "MANIFEST.json" {
    return (0, vec![window.max(0) as u64]);
  }
  if name == "wal.log" {
    let class = if bytes.is_empty() { 0 } else if bytes.ends_with(marker) { 2 } else { 1 };
    return (1, vec![9, class]);
  }
  let ext = name.rsplit('.').next().unwrap_or("");
  let j = EXTS.iter().position(|e| *e == ext).unwrap_or(7) as u64;
  let k = window.max(1) as u64;
  (2 + 5 * (k - 1) + j, vec![k, j])
}

pub fn run(case: &Value) -> Value {
  let commits: Vec<Vec<Value>> = case["commits"].as_array().cloned().unwrap_or_default().iter().map(|c| c.as_array().cloned().unwrap_or_default()).collect();
  let seed = case["seed"].as_u64().unwrap_or(1);
  let n = case["schedules"].as_u64().unwrap_or(50) as usize;
  let spec_runs = case["spec_runs"].as_u64().unwrap_or(1) as usize;
  let yield_after_add = case["yield_after_add"].as_bool().unwrap_or(true);
  let only = case["only"].as_u64().map(|x| x as usize);
  let reopen_per_abstract = case["reopen_per_abstract"].as_u64().unwrap_or(2);
  let max_steps = 400 + 200 * commits.len();
  let marker = wal_marker();

  let expected: Vec<Vec<(String, String)>> = (0..=commits.len()).map(|k| contents_after(&commits, k)).collect();

  let mut total_steps = 0u64;
  let mut total_points = 0u64;
  let mut distinct_triples: BTreeSet<(String, i64, i64)> = BTreeSet::new();
  let mut failures: Vec<Value> = Vec::new();
  let mut sig_counts: BTreeMap<String, u64> = BTreeMap::new();
  let mut dist: BTreeMap<String, u64> = BTreeMap::new();
  // abstract image → (impl reopen outcome, number of concrete images)
  let mut abstract_images: BTreeMap<String, (Value, Reopen, u64)> = BTreeMap::new();
  let mut nondeterministic: Vec<Value> = Vec::new();
  let mut runs_out: Vec<Value> = Vec::new();
  let mut reopen_cache: HashMap<Vec<(String, u64)>, Reopen> = HashMap::new();
  let mut reopens = 0u64;
  let mut interesting_runs = 0u64;

  let mut fail = |sig: &str, what: &str, sched: usize, strat: Strategy, observed: Value, failures: &mut Vec<Value>| {
    *sig_counts.entry(sig.to_string()).or_insert(0) += 1;
    if failures.iter().filter(|f| f["sig"] == sig).count() < 2 {
      failures.push(json!({"sig": sig, "what": what, "schedule": sched, "strategy": strategy_name(strat), "observed": observed}));
    }
  };

  for i in 0..n {
    if only.map(|o| o != i).unwrap_or(false) {
      continue;
    }
    let strat = strategy(i, spec_runs);
    let rseed = seed ^ (i as u64).wrapping_mul(0xA24BAED4963EE407);
    let out = run_schedule(commits.clone(), yield_after_add, strat, rseed, max_steps);
    *dist.entry(format!("strategy.{}", strategy_name(strat))).or_insert(0) += 1;
    total_steps += out.steps as u64;
    total_points += out.points.len() as u64;
    let order_tag = if strat.order == Order::Spec { "spec-order" } else { "relaxed-order" };

    for e in out.exceptions.iter() {
      fail(&format!("js.exception.{order_tag}"), "the simulated browser reported an exception", i, strat, json!({"exception": e}), &mut failures);
    }
    for e in out.console.iter() {
      fail(&format!("console.error.{order_tag}"), "console.error from the persistence layer without any injected fault", i, strat, json!({"console": e}), &mut failures);
    }
    if out.hung {
      fail(&format!("hang.{order_tag}"), "the program did not finish although nothing is left to schedule", i, strat, json!({"marks": format!("{:?}", out.marks), "tail": out.trace.iter().rev().take(8).collect::<Vec<_>>()}), &mut failures);
    }
    for e in out.marks.errors.iter() {
      fail(&format!("program.error.{order_tag}"), "init/add/commit returned an error without any injected fault", i, strat, json!({"error": e}), &mut failures);
    }

    // reopen every distinct image of this run
    let mut reopened: Vec<Option<Reopen>> = vec![None; out.images.len()];
    let mut abs_of: Vec<String> = vec![String::new(); out.images.len()];
    for (vi, img) in out.images.iter().enumerate() {
      let files = files_of(img);
      // abstract image (wal left out: reopening does not read it)
      let mut abs: Vec<(u64, Vec<u64>)> = files
        .iter()
        .map(|(k, v)| {
          let w = out.put_window.get(&(k.clone(), page::fnv(v))).copied().unwrap_or(0);
          abstract_file(k, v, w, &marker)
        })
        .filter(|(p, _)| *p != 1)
        .collect();
      abs.sort();
      let abs_json = json!(abs);
      let abs_key = abs_json.to_string();
      abs_of[vi] = abs_key.clone();
      let key: Vec<(String, u64)> = files.iter().map(|(k, v)| (k.clone(), page::fnv(v))).collect();
      let known = abstract_images.get(&abs_key).map(|(_, r, cnt)| (r.clone(), *cnt));
      let r = match (reopen_cache.get(&key), known) {
        (Some(r), _) => r.clone(),
        // the same abstract image was already reopened from `reopen_per_abstract` different
        // concrete images (other uuids/timestamps) with the same outcome
        (None, Some((r, cnt))) if cnt >= reopen_per_abstract => r,
        _ => {
          reopens += 1;
          let r = reopen(img.clone());
          reopen_cache.insert(key, r.clone());
          match abstract_images.get_mut(&abs_key) {
            Some((_, prev, cnt)) => {
              *cnt += 1;
              if (prev.ok, &prev.stage, &prev.contents) != (r.ok, &r.stage, &r.contents) && nondeterministic.len() < 3 {
                nondeterministic.push(json!({"abstract": abs_json, "a": format!("{prev:?}"), "b": format!("{r:?}")}));
              }
            }
            None => {
              abstract_images.insert(abs_key, (abs_json, r.clone(), 1));
            }
          }
          r
        }
      };
      reopened[vi] = Some(r);
    }

    // the property, on the implementation alone, at every close point
    let mut run_partial = false;
    let mut seen: BTreeSet<(usize, i64, i64)> = BTreeSet::new();
    for p in out.points.iter() {
      distinct_triples.insert((abs_of[p.image].clone(), p.started, p.resolved));
      if !seen.insert((p.image, p.started, p.resolved)) {
        continue;
      }
      let r = reopened[p.image].as_ref().unwrap();
      let files = files_of(&out.images[p.image]);
      let ctx = |extra: Value| -> Value {
        json!({
          "close_after_step": p.step, "commits_started": p.started, "commits_resolved": p.resolved,
          "stored_files": files.keys().map(|k| base_name(k).to_string()).collect::<Vec<_>>(),
          "steps": out.trace.iter().take(p.step).collect::<Vec<_>>(),
          "detail": extra,
        })
      };
      if !r.ok {
        run_partial = true;
        let missing = missing_named_files(&files).unwrap_or_default();
        if !missing.is_empty() {
          fail(
            &format!("close.partial.manifest-names-missing-file.{order_tag}"),
            "after the page close the stored manifest names a segment file that is not in the store: the index does not reopen",
            i, strat, ctx(json!({"reopen_stage": r.stage, "error": r.error, "missing": missing})), &mut failures,
          );
        } else {
          fail(&format!("close.reopen-failed.{order_tag}"), "the stored image does not reopen", i, strat, ctx(json!({"reopen_stage": r.stage, "error": r.error})), &mut failures);
        }
        continue;
      }
      let started = p.started.max(0) as usize;
      let which: Vec<usize> = (0..=started).filter(|j| expected[*j] == r.contents).collect();
      if which.is_empty() {
        fail(&format!("close.contents-not-a-started-commit.{order_tag}"), "the reopened index holds contents that no started commit produced", i, strat, ctx(json!({"contents": r.contents})), &mut failures);
        continue;
      }
      if p.resolved >= 0 {
        let need = p.resolved as usize;
        if !which.iter().any(|j| *j >= need) {
          // the commit is lost because the stored manifest is too old: is the manifest that
          // would carry it in a transaction whose request succeeded but which has not completed?
          let sig = if p.limbo.iter().any(|k| base_name(k) == "MANIFEST.json") {
            format!("resolved-lost.success-before-complete.{order_tag}")
          } else {
            format!("resolved-lost.other.{order_tag}")
          };
          fail(
            &sig,
            "a commit whose promise had resolved is not in the reopened index: its write request had succeeded but its transaction had not completed when the page was closed",
            i, strat, ctx(json!({"contents": r.contents, "expected_at_least_commit": need, "success_not_complete": p.limbo})), &mut failures,
          );
        }
      }
    }
    if out.points.iter().any(|p| p.resolved >= 1 && p.started > p.resolved) {
      interesting_runs += 1;
    }
    // per-run abstract completion log (for the `ordered ⇒ recoverable` monitor)
    if runs_out.len() < 60 {
      let done: Vec<Value> = out
        .done_log
        .iter()
        .map(|(k, h, len, mk)| {
          let w = out.put_window.get(&(k.clone(), *h)).copied().unwrap_or(0);
          let fake: Vec<u8> = if *len == 0 { vec![] } else if *mk { marker.clone() } else { vec![1] };
          let (p, d) = abstract_file(k, &fake, w, &marker);
          json!([p, d])
        })
        .collect();
      runs_out.push(json!({"schedule": i, "strategy": strategy_name(strat), "done": done, "any_unopenable": run_partial, "steps": out.steps}));
    }
  }

  let images: Vec<Value> = abstract_images
    .values()
    .map(|(abs, r, cnt)| json!({"store": abs, "ok": r.ok, "stage": r.stage, "error": r.error, "contents": r.contents, "concrete": cnt}))
    .collect();
  json!({
    "ok": true,
    "schedules": if only.is_some() { 1 } else { n },
    "steps": total_steps,
    "close_points": total_points,
    "distinct_close_states": distinct_triples.len(),
    "reopens": reopens,
    "runs_with_overlap": interesting_runs,
    "failures": failures,
    "sig_counts": sig_counts,
    "distribution": dist,
    "images": images,
    "nondeterministic": nondeterministic,
    "runs": runs_out,
    "expected": expected,
  })
}
