//! `slw` — host execution of `/repo/searchlite-wasm/src/wasm.rs` (unmodified, `#[path]`-included)
//! against the shim crates in `../shims` (simulated IndexedDB + harness-driven executor).
//!
//! `slw` reads one JSON case from stdin and prints one JSON result:
//!   {"kind":"commit",  …}  short add/commit sequences through `Searchlite::{init, add_documents,
//!                          commit}` under many schedules, page closed after every step,
//!                          every distinct durable image reopened with `Searchlite::init` + search
//!   {"kind":"storage", …}  a scripted sequence of `JsStorage`/`JsFile` operations and scheduler
//!                          choices; the observable state after every item (for the differential
//!                          against the Lean model `SL.Idb`)
#[allow(dead_code)]
#[path = "/repo/searchlite-wasm/src/wasm.rs"]
mod wasm;

mod commit;
mod page;
mod storage;

use serde_json::{json, Value};
use std::io::Read;

fn main() {
  // panics of the code under test are caught per page and reported in the result
  std::panic::set_hook(Box::new(|_| {}));
  let mut txt = String::new();
  std::io::stdin().read_to_string(&mut txt).expect("stdin");
  let case: Value = match serde_json::from_str(&txt) {
    Ok(v) => v,
    Err(e) => {
      println!("{}", json!({"ok": false, "error": format!("bad case json: {e}")}));
      return;
    }
  };
  let out = match case["kind"].as_str() {
    Some("commit") => commit::run(&case),
    Some("storage") => storage::run(&case),
    other => json!({"ok": false, "error": format!("unknown kind {other:?}")}),
  };
  println!("{}", serde_json::to_string(&out).unwrap());
}
