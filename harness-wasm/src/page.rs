//! One page = one fresh OS thread (the included file keeps a thread-local IndexedDB
//! connection cache; a new page must not see the old one), plus the scheduling helpers.
use std::cell::RefCell;
use std::future::Future;
use std::pin::Pin;
use std::rc::Rc;
use std::task::{Context, Poll};
use wasm_bindgen_futures::sim as exec;
use web_sys::sim::{self as idb, Action, Image, Order};

/// SplitMix64
#[derive(Clone)]
pub struct Rng(pub u64);

impl Rng {
  pub fn new(seed: u64) -> Rng {
    let mut r = Rng(seed ^ 0x9E37_79B9_7F4A_7C15);
    r.next();
    r
  }
  pub fn next(&mut self) -> u64 {
    self.0 = self.0.wrapping_add(0x9E3779B97F4A7C15);
    let mut z = self.0;
    z = (z ^ (z >> 30)).wrapping_mul(0xBF58476D1CE4E5B9);
    z = (z ^ (z >> 27)).wrapping_mul(0x94D049BB133111EB);
    z ^ (z >> 31)
  }
  pub fn below(&mut self, n: usize) -> usize {
    (self.next() % (n.max(1) as u64)) as usize
  }
}

/// Run `f` as a page over `image` on a fresh thread; returns `f`'s value and the durable
/// image at the moment the page is closed (when `f` returns or panics).
pub fn page<R: Send + 'static>(image: Image, order: Order, f: impl FnOnce() -> R + Send + 'static) -> (Result<R, String>, Image) {
  let h = std::thread::Builder::new()
    .stack_size(16 << 20)
    .spawn(move || {
      idb::open_page(image, order);
      let r = std::panic::catch_unwind(std::panic::AssertUnwindSafe(f)).map_err(|e| {
        if let Some(s) = e.downcast_ref::<&str>() {
          s.to_string()
        } else if let Some(s) = e.downcast_ref::<String>() {
          s.clone()
        } else {
          "panic".to_string()
        }
      });
      exec::close_page();
      let img = idb::close_page();
      (r, img)
    })
    .expect("spawn page thread");
  h.join().expect("page thread")
}

/// returns `Pending` once (re-queued at the back of the run queue)
pub struct YieldOnce(pub bool);

impl Future for YieldOnce {
  type Output = ();
  fn poll(mut self: Pin<&mut Self>, cx: &mut Context<'_>) -> Poll<()> {
    if self.0 {
      Poll::Ready(())
    } else {
      self.0 = true;
      cx.waker().wake_by_ref();
      Poll::Pending
    }
  }
}

/// parks the task until the harness sets the flag and polls it again
pub struct Gate(pub Rc<RefCell<bool>>);

impl Future for Gate {
  type Output = ();
  fn poll(self: Pin<&mut Self>, _cx: &mut Context<'_>) -> Poll<()> {
    if *self.0.borrow() {
      *self.0.borrow_mut() = false;
      Poll::Ready(())
    } else {
      Poll::Pending
    }
  }
}

#[derive(Clone, Copy, Debug, PartialEq, Eq)]
pub enum Choice {
  Task(usize),
  Idb(Action),
}

#[derive(Clone, Copy, Debug, PartialEq, Eq)]
pub enum TaskMode {
  /// runnable tasks first, in wake order (the microtask queue of a real page)
  Fifo,
  /// runnable tasks run in any order (still before the next browser action)
  Any,
}

/// The choices the adversary has now.  Runnable tasks are drained before the next browser
/// action (the microtask checkpoint after every callback: a real page never delivers the
/// next IndexedDB event while a woken task is still waiting to run); `Any` lets the
/// adversary pick which runnable task goes first.
pub fn choices(mode: TaskMode) -> Vec<Choice> {
  let tasks = exec::runnable();
  if !tasks.is_empty() {
    return match mode {
      TaskMode::Fifo => vec![Choice::Task(tasks[0])],
      TaskMode::Any => tasks.into_iter().map(Choice::Task).collect(),
    };
  }
  idb::enabled().into_iter().map(Choice::Idb).collect()
}

pub fn perform(c: Choice) {
  match c {
    Choice::Task(id) => {
      exec::poll(id);
    }
    Choice::Idb(a) => idb::perform(a),
  }
}

pub fn describe(c: Choice) -> String {
  match c {
    Choice::Task(id) => format!("poll task {id}"),
    Choice::Idb(Action::Open(r)) => format!("open request {r} done"),
    Choice::Idb(Action::Fire(r)) => format!("request {r} success"),
    Choice::Idb(Action::Complete(t)) => format!("transaction {t} complete"),
  }
}

/// run FIFO until nothing is enabled (the specified browser: deterministic)
pub fn run_to_end(max_steps: usize) -> usize {
  let mut n = 0;
  while n < max_steps {
    let cs = choices(TaskMode::Fifo);
    if cs.is_empty() {
      break;
    }
    perform(cs[0]);
    n += 1;
  }
  n
}

pub fn hex(bytes: &[u8]) -> String {
  let mut s = String::with_capacity(bytes.len() * 2);
  for b in bytes {
    s.push_str(&format!("{:02x}", b));
  }
  s
}

pub fn fnv(bytes: &[u8]) -> u64 {
  let mut h: u64 = 0xcbf29ce484222325;
  for b in bytes {
    h = (h ^ *b as u64).wrapping_mul(0x100000001b3);
  }
  h
}
