//! Storage-level script: `JsStorage` / `JsFile` operations of the included file interleaved
//! with explicit scheduler choices.  After every item the observable state is recorded; the
//! main harness replays the same items through the Lean model (`SL.Idb.sysExec`) and
//! compares.
use crate::page::{self, hex};
use crate::wasm::JsStorage;
use searchlite_core::storage::{DynFile, Storage};
use serde_json::{json, Value};
use std::cell::RefCell;
use std::collections::{BTreeMap, BTreeSet, HashMap};
use std::io::{Seek, SeekFrom, Write};
use std::path::PathBuf;
use std::rc::Rc;
use std::sync::Arc;
use wasm_bindgen_futures::sim as exec;
use web_sys::sim::{self as idb, Action, Ev, Image, Order, ReqKind};

const DB: &str = "slw";
const STORE: &str = "searchlite_files";

fn unhex(s: &str) -> Vec<u8> {
  (0..s.len() / 2).map(|i| u8::from_str_radix(&s[2 * i..2 * i + 2], 16).unwrap_or(0)).collect()
}

fn path_of(p: u64) -> PathBuf {
  PathBuf::from(DB).join(format!("f{p}"))
}

fn path_id(key: &str) -> Value {
  match key.rsplit('/').next().and_then(|n| n.strip_prefix('f')).and_then(|n| n.parse::<u64>().ok()) {
    Some(n) => json!(n),
    None => json!(key),
  }
}

pub fn run(case: &Value) -> Value {
  let items: Vec<Value> = case["items"].as_array().cloned().unwrap_or_default();
  let order = if case["order"].as_str() == Some("spec") { Order::Spec } else { Order::Relaxed };
  let (res, _) = page::page(Image::new(), order, move || run_page(items));
  match res {
    Ok(v) => v,
    Err(msg) => json!({"ok": false, "error": format!("panic: {msg}")}),
  }
}

fn run_page(items: Vec<Value>) -> Value {
  // tasks spawned by this harness (not persistence tasks of the code under test)
  let mut own: BTreeSet<usize> = BTreeSet::new();
  let slot: Rc<RefCell<Option<Result<Arc<JsStorage>, String>>>> = Rc::new(RefCell::new(None));
  let s2 = slot.clone();
  let t = exec::spawn(async move {
    let r = JsStorage::new(DB.to_string(), PathBuf::from(DB)).await;
    *s2.borrow_mut() = Some(r.map(Arc::new).map_err(|e| e.to_string()));
  })
  .unwrap();
  own.insert(t);
  page::run_to_end(1000);
  let storage = match slot.borrow_mut().take() {
    Some(Ok(s)) => s,
    Some(Err(e)) => return json!({"ok": false, "error": format!("JsStorage::new: {e}")}),
    None => return json!({"ok": false, "error": "JsStorage::new did not finish"}),
  };
  let base_tasks = exec::task_count();
  let _ = base_tasks;
  let base_txs = idb::txs().len();
  idb::take_log();

  let mut handles: HashMap<u64, DynFile> = HashMap::new();
  let flushes: Rc<RefCell<Vec<Option<bool>>>> = Rc::new(RefCell::new(Vec::new()));
  let mut exceptions: Vec<String> = Vec::new();
  let mut obs: Vec<Value> = Vec::new();
  let mut touched: BTreeSet<u64> = BTreeSet::new();

  // model ids: persistence tasks by spawn order, read-write transactions by creation order
  let model_task = |own: &BTreeSet<usize>, id: usize| -> usize { (0..id).filter(|x| !own.contains(x)).count() };
  let model_tx = |id: usize| -> usize { id - base_txs };

  for item in items.iter() {
    let op = item["op"].as_str().unwrap_or("");
    let mut label = item.clone();
    let mut skipped = false;
    match op {
      "write_all" => {
        let p = item["p"].as_u64().unwrap_or(0);
        touched.insert(p);
        let _ = storage.write_all(&path_of(p), &unhex(item["d"].as_str().unwrap_or("")));
      }
      "atomic_write" => {
        let p = item["p"].as_u64().unwrap_or(0);
        touched.insert(p);
        let _ = storage.atomic_write(&path_of(p), &unhex(item["d"].as_str().unwrap_or("")));
      }
      "open_write" | "open_append" => {
        let p = item["p"].as_u64().unwrap_or(0);
        let h = item["h"].as_u64().unwrap_or(0);
        touched.insert(p);
        if handles.contains_key(&h) {
          skipped = true;
        } else {
          let f = if op == "open_write" { storage.open_write(&path_of(p)) } else { storage.open_append(&path_of(p)) };
          match f {
            Ok(f) => {
              handles.insert(h, f);
            }
            Err(_) => skipped = true,
          }
        }
      }
      "write" | "flush" | "sync" | "set_len" | "seek" | "drop" => {
        let h = item["h"].as_u64().unwrap_or(0);
        match handles.get_mut(&h) {
          None => skipped = true,
          Some(f) => match op {
            "write" => {
              let _ = f.write_all(&unhex(item["d"].as_str().unwrap_or("")));
            }
            "flush" => {
              let _ = f.flush();
            }
            "sync" => {
              let _ = f.sync_all();
            }
            "set_len" => {
              let _ = f.set_len(item["n"].as_u64().unwrap_or(0));
            }
            "seek" => {
              let _ = f.seek(SeekFrom::Start(item["n"].as_u64().unwrap_or(0)));
            }
            _ => {
              let f = handles.remove(&h);
              drop(f);
            }
          },
        }
      }
      "remove" => {
        let p = item["p"].as_u64().unwrap_or(0);
        touched.insert(p);
        let _ = storage.remove(&path_of(p));
      }
      "flush_storage" => {
        let st = storage.clone();
        let fl = flushes.clone();
        let idx = fl.borrow().len();
        fl.borrow_mut().push(None);
        let t = exec::spawn(async move {
          let r = st.flush().await;
          fl.borrow_mut()[idx] = Some(r.is_ok());
        })
        .unwrap();
        own.insert(t);
        // the first poll takes the receivers: that is the moment of the `flushTake` label
        exec::poll(t);
      }
      "sched" => {
        let k = item["k"].as_u64().unwrap_or(0) as usize;
        let mut cs: Vec<(Value, page::Choice)> = Vec::new();
        for t in exec::runnable() {
          if !own.contains(&t) {
            cs.push((json!({"op": "run", "t": model_task(&own, t)}), page::Choice::Task(t)));
          }
        }
        cs.sort_by_key(|(l, _)| l["t"].as_u64());
        // browser actions only when no task is runnable (microtask checkpoint)
        let acts = if cs.is_empty() { idb::enabled() } else { Vec::new() };
        for a in acts {
          match a {
            Action::Fire(r) => {
              let t = idb::request_tx(r).unwrap_or(0);
              cs.push((json!({"op": "succ", "tx": model_tx(t)}), page::Choice::Idb(a)));
            }
            Action::Complete(t) => cs.push((json!({"op": "complete", "tx": model_tx(t)}), page::Choice::Idb(a))),
            Action::Open(_) => {}
          }
        }
        if cs.is_empty() {
          skipped = true;
        } else {
          let (l, c) = cs[k % cs.len()].clone();
          label = l;
          page::perform(c);
        }
      }
      _ => skipped = true,
    }
    // harness-owned flush tasks run as soon as they are woken (they only observe)
    loop {
      let r: Vec<usize> = exec::runnable().into_iter().filter(|t| own.contains(t)).collect();
      if r.is_empty() {
        break;
      }
      for t in r {
        exec::poll(t);
      }
    }
    for ev in idb::take_log() {
      match ev {
        Ev::Exception { what } => exceptions.push(what),
        Ev::Console { level, text } if level == "error" => exceptions.push(format!("console.error: {text}")),
        _ => {}
      }
    }
    if skipped {
      label = json!({"op": "skip"});
    }
    // observable state
    let image = idb::image();
    let store: BTreeMap<String, String> = image
      .get(DB)
      .and_then(|d| d.stores.get(STORE))
      .map(|m| m.iter().map(|(k, v)| (path_id(k).to_string(), hex(v))).collect())
      .unwrap_or_default();
    let txs: Vec<Value> = idb::txs()
      .iter()
      .filter(|t| t.id >= base_txs && !t.finished)
      .map(|t| {
        let (kind, key, data) = match t.ops.first() {
          Some(ReqKind::Put { key, bytes }) => ("put", key.clone(), Some(hex(bytes))),
          Some(ReqKind::Delete { key }) => ("del", key.clone(), None),
          _ => ("other", String::new(), None),
        };
        json!([model_tx(t.id), kind, path_id(&key), data, t.fired == t.ops.len()])
      })
      .collect();
    let mut runnable: Vec<usize> = exec::runnable().into_iter().filter(|t| !own.contains(t)).map(|t| model_task(&own, t)).collect();
    runnable.sort();
    let fl: Vec<Value> = flushes.borrow().iter().map(|f| json!([f.is_some(), f.unwrap_or(false)])).collect();
    obs.push(json!({"label": label, "store": store, "txs": txs, "runnable": runnable, "flushes": fl}));
  }
  let files: BTreeMap<String, Value> = touched
    .iter()
    .map(|p| (p.to_string(), storage.read_to_end(&path_of(*p)).map(|b| json!(hex(&b))).unwrap_or(Value::Null)))
    .collect();
  std::mem::forget(handles);
  json!({"ok": true, "obs": obs, "files": files, "exceptions": exceptions})
}
