//! Thin helpers over the real searchlite API shared by the property modules.
use crate::util::guarded;
use searchlite_core::api::types::{Document, IndexOptions, SearchRequest, StorageType};
use searchlite_core::api::{Index, IndexReader};
use searchlite_core::Schema;
use serde_json::{json, Value};
use std::collections::BTreeMap;
use std::path::Path;

pub fn opts(path: &Path, mem: bool) -> IndexOptions {
  IndexOptions {
    path: path.to_path_buf(),
    create_if_missing: true,
    enable_positions: true,
    bm25_k1: 1.2,
    bm25_b: 0.75,
    storage: if mem { StorageType::InMemory } else { StorageType::Filesystem },
    #[cfg(feature = "vectors")]
    vector_defaults: None,
  }
}

/// `Schema` from the repository's own schema JSON (missing optional lists are filled in)
pub fn schema(v: &Value) -> Result<Schema, String> {
  let mut v = v.clone();
  for k in ["text_fields", "keyword_fields", "numeric_fields"] {
    if v.get(k).is_none() {
      v[k] = json!([]);
    }
  }
  #[cfg(feature = "vectors")]
  if v.get("vector_fields").is_none() {
    v["vector_fields"] = json!([]);
  }
  serde_json::from_value(v).map_err(|e| format!("schema: {e}"))
}

pub fn create(path: &Path, schema_json: &Value, mem: bool) -> Result<Index, String> {
  let s = schema(schema_json)?;
  Index::create(path, s, opts(path, mem)).map_err(|e| e.to_string())
}

pub fn open(path: &Path) -> Result<Index, String> {
  let mut o = opts(path, false);
  o.create_if_missing = false;
  Index::open(o).map_err(|e| e.to_string())
}

pub fn doc(v: &Value) -> Document {
  let mut fields = BTreeMap::new();
  if let Some(m) = v.as_object() {
    for (k, x) in m {
      fields.insert(k.clone(), x.clone());
    }
  }
  Document { fields }
}

/// add all docs through one writer and commit; returns the first error
pub fn add_commit(idx: &Index, docs: &[Value]) -> Result<(), String> {
  let mut w = idx.writer().map_err(|e| e.to_string())?;
  for d in docs {
    w.add_document(&doc(d)).map_err(|e| format!("add: {e}"))?;
  }
  w.commit().map_err(|e| format!("commit: {e}"))
}

pub fn delete_commit(idx: &Index, ids: &[String]) -> Result<(), String> {
  let mut w = idx.writer().map_err(|e| e.to_string())?;
  w.delete_documents(ids).map_err(|e| format!("delete: {e}"))?;
  w.commit().map_err(|e| format!("commit: {e}"))
}

/// request JSON → `SearchRequest` (`return_stored` defaults to false, `limit` to 10)
pub fn request(req: &Value) -> Result<SearchRequest, String> {
  let mut r = req.clone();
  if r.get("return_stored").is_none() {
    r["return_stored"] = json!(false);
  }
  if r.get("limit").is_none() {
    r["limit"] = json!(10);
  }
  serde_json::from_value(r).map_err(|e| format!("request: {e}"))
}

#[derive(Debug, Clone)]
pub enum Outcome {
  Ok(Value),
  Err(String),
  Panic(String),
}

impl Outcome {
  pub fn class(&self) -> &'static str {
    match self {
      Outcome::Ok(_) => "ok",
      Outcome::Err(_) => "error",
      Outcome::Panic(_) => "panic",
    }
  }
  pub fn ok(&self) -> Option<&Value> {
    match self {
      Outcome::Ok(v) => Some(v),
      _ => None,
    }
  }
  pub fn to_json(&self) -> Value {
    match self {
      Outcome::Ok(v) => json!({"ok": v}),
      Outcome::Err(e) => json!({"error": e}),
      Outcome::Panic(e) => json!({"panic": e}),
    }
  }
}

/// run one search; the response is the repository's own serde JSON of `SearchResult`
pub fn search(reader: &IndexReader, req: &Value) -> Outcome {
  let r = match request(req) {
    Ok(r) => r,
    Err(e) => return Outcome::Err(e),
  };
  match guarded(|| reader.search(&r)) {
    Ok(Ok(res)) => Outcome::Ok(serde_json::to_value(&res).unwrap_or(Value::Null)),
    Ok(Err(e)) => Outcome::Err(e.to_string()),
    Err(p) => Outcome::Panic(p),
  }
}

/// ids of the hits of a response, in order
pub fn hit_ids(resp: &Value) -> Vec<String> {
  resp["hits"].as_array().map(|a| a.iter().map(|h| h["doc_id"].as_str().unwrap_or("").to_string()).collect()).unwrap_or_default()
}

/// (id, score) of the hits, in order
pub fn hit_scores(resp: &Value) -> Vec<(String, f64)> {
  resp["hits"]
    .as_array()
    .map(|a| a.iter().map(|h| (h["doc_id"].as_str().unwrap_or("").to_string(), h["score"].as_f64().unwrap_or(f64::NAN))).collect())
    .unwrap_or_default()
}

/// all live documents of an index as id → stored fields (fresh reader, match_all)
pub fn live(idx: &Index) -> Result<BTreeMap<String, Value>, String> {
  let reader = idx.reader().map_err(|e| format!("reader: {e}"))?;
  let req = json!({"query": {"type": "match_all"}, "limit": 100000, "return_stored": true, "execution": "bm25"});
  match search(&reader, &req) {
    Outcome::Ok(v) => {
      let mut out = BTreeMap::new();
      let mut dup = None;
      for h in v["hits"].as_array().cloned().unwrap_or_default() {
        let id = h["doc_id"].as_str().unwrap_or("").to_string();
        if out.insert(id.clone(), h["fields"].clone()).is_some() {
          dup = Some(id);
        }
      }
      if let Some(id) = dup {
        return Err(format!("duplicate live id {id}"));
      }
      Ok(out)
    }
    Outcome::Err(e) => Err(format!("search: {e}")),
    Outcome::Panic(e) => Err(format!("panic: {e}")),
  }
}

/// relative float comparison used for scores (DESIGN §3.5)
pub fn close(a: f64, b: f64, rel: f64) -> bool {
  if a == b {
    return true;
  }
  if a.is_nan() || b.is_nan() {
    return a.is_nan() && b.is_nan();
  }
  (a - b).abs() <= rel * a.abs().max(b.abs()).max(1e-9)
}
