//! `slh <Cnn> --tier quick|thorough --seed N [--replay file] [--out file]`
//! Drives the real searchlite code, talks to the Lean model driver, prints one JSON summary.
#[allow(dead_code)]
mod idx;
mod props;
#[allow(dead_code)]
mod proto;
#[allow(dead_code)]
mod rng;
#[allow(dead_code)]
mod summary;
#[allow(dead_code)]
mod util;

use proto::Driver;
use rng::Rng;
use serde_json::Value;
use summary::Summary;

#[derive(Clone, Copy, PartialEq, Eq, Debug)]
pub enum Tier {
  Quick,
  Thorough,
}

impl Tier {
  pub fn pick(self, q: usize, t: usize) -> usize {
    match self {
      Tier::Quick => q,
      Tier::Thorough => t,
    }
  }
}

/// One property's correspondence + finder, case by case.  Cases are JSON so that replay,
/// samples and corpus files share one representation.
pub trait Prop: Sync {
  fn id(&self) -> &'static str;
  /// how cases are generated and which count as non-trivial
  fn rule(&self) -> &'static str;
  fn count(&self, tier: Tier) -> usize;
  fn gen(&self, rng: &mut Rng, tier: Tier, i: usize) -> Value;
  fn run_case(&self, drv: &mut Driver, case: &Value, s: &mut Summary);
  /// cases must not run concurrently (ports, global hooks)
  fn serial(&self) -> bool {
    false
  }
  /// run every case in a child process of its own: for properties whose inputs can make the
  /// code under test abort the process (allocation failure), which `catch_unwind` cannot catch
  fn isolate(&self) -> bool {
    false
  }
  /// called once after all cases (e.g. exhaustive flag, notes)
  fn finish(&self, _tier: Tier, _s: &mut Summary) {}
}

/// run one case in a child `slh` (same binary, `--replay` of a one-case file)
fn run_isolated(id: &str, tier: Tier, seed: u64, k: usize, case: &Value, s: &mut Summary) {
  let dir = util::scratch();
  let cf = dir.path().join(format!("case{k}.json"));
  let of = dir.path().join(format!("out{k}.json"));
  std::fs::write(&cf, serde_json::to_string(&serde_json::json!({"case": case})).unwrap()).unwrap();
  let exe = std::env::current_exe().expect("current exe");
  let out = std::process::Command::new(exe)
    .args([id, "--tier", if tier == Tier::Quick { "quick" } else { "thorough" }, "--seed", &seed.to_string(), "--replay"])
    .arg(&cf)
    .arg("--out")
    .arg(&of)
    .env("SLH_CHILD", "1")
    .output();
  match out {
    Ok(o) if o.status.success() => match std::fs::read_to_string(&of).ok().and_then(|t| serde_json::from_str::<Value>(&t).ok()) {
      Some(j) => s.absorb_json(&j),
      None => s.fail("harness.child-no-summary", "child process wrote no summary", case, serde_json::json!(null)),
    },
    Ok(o) => {
      let err = String::from_utf8_lossy(&o.stderr);
      let tail: String = err.lines().filter(|l| !l.contains("broken pipe")).take(6).collect::<Vec<_>>().join(" | ");
      s.cases += 1;
      s.fail("process-abort", "the process running this case was killed (abort / allocation failure in the code under test)", case, serde_json::json!({"status": format!("{:?}", o.status), "stderr": tail}));
    }
    Err(e) => s.fail("harness.child-spawn", "cannot start child process", case, serde_json::json!(e.to_string())),
  }
}

fn main() {
  let args: Vec<String> = std::env::args().collect();
  if args.len() < 2 {
    eprintln!("usage: slh <Cnn> [--tier quick|thorough] [--seed N] [--replay file] [--out file]");
    std::process::exit(2);
  }
  let id = args[1].clone();
  let mut tier = match std::env::var("VERIF_TIER").as_deref() {
    Ok("thorough") => Tier::Thorough,
    _ => Tier::Quick,
  };
  let mut seed: u64 = std::env::var("VERIF_SEED").ok().and_then(|s| s.parse().ok()).unwrap_or(1);
  let mut replay: Option<String> = None;
  let mut out: Option<String> = None;
  let mut i = 2;
  while i < args.len() {
    match args[i].as_str() {
      "--tier" => {
        tier = if args[i + 1] == "thorough" { Tier::Thorough } else { Tier::Quick };
        i += 1;
      }
      "--seed" => {
        seed = args[i + 1].parse().expect("seed");
        i += 1;
      }
      "--replay" => {
        replay = Some(args[i + 1].clone());
        i += 1;
      }
      "--out" => {
        out = Some(args[i + 1].clone());
        i += 1;
      }
      _ => {}
    }
    i += 1;
  }
  let prop = match props::lookup(&id) {
    Some(p) => p,
    None => {
      eprintln!("no harness module for {id}");
      std::process::exit(2);
    }
  };
  // quiet panics of the code under test: they are caught and classified per case
  std::panic::set_hook(Box::new(|_| {}));

  let mut cases: Vec<Value> = Vec::new();
  if let Some(path) = &replay {
    let txt = std::fs::read_to_string(path).expect("replay file");
    let v: Value = serde_json::from_str(&txt).expect("replay json");
    // a replay file holds {"case": …} (written by check) or a bare case
    if let Some(cs) = v.get("cases").and_then(|c| c.as_array()) {
      cases.extend(cs.iter().cloned());
    } else if let Some(c) = v.get("case") {
      cases.push(c.clone());
    } else {
      cases.push(v);
    }
  } else {
    // corpus of minimised past failures first
    let dir = format!("{}/corpus/{id}", proto::verif_root());
    if let Ok(rd) = std::fs::read_dir(&dir) {
      let mut files: Vec<_> = rd.filter_map(|e| e.ok()).map(|e| e.path()).collect();
      files.sort();
      for f in files {
        if let Ok(txt) = std::fs::read_to_string(&f) {
          if let Ok(v) = serde_json::from_str::<Value>(&txt) {
            cases.push(v.get("case").cloned().unwrap_or(v));
          }
        }
      }
    }
    let n = prop.count(tier);
    for i in 0..n {
      let mut rng = Rng::for_case(seed, prop.id(), i as u64);
      cases.push(prop.gen(&mut rng, tier, i));
    }
  }

  let workers = if prop.serial() {
    1
  } else {
    std::env::var("VERIF_JOBS").ok().and_then(|s| s.parse().ok()).unwrap_or(16usize).min(cases.len().max(1))
  };
  let isolate = prop.isolate() && std::env::var("SLH_CHILD").is_err();
  let next = std::sync::atomic::AtomicUsize::new(0);
  let total = std::sync::Mutex::new(Summary::default());
  std::thread::scope(|sc| {
    for _ in 0..workers {
      sc.spawn(|| {
        let mut drv = Driver::spawn();
        let mut s = Summary::default();
        loop {
          let k = next.fetch_add(1, std::sync::atomic::Ordering::SeqCst);
          if k >= cases.len() {
            break;
          }
          if isolate {
            run_isolated(&id, tier, seed, k, &cases[k], &mut s);
          } else {
            prop.run_case(&mut drv, &cases[k], &mut s);
          }
        }
        s.model_requests += drv.requests;
        total.lock().unwrap().merge(s);
      });
    }
  });
  let mut s = total.into_inner().unwrap();
  if replay.is_none() {
    prop.finish(tier, &mut s);
  }
  let j = s.to_json(prop.id(), prop.rule(), if tier == Tier::Quick { "quick" } else { "thorough" }, seed);
  let txt = serde_json::to_string_pretty(&j).unwrap();
  match out {
    Some(p) => std::fs::write(p, txt).expect("write out"),
    None => println!("{txt}"),
  }
}
