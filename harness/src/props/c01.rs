//! C01 — commits are atomic and durable across crashes.
//!
//! One generated history (add/delete/commit/rollback/compact/reopen) is executed once on the real
//! code over `FsStorage` with hook H1 recording every storage primitive.  The trace is turned
//! into the model's `FsOp`s (contents as pieces = which part of which `write` call).
//! (i) **Monitor**: the driver replays the trace through `SL.Fs.run` and evaluates the
//! publication invariant (`publishInvB`) in every prefix state, with the manifests allowed in the
//! call in progress, and `settledB` at every return — the hypothesis of `history_crash_atomic`.
//! (ii) **Crash-image differential / finder**: at storage-operation boundaries the driver turns
//! adversary choices (which unsynced directory entries survive, which prefix of unsynced writes,
//! where a write is torn) into crash images; each is materialised from the recorded bytes, the
//! real `Index::open` + reader + match-all is run on it, and the outcome is compared with the
//! model's `recover` (correspondence) and with the property itself: the directory opens and its
//! contents are those before the call in flight or that call's complete result.
use crate::idx;
use crate::proto::Driver;
use crate::rng::Rng;
use crate::summary::Summary;
use crate::util::{guarded, scratch};
use crate::{Prop, Tier};
use searchlite_core::api::{Index, IndexWriter};
use searchlite_core::storage::verif::{install, uninstall, FsEvent};
use serde_json::{json, Value};
use std::collections::{BTreeMap, BTreeSet};
use std::path::{Path, PathBuf};
use std::sync::{Arc, Mutex};

pub struct C01;
pub static P: C01 = C01;

type Contents = BTreeMap<String, String>;

#[derive(Default)]
pub struct Recorder {
  pub root: PathBuf,
  pub ops: Vec<Value>,
  pub chunks: Vec<Vec<u8>>,
  /// names that currently exist, with the pieces (chunk, total) written since their creation
  pub shadow: BTreeMap<String, Vec<(usize, usize)>>,
  /// (op index, chunk) of every complete write to the temporary manifest
  pub manifest_writes: Vec<(usize, usize)>,
  pub pending_write: Option<(String, Vec<u8>)>,
  pub anomalies: Vec<String>,
}

pub fn model_name(p: &Path) -> String {
  let n = p.file_name().map(|x| x.to_string_lossy().to_string()).unwrap_or_default();
  if n == "MANIFEST.json" {
    "MANIFEST".to_string()
  } else {
    n
  }
}

impl Recorder {
  pub fn on_event(&mut self, ev: &FsEvent) {
    let name = model_name(&ev.path);
    if !ev.after {
      if ev.op == "write" {
        self.pending_write = Some((name, ev.data.clone().unwrap_or_default()));
      }
      return;
    }
    match ev.op {
      "create" => {
        self.ops.push(json!({"op":"create","n":name}));
        self.shadow.insert(name, Vec::new());
      }
      "open_append" => {
        if !self.shadow.contains_key(&name) {
          self.ops.push(json!({"op":"create","n":name}));
          self.shadow.insert(name, Vec::new());
        }
      }
      "write" => {
        if let Some((n, data)) = self.pending_write.take() {
          if n != name {
            self.anomalies.push(format!("write event mismatch {n} vs {name}"));
          }
          let chunk = self.chunks.len() + 1;
          let total = data.len();
          self.chunks.push(data);
          self.ops.push(json!({"op":"write","n":name,"chunk":chunk,"total":total}));
          self.shadow.entry(name.clone()).or_default().push((chunk, total));
          if name == "MANIFEST.tmp" {
            self.manifest_writes.push((self.ops.len(), chunk));
          }
        }
      }
      "set_len" => {
        self.ops.push(json!({"op":"set_len","n":name,"len":ev.len}));
        if ev.len == 0 {
          self.shadow.insert(name, Vec::new());
        } else if let Some(ps) = self.shadow.get_mut(&name) {
          let mut acc = 0usize;
          let mut keep = 0;
          for (_, t) in ps.iter() {
            if acc + t <= ev.len as usize {
              acc += t;
              keep += 1;
            }
          }
          ps.truncate(keep);
        }
      }
      "sync" => self.ops.push(json!({"op":"fsync","n":name})),
      "rename" => {
        let to = ev.to.as_ref().map(|p| model_name(p)).unwrap_or_default();
        self.ops.push(json!({"op":"rename","a":name,"b":to}));
        if let Some(ps) = self.shadow.remove(&name) {
          self.shadow.insert(to, ps);
        }
      }
      "remove" => {
        self.ops.push(json!({"op":"unlink","n":name}));
        self.shadow.remove(&name);
      }
      "sync_dir" => self.ops.push(json!({"op":"fsync_dir"})),
      _ => {}
    }
  }
}

pub fn install_recorder(root: &Path) -> Arc<Mutex<Recorder>> {
  let rec = Arc::new(Mutex::new(Recorder { root: root.to_path_buf(), ..Default::default() }));
  let r2 = rec.clone();
  install(root.to_path_buf(), Arc::new(move |ev: &FsEvent| {
    r2.lock().unwrap().on_event(ev);
    Ok(())
  }));
  rec
}

fn live_bodies(idx: &Index) -> Result<Contents, String> {
  let l = idx::live(idx)?;
  Ok(l.into_iter().map(|(k, v)| (k, v["body"].as_str().unwrap_or("").to_string())).collect())
}

/// manifest registry entry from the bytes written to the temporary manifest
fn manifest_entry(rec: &Recorder, chunk: usize, contents: usize, shadow_at: &BTreeMap<String, Vec<(usize, usize)>>) -> Value {
  let bytes = &rec.chunks[chunk - 1];
  let v: Value = serde_json::from_slice(bytes).unwrap_or(Value::Null);
  let mut files = Vec::new();
  for seg in v["segments"].as_array().cloned().unwrap_or_default() {
    for k in ["terms", "postings", "docstore", "fast", "meta"] {
      if let Some(p) = seg["paths"][k].as_str() {
        let name = model_name(Path::new(p));
        let pieces: Vec<Value> = shadow_at.get(&name).cloned().unwrap_or_default().iter().map(|(c, t)| json!([c, t, t])).collect();
        files.push(json!({"name": name, "pieces": pieces}));
      }
    }
  }
  json!({"chunk": chunk, "size": bytes.len(), "files": files, "contents": contents})
}

struct CallRec {
  from: usize,
  to: usize,
  pre_chunk: usize,
  post_chunk: usize,
  attempts: Vec<usize>,
  pre_contents: usize,
  post_contents: usize,
  label: String,
}

fn materialise(dir: &Path, image: &Value, chunks: &[Vec<u8>]) {
  let _ = std::fs::create_dir_all(dir);
  if let Some(m) = image.as_object() {
    for (name, content) in m {
      if content.is_null() {
        continue;
      }
      let mut bytes = Vec::new();
      for p in content.as_array().cloned().unwrap_or_default() {
        let c = p[0].as_u64().unwrap_or(0) as usize;
        let kept = p[1].as_u64().unwrap_or(0) as usize;
        if c >= 1 && c <= chunks.len() {
          let b = &chunks[c - 1];
          bytes.extend_from_slice(&b[..kept.min(b.len())]);
        }
      }
      let fname = if name == "MANIFEST" { "MANIFEST.json" } else { name.as_str() };
      let _ = std::fs::write(dir.join(fname), bytes);
    }
  }
}

impl Prop for C01 {
  fn id(&self) -> &'static str {
    "C01"
  }
  fn rule(&self) -> &'static str {
    "case = one generated history of add/delete/commit/rollback/compact/reopen calls executed on the real code with every storage primitive recorded; evaluations = (monitor) every prefix state of the trace checked by the model's publishInvB/settledB + (images) every (storage-operation boundary, adversary choice) crash image that is materialised and reopened with the real code; adversary choices per boundary: keep all, drop all unsynced, drop only entries, drop only data, each single unsynced directory entry dropped, each single one kept, the last unsynced write torn at 3 offsets, random mixes; a crash image is non-trivial when at least one directory entry or data operation was unsynced at that boundary; distinct = distinct (history, boundary, choice)"
  }
  fn count(&self, tier: Tier) -> usize {
    tier.pick(6, 60)
  }
  fn gen(&self, rng: &mut Rng, tier: Tier, i: usize) -> Value {
    let ids = ["a", "b", "c", "d", "e"];
    let ncalls = 4 + rng.below(tier.pick(6, 10));
    let mut calls = Vec::new();
    let mut v = 0;
    let mut since_commit = 0;
    for _ in 0..ncalls {
      v += 1;
      let c = match rng.below(12) {
        0..=4 => {
          since_commit += 1;
          let id = *rng.pick(&ids);
          json!({"op":"add","id":id,"body":format!("v{v} rust")})
        }
        5 | 6 => {
          since_commit += 1;
          let id = *rng.pick(&ids);
          json!({"op":"delete","id":id})
        }
        7 | 8 => {
          since_commit = 0;
          json!({"op":"commit"})
        }
        9 => json!({"op":"rollback"}),
        10 => json!({"op":"compact"}),
        _ => json!({"op":"reopen"}),
      };
      calls.push(c);
    }
    if since_commit > 0 {
      calls.push(json!({"op":"commit"}));
    }
    if i % 2 == 0 {
      calls.push(json!({"op":"add","id":"z","body":"zz"}));
      calls.push(json!({"op":"commit"}));
      calls.push(json!({"op":"compact"}));
    }
    json!({"calls": calls, "image_seed": rng.next() % 1000000, "boundary_stride": if i < 2 { 1 } else { 1 + rng.below(3) }})
  }

  fn run_case(&self, drv: &mut Driver, case: &Value, s: &mut Summary) {
    let case = if case.get("case").is_some() { &case["case"] } else { case };
    let base = scratch();
    let dir = base.path().join("idx");
    let rec = install_recorder(&dir);
    let mut contents_table: Vec<Contents> = vec![Contents::new()];
    let mut calls_rec: Vec<CallRec> = Vec::new();
    let mut manifests: Vec<Value> = Vec::new();
    let calls = case["calls"].as_array().cloned().unwrap_or_default();
    // ---- run the history
    let dir2 = dir.clone();
    let result = guarded(|| -> Result<(), String> {
      let mut idx = Index::open(idx::opts(&dir2, false)).map_err(|e| format!("create: {e}"))?;
      // the manifest written by creation
      let (start_ops, first_chunk) = {
        let r = rec.lock().unwrap();
        (r.ops.len(), r.manifest_writes.last().map(|x| x.1).unwrap_or(0))
      };
      {
        let r = rec.lock().unwrap();
        let sh = r.shadow.clone();
        manifests.push(manifest_entry(&r, first_chunk, 0, &sh));
      }
      calls_rec.push(CallRec { from: start_ops, to: start_ops, pre_chunk: first_chunk, post_chunk: first_chunk, attempts: vec![], pre_contents: 0, post_contents: 0, label: "create".into() });
      let mut cur_chunk = first_chunk;
      let mut cur_contents = 0usize;
      let mut w: Option<IndexWriter> = None;
      for c in calls.iter() {
        let op = c["op"].as_str().unwrap_or("");
        let from = rec.lock().unwrap().ops.len();
        let nman = rec.lock().unwrap().manifest_writes.len();
        if w.is_none() && matches!(op, "add" | "delete" | "commit" | "rollback") {
          w = Some(idx.writer().map_err(|e| format!("writer: {e}"))?);
        }
        match op {
          "add" => {
            w.as_mut().unwrap().add_document(&idx::doc(&json!({"_id": c["id"], "body": c["body"]}))).map_err(|e| format!("add: {e}"))?;
          }
          "delete" => {
            w.as_mut().unwrap().delete_document(c["id"].as_str().unwrap_or("")).map_err(|e| format!("delete: {e}"))?;
          }
          "commit" => w.as_mut().unwrap().commit().map_err(|e| format!("commit: {e}"))?,
          "rollback" => w.as_mut().unwrap().rollback().map_err(|e| format!("rollback: {e}"))?,
          "compact" => {
            w = None;
            idx.compact().map_err(|e| format!("compact: {e}"))?;
          }
          "reopen" => {
            w = None;
            let mut o = idx::opts(&dir2, false);
            o.create_if_missing = false;
            idx = Index::open(o).map_err(|e| format!("reopen: {e}"))?;
          }
          _ => {}
        }
        let to = rec.lock().unwrap().ops.len();
        let attempts: Vec<usize> = rec.lock().unwrap().manifest_writes[nman..].iter().map(|x| x.1).collect();
        let pre_chunk = cur_chunk;
        let pre_contents = cur_contents;
        if !attempts.is_empty() {
          // contents after the call, observed through the real reader
          let now = live_bodies(&idx)?;
          let id = match contents_table.iter().position(|x| *x == now) {
            Some(i) => i,
            None => {
              contents_table.push(now);
              contents_table.len() - 1
            }
          };
          let r = rec.lock().unwrap();
          let sh = r.shadow.clone();
          for a in attempts.iter() {
            manifests.push(manifest_entry(&r, *a, id, &sh));
          }
          cur_chunk = *attempts.last().unwrap();
          cur_contents = id;
        }
        calls_rec.push(CallRec { from, to, pre_chunk, post_chunk: cur_chunk, attempts, pre_contents, post_contents: cur_contents, label: op.to_string() });
      }
      drop(w);
      Ok(())
    });
    uninstall(&dir);
    if let Err(e) | Ok(Err(e)) = result {
      s.fail("history.call-failed", "a call of a fault-free history failed", case, json!(e));
      return;
    }
    let r = rec.lock().unwrap();
    for a in r.anomalies.iter() {
      s.notes.push(format!("trace anomaly: {a}"));
    }
    let ops = r.ops.clone();
    let chunks = r.chunks.clone();
    drop(r);
    s.add("trace.ops", ops.len() as u64);
    // ---- (i) monitor
    let windows: Vec<Value> = calls_rec
      .iter()
      .skip(1)
      .map(|c| {
        let mut allowed: BTreeSet<usize> = BTreeSet::new();
        allowed.insert(c.pre_chunk);
        for a in c.attempts.iter() {
          allowed.insert(*a);
        }
        json!({"from": c.from, "to": c.to, "allowed": allowed.iter().collect::<Vec<_>>(), "settled": c.post_chunk, "label": c.label})
      })
      .collect();
    let m = drv.call("C01", json!({"op":"trace","ops":ops,"manifests":manifests,"windows":windows}));
    s.traces_validated += 1;
    let checked = m["states_checked"].as_u64().unwrap_or(0);
    s.add("monitor.states", checked);
    s.cases += checked;
    let viol = m["violations"].as_array().cloned().unwrap_or_default();
    if m["ok"] != json!(true) {
      s.disagree("fs.trace", case, json!(null), m.clone());
    }
    let monitor_failed = !viol.is_empty();
    // ---- (ii) crash images
    let stride = case["boundary_stride"].as_u64().unwrap_or(1).max(1) as usize;
    let mut irng = Rng::new(case["image_seed"].as_u64().unwrap_or(1));
    let mut found_failure = false;
    // boundaries named by the monitor first
    let mut boundaries: Vec<usize> = viol.iter().filter_map(|v| v["k"].as_u64().map(|k| k as usize)).collect();
    for c in calls_rec.iter().skip(1) {
      let mut k = c.from;
      while k <= c.to {
        boundaries.push(k);
        k += stride;
      }
      boundaries.push(c.to);
    }
    let mut seen = BTreeSet::new();
    for k in boundaries {
      if !seen.insert(k) {
        continue;
      }
      let call = match calls_rec.iter().skip(1).find(|c| c.from <= k && k <= c.to) {
        Some(c) => c,
        None => continue,
      };
      let st = drv.call("C01", json!({"op":"state","ops":ops,"k":k}));
      let names = st["names"].as_array().cloned().unwrap_or_default();
      let inodes = st["inodes"].as_array().cloned().unwrap_or_default();
      let unsynced_names: Vec<String> = names.iter().filter(|n| n["hist"].as_array().map(|h| h.len() > 1).unwrap_or(false)).map(|n| n["name"].as_str().unwrap_or("").to_string()).collect();
      let pending_inodes: Vec<usize> = inodes.iter().enumerate().filter(|(_, i)| i["pending"].as_array().map(|p| !p.is_empty()).unwrap_or(false)).map(|(i, _)| i).collect();
      let nontrivial = !unsynced_names.is_empty() || !pending_inodes.is_empty();
      // adversary choices
      let mut choices: Vec<Value> = vec![
        json!({"entry_default":"last","inode_default":"all","label":"keep-all"}),
        json!({"entry_default":"first","inode_default":"none","label":"drop-all"}),
        json!({"entry_default":"first","inode_default":"all","label":"drop-entries"}),
        json!({"entry_default":"last","inode_default":"none","label":"drop-data"}),
      ];
      if nontrivial {
        for n in unsynced_names.iter().take(8) {
          choices.push(json!({"entry_default":"last","inode_default":"all","entries":{n.clone():0},"label":format!("drop-entry:{n}")}));
          let hl = names.iter().find(|x| x["name"] == json!(n)).and_then(|x| x["hist"].as_array().map(|h| h.len())).unwrap_or(1);
          choices.push(json!({"entry_default":"first","inode_default":"all","entries":{n.clone():hl - 1},"label":format!("keep-entry:{n}")}));
        }
        if let Some(i) = pending_inodes.last() {
          let pend = inodes[*i]["pending"].as_array().cloned().unwrap_or_default();
          if let Some(j) = pend.iter().rposition(|o| o.get("write").is_some()) {
            let total = pend[j]["write"].as_u64().unwrap_or(0);
            for t in [1u64, total / 2, total.saturating_sub(1)] {
              if t > 0 && t < total {
                let mut im = serde_json::Map::new();
                im.insert(i.to_string(), json!([j, t]));
                choices.push(json!({"entry_default":"last","inode_default":"all","inodes":im,"label":format!("tear:{i}@{t}")}));
              }
            }
          }
        }
        for _ in 0..4 {
          let mut em = serde_json::Map::new();
          for n in names.iter() {
            let hl = n["hist"].as_array().map(|h| h.len()).unwrap_or(1);
            em.insert(n["name"].as_str().unwrap_or("").to_string(), json!(irng.below(hl)));
          }
          let mut im = serde_json::Map::new();
          for i in pending_inodes.iter() {
            let pl = inodes[*i]["pending"].as_array().map(|p| p.len()).unwrap_or(0);
            im.insert(i.to_string(), json!([irng.below(pl + 1), Value::Null]));
          }
          choices.push(json!({"entries":em,"inodes":im,"label":"random"}));
        }
      } else {
        choices.truncate(1);
      }
      for ch in choices {
        let mut req = ch.clone();
        req["op"] = json!("image");
        req["ops"] = json!(ops);
        req["k"] = json!(k);
        req["manifests"] = json!(manifests);
        let im = drv.call("C01", req);
        let sub = json!({"case": case, "boundary": k, "call": call.label, "choice": ch});
        s.case(&sub, nontrivial);
        s.count(&format!("image.{}", ch["label"].as_str().unwrap_or("?").split(':').next().unwrap_or("?")));
        if im["valid_choice"] != json!(true) {
          s.disagree("fs.image-choice", &sub, json!(null), im.clone());
          continue;
        }
        let idir = base.path().join("img");
        let _ = std::fs::remove_dir_all(&idir);
        materialise(&idir, &im["image"], &chunks);
        let opened = guarded(|| -> Result<Contents, String> {
          let mut o = idx::opts(&idir, false);
          o.create_if_missing = false;
          let idx = Index::open(o).map_err(|e| format!("open: {e}"))?;
          live_bodies(&idx)
        });
        let real: Result<Contents, String> = match opened {
          Ok(r) => r,
          Err(p) => Err(format!("panic: {p}")),
        };
        // correspondence with the model's `recover`
        let predicted: Option<&Contents> = im["recover"].as_u64().and_then(|c| contents_table.get(c as usize));
        match (&real, predicted) {
          (Ok(got), Some(want)) if got == want => {}
          (Err(_), None) => {}
          _ => s.disagree("fs.recover", &sub, json!({"real": real.clone().map_err(|e| e)}), json!({"recover": im["recover"], "contents": predicted})),
        }
        // finder: the property on the implementation alone
        let pre = &contents_table[call.pre_contents];
        let post = &contents_table[call.post_contents];
        match &real {
          Err(e) => {
            found_failure = true;
            s.fail("crash.unopenable", "a crash image does not reopen", &sub, json!({"error": e, "image_files": im["image"].as_object().map(|m| m.iter().map(|(k, v)| (k.clone(), !v.is_null())).collect::<BTreeMap<_, _>>())}));
          }
          Ok(got) => {
            if got != pre && got != post {
              found_failure = true;
              s.fail("crash.mixed-contents", "contents after a crash are neither the state before the call in flight nor its complete result", &sub, json!({"got": got, "pre": pre, "post": post}));
            } else if k == call.to && got != post {
              found_failure = true;
              s.fail("crash.lost-commit", "a call that returned success is lost by a crash right after it", &sub, json!({"got": got, "post": post}));
            }
          }
        }
      }
    }
    if monitor_failed {
      // the proof's hypothesis does not hold on this trace
      if found_failure {
        s.count("monitor.violation-with-failing-image");
      } else {
        s.disagree("fs.monitor", case, json!({"note":"publication invariant violated on the recorded trace; no failing crash image was found among those tried"}), json!(viol));
      }
      s.notes.push(format!("monitor: {}", json!(viol)));
    }
  }
}
