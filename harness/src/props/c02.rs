//! C02 — queued operations survive crashes exactly once.
//!
//! Part A (byte level): entry lists appended with the real `Wal`; file bytes vs the model's
//! `frameAll` (this also ties the Lean CRC-32 to `crc32fast`); `Wal::replay` /
//! `last_pending_ops` on truncations, byte flips and garbage tails vs the model's `replay`.
//! Part B (sessions): a real `IndexWriter` over the traced `FsStorage`; at a chosen WAL
//! operation boundary the directory is snapshotted, the WAL is replaced by a crash content
//! computed by the model from the recorded (durable, pending) state — dropped, kept, or torn at
//! a byte — and the index is restarted; the new writer's queue (`verif_queue`) is compared with
//! the model's `pendingOps ∘ replay` (correspondence) and with the record-level expectation the
//! harness derives from the calls it made (finder).  Up to three crashes per case; at the end
//! everything is committed and the contents are compared with the crash-free expectation.
use crate::idx;
use crate::proto::Driver;
use crate::rng::Rng;
use crate::summary::Summary;
use crate::util::{guarded, hex, scratch};
use crate::{Prop, Tier};
use searchlite_core::api::types::Document;
use searchlite_core::api::{Index, IndexWriter};
use searchlite_core::storage::verif::{install, uninstall, FsEvent};
use searchlite_core::storage::{FsStorage, Storage};
use searchlite_core::wal::{Wal, WalEntry};
use serde_json::{json, Value};
use std::collections::BTreeMap;
use std::path::{Path, PathBuf};
use std::sync::{Arc, Mutex};

pub struct C02;
pub static P: C02 = C02;

// ---------------------------------------------------------------- part A

fn entry_json(e: &WalEntry) -> Value {
  match e {
    WalEntry::AddDoc(d) => json!({"op":"add","id": d.fields.get("_id").and_then(|v| v.as_str()).unwrap_or("")}),
    WalEntry::DeleteDocId(id) => json!({"op":"delete","id": id}),
    WalEntry::Commit => json!({"op":"commit"}),
  }
}

fn run_bytes(drv: &mut Driver, case: &Value, s: &mut Summary) {
  let dir = scratch();
  let path = dir.path().join("wal.log");
  let storage: Arc<dyn Storage> = Arc::new(FsStorage::new(dir.path().to_path_buf()));
  let mut recs: Vec<Value> = Vec::new();
  {
    let mut wal = match Wal::open(storage.clone(), &path) {
      Ok(w) => w,
      Err(e) => {
        s.fail("wal.open", "Wal::open failed on an empty directory", case, json!(e.to_string()));
        return;
      }
    };
    for e in case["entries"].as_array().cloned().unwrap_or_default() {
      match e["op"].as_str().unwrap_or("") {
        "add" => {
          let d = idx::doc(&json!({"_id": e["id"], "body": e["body"]}));
          let payload = serde_json::to_vec(&d).unwrap();
          let _ = wal.append_add_doc(&d);
          recs.push(json!({"ty":1,"payload":hex(&payload)}));
        }
        "delete" => {
          let id = e["id"].as_str().unwrap_or("");
          let _ = wal.append_delete_doc_id(id);
          recs.push(json!({"ty":3,"payload":hex(id.as_bytes())}));
        }
        _ => {
          let _ = wal.append_commit();
          recs.push(json!({"ty":2,"payload":""}));
        }
      }
    }
    let _ = wal.sync();
  }
  let bytes = std::fs::read(&path).unwrap_or_default();
  let m = drv.call("C02", json!({"op":"frame","recs":recs}));
  s.case(case, !recs.is_empty());
  s.count("bytes.encode");
  if m["bytes"].as_str() != Some(&hex(&bytes)) {
    s.disagree("wal.frame", case, json!({"bytes": hex(&bytes)}), m.clone());
    return;
  }
  // mutations of the file: truncations, flips, garbage tails
  let muts = case["mutations"].as_array().cloned().unwrap_or_default();
  for mu in muts {
    let mut data = bytes.clone();
    let kind = mu["kind"].as_str().unwrap_or("");
    match kind {
      "truncate" => {
        let n = (mu["frac"].as_f64().unwrap_or(0.0) * data.len() as f64) as usize;
        data.truncate(n.min(data.len()));
      }
      "flip" => {
        if !data.is_empty() {
          let i = ((mu["frac"].as_f64().unwrap_or(0.0) * data.len() as f64) as usize).min(data.len() - 1);
          data[i] ^= mu["mask"].as_u64().unwrap_or(1) as u8;
        }
      }
      "garbage" => {
        for b in mu["tail"].as_array().cloned().unwrap_or_default() {
          data.push(b.as_u64().unwrap_or(0) as u8);
        }
      }
      _ => {}
    }
    let sub = json!({"base": case, "mutation": mu, "data": hex(&data)});
    let p2 = dir.path().join("mut.log");
    std::fs::write(&p2, &data).unwrap();
    let real = guarded(|| (Wal::replay(storage.as_ref(), &p2), Wal::last_pending_ops(storage.as_ref(), &p2)));
    s.case(&sub, true);
    s.count(&format!("bytes.{kind}"));
    match real {
      Err(msg) => s.fail("wal.replay-panic", "Wal::replay panicked", &sub, json!(msg)),
      Ok((Ok(es), Ok(ps))) => {
        let m = drv.call("C02", json!({"op":"replay","data":hex(&data)}));
        let ej: Vec<Value> = es.iter().map(entry_json).collect();
        let pj: Vec<Value> = ps.iter().map(entry_json).collect();
        if m["entries"] != json!(ej) || m["pending"] != json!(pj) {
          s.disagree("wal.replay", &sub, json!({"entries": ej, "pending": pj}), m);
        }
        // finder: an untouched prefix of whole records must be recovered (truncation)
        if kind == "truncate" && es.len() > recs.len() {
          s.fail("wal.replay-extra", "replay returned more entries than were written", &sub, json!(ej));
        }
      }
      Ok(_) => s.fail("wal.replay-error", "Wal::replay returned an error instead of the intact prefix", &sub, json!(null)),
    }
  }
}

// ---------------------------------------------------------------- part B

#[derive(Clone, Debug, PartialEq)]
enum RecInfo {
  Add(String, String),
  Delete(String),
  Commit,
}

#[derive(Clone, Debug)]
enum PendOp {
  Write(RecInfo, Vec<u8>),
  SetLen(u64),
}

#[derive(Default)]
struct WalTrace {
  /// records durable on disk (as of the last sync) with their byte lengths
  durable: Vec<(RecInfo, usize)>,
  durable_bytes: Vec<u8>,
  pending: Vec<PendOp>,
  /// what the current API call would append next (set by the main thread)
  next_infos: Vec<RecInfo>,
  boundaries: usize,
  snap_at: Option<usize>,
  snap_dir: PathBuf,
  root: PathBuf,
  snapshot: Option<Snapshot>,
  anomalies: Vec<String>,
  /// API-level queue (operations acknowledged and neither committed nor rolled back) as of the
  /// last call that returned, and the operations appended by the call in progress
  api_queue: Vec<RecInfo>,
  cur_call_ops: Vec<RecInfo>,
}

#[derive(Clone)]
struct Snapshot {
  durable: Vec<(RecInfo, usize)>,
  durable_bytes: Vec<u8>,
  pending: Vec<PendOp>,
  /// operations a restarted writer may legitimately recover at this point
  allowed: Vec<RecInfo>,
}

fn copy_dir(from: &Path, to: &Path) {
  let _ = std::fs::create_dir_all(to);
  if let Ok(rd) = std::fs::read_dir(from) {
    for e in rd.flatten() {
      let p = e.path();
      if p.is_file() {
        let _ = std::fs::copy(&p, to.join(e.file_name()));
      }
    }
  }
}

impl WalTrace {
  fn on_event(&mut self, ev: &FsEvent) {
    if !ev.after || ev.path.file_name().and_then(|n| n.to_str()) != Some("wal.log") {
      // remember the bytes of a write on the `before` event
      if !ev.after && ev.op == "write" && ev.path.file_name().and_then(|n| n.to_str()) == Some("wal.log") {
        let info = if self.next_infos.is_empty() {
          self.anomalies.push("unexpected WAL write".into());
          RecInfo::Commit
        } else {
          self.next_infos.remove(0)
        };
        if info != RecInfo::Commit {
          self.cur_call_ops.push(info.clone());
        }
        self.pending.push(PendOp::Write(info, ev.data.clone().unwrap_or_default()));
      }
      return;
    }
    match ev.op {
      "write" => {}
      "set_len" => self.pending.push(PendOp::SetLen(ev.len)),
      "sync" => {
        let (recs, bytes) = apply_pending(&self.durable, &self.durable_bytes, &self.pending, self.pending.len());
        self.durable = recs;
        self.durable_bytes = bytes;
        self.pending.clear();
      }
      _ => return,
    }
    self.boundaries += 1;
    if self.snap_at == Some(self.boundaries) && self.snapshot.is_none() {
      copy_dir(&self.root, &self.snap_dir);
      let mut allowed = self.api_queue.clone();
      allowed.extend(self.cur_call_ops.iter().cloned());
      self.snapshot = Some(Snapshot { durable: self.durable.clone(), durable_bytes: self.durable_bytes.clone(), pending: self.pending.clone(), allowed });
    }
  }
}

/// record-level and byte-level effect of the first `j` pending operations
fn apply_pending(durable: &[(RecInfo, usize)], bytes: &[u8], pending: &[PendOp], j: usize) -> (Vec<(RecInfo, usize)>, Vec<u8>) {
  let mut recs = durable.to_vec();
  let mut b = bytes.to_vec();
  for op in pending.iter().take(j) {
    match op {
      PendOp::Write(info, data) => {
        recs.push((info.clone(), data.len()));
        b.extend_from_slice(data);
      }
      PendOp::SetLen(n) => {
        let n = *n as usize;
        let mut acc = 0usize;
        let mut keep = 0usize;
        for (_, l) in recs.iter() {
          if acc + l <= n {
            acc += l;
            keep += 1;
          } else {
            break;
          }
        }
        recs.truncate(keep);
        b.resize(n, 0);
      }
    }
  }
  (recs, b)
}

fn pending_ops(recs: &[(RecInfo, usize)]) -> Vec<RecInfo> {
  let mut out = Vec::new();
  for (r, _) in recs {
    match r {
      RecInfo::Commit => out.clear(),
      x => out.push(x.clone()),
    }
  }
  out
}

fn info_json(r: &RecInfo) -> Value {
  match r {
    RecInfo::Add(id, _) => json!({"op":"add","id":id}),
    RecInfo::Delete(id) => json!({"op":"delete","id":id}),
    RecInfo::Commit => json!({"op":"commit"}),
  }
}

fn apply_expected(map: &mut BTreeMap<String, String>, ops: &[RecInfo]) {
  for o in ops {
    match o {
      RecInfo::Add(id, body) => {
        map.insert(id.clone(), body.clone());
      }
      RecInfo::Delete(id) => {
        map.remove(id);
      }
      RecInfo::Commit => {}
    }
  }
}

fn live_bodies(idx: &Index) -> Result<BTreeMap<String, String>, String> {
  let l = idx::live(idx)?;
  Ok(l.into_iter().map(|(k, v)| (k, v["body"].as_str().unwrap_or("").to_string())).collect())
}

fn pend_json(p: &[PendOp]) -> Vec<Value> {
  p.iter()
    .map(|o| match o {
      PendOp::Write(_, d) => json!({"write": hex(d)}),
      PendOp::SetLen(n) => json!({"set_len": n}),
    })
    .collect()
}

fn run_sessions(drv: &mut Driver, case: &Value, s: &mut Summary) {
  let base = scratch();
  let mut dir = base.path().join("s0");
  std::fs::create_dir_all(&dir).unwrap();
  // committed contents expected by the property, and the logical queue
  let mut expected: BTreeMap<String, String> = BTreeMap::new();
  let mut queue: Vec<RecInfo> = Vec::new();
  let sessions = case["sessions"].as_array().cloned().unwrap_or_default();
  let mut crashes = 0usize;
  let mut nontrivial = false;
  {
    // create the index (default schema: text field `body`)
    let o = idx::opts(&dir, false);
    if let Err(e) = Index::open(o) {
      s.fail("session.create", "cannot create index", case, json!(e.to_string()));
      return;
    }
  }
  for (si, sess) in sessions.iter().enumerate() {
    let trace = Arc::new(Mutex::new(WalTrace { root: dir.clone(), snap_dir: base.path().join(format!("snap{si}")), ..Default::default() }));
    // seed the trace with what is on disk now (all durable): the records of the file as the
    // model's replay frames them, interpreted by the harness (payload JSON → id, body)
    {
      let mut t = trace.lock().unwrap();
      let bytes = std::fs::read(dir.join("wal.log")).unwrap_or_default();
      let m = drv.call("C02", json!({"op":"replay","data":hex(&bytes)}));
      t.durable_bytes = bytes;
      for r in m["recs"].as_array().cloned().unwrap_or_default() {
        let payload = crate::util::unhex(r["payload"].as_str().unwrap_or(""));
        let pl = payload.len();
        let mut vl = 1;
        let mut x = pl;
        while x >= 128 {
          vl += 1;
          x >>= 7;
        }
        let info = match r["ty"].as_u64() {
          Some(1) => match serde_json::from_slice::<Value>(&payload) {
            Ok(v) => RecInfo::Add(v["fields"]["_id"].as_str().unwrap_or("").to_string(), v["fields"]["body"].as_str().unwrap_or("").to_string()),
            Err(_) => continue,
          },
          Some(2) => RecInfo::Commit,
          Some(3) => RecInfo::Delete(String::from_utf8_lossy(&payload).to_string()),
          _ => continue,
        };
        t.durable.push((info, vl + 1 + pl + 4));
      }
    }
    trace.lock().unwrap().api_queue = queue.clone();
    let crash = sess.get("crash").filter(|c| !c.is_null()).cloned();
    // first pass without snapshot target to count boundaries is avoided: the target is given as a
    // fraction and resolved against the number of boundaries of a dry run on a copy
    let calls = sess["calls"].as_array().cloned().unwrap_or_default();
    let target = crash.as_ref().map(|c| {
      let dry = base.path().join(format!("dry{si}"));
      copy_dir(&dir, &dry);
      let t2 = Arc::new(Mutex::new(WalTrace { root: dry.clone(), snap_dir: base.path().join("unused"), ..Default::default() }));
      let _ = run_calls(&dry, &calls, &t2, &mut BTreeMap::new(), &mut Vec::new());
      let n = t2.lock().unwrap().boundaries;
      let _ = std::fs::remove_dir_all(&dry);
      if n == 0 {
        0
      } else {
        1 + ((c["at"].as_f64().unwrap_or(0.0) * n as f64) as usize).min(n - 1)
      }
    });
    if let Some(t) = target {
      trace.lock().unwrap().snap_at = Some(t);
    }
    let res = run_calls(&dir, &calls, &trace, &mut expected, &mut queue);
    if let Err(e) = res {
      s.fail("session.call-failed", "a call of a fault-free session failed", case, json!({"session": si, "error": e}));
      return;
    }
    let t = trace.lock().unwrap();
    for a in t.anomalies.iter() {
      s.notes.push(format!("trace anomaly: {a}"));
    }
    let Some(crash) = crash else { continue };
    let Some(snap) = t.snapshot.clone() else {
      s.count("session.no-wal-activity");
      continue;
    };
    let snap_dir = t.snap_dir.clone();
    drop(t);
    crashes += 1;
    // ---- choose the crash content
    let choice = crash["choice"].as_str().unwrap_or("keep");
    let npend = snap.pending.len();
    let mut variants: Vec<(usize, Option<usize>)> = Vec::new(); // (j, tear k)
    match choice {
      "drop" => variants.push((0, None)),
      "keep" => variants.push((npend, None)),
      "partial" => variants.push((((crash["tear"].as_f64().unwrap_or(0.5) * (npend + 1) as f64) as usize).min(npend), None)),
      _ => {
        // torn: j = position of a pending write, every byte offset of it (all of them are
        // restarted; the session continues from the one selected by `tear`)
        let writes: Vec<usize> = snap.pending.iter().enumerate().filter(|(_, o)| matches!(o, PendOp::Write(..))).map(|(i, _)| i).collect();
        if writes.is_empty() {
          variants.push((npend, None));
        } else {
          let j = writes[((crash["which"].as_f64().unwrap_or(0.0) * writes.len() as f64) as usize).min(writes.len() - 1)];
          if let PendOp::Write(_, d) = &snap.pending[j] {
            let sel = 1 + ((crash["tear"].as_f64().unwrap_or(0.5) * (d.len().saturating_sub(1)) as f64) as usize).min(d.len().saturating_sub(2));
            variants.push((j, Some(sel)));
            for k in 1..d.len() {
              if k != sel {
                variants.push((j, Some(k)));
              }
            }
          }
        }
      }
    }
    s.count(&format!("crash.{choice}"));
    if snap.pending.is_empty() {
      s.count("crash.nothing-unsynced");
    } else {
      nontrivial = true;
    }
    let mut next_dir: Option<PathBuf> = None;
    for (vi, (j, k)) in variants.iter().enumerate() {
      let m = drv.call(
        "C02",
        json!({"op":"crash","durable":hex(&snap.durable_bytes),"pending":pend_json(&snap.pending),"j":j,"k":k,"truncate_on_open":true}),
      );
      let sub = json!({"case": case, "session": si, "boundary": target, "j": j, "k": k});
      s.case(&sub, !snap.pending.is_empty());
      let content = crate::util::unhex(m["content"].as_str().unwrap_or(""));
      if m["is_crash_content"] != json!(true) {
        s.disagree("wal.crash-content", &sub, json!(null), m.clone());
      }
      // harness-side record-level expectation (independent of the model)
      let (recs, bytes) = apply_pending(&snap.durable, &snap.durable_bytes, &snap.pending, *j);
      let mut exp_bytes = bytes.clone();
      if let (Some(k), Some(PendOp::Write(_, d))) = (k, snap.pending.get(*j)) {
        exp_bytes.extend_from_slice(&d[..*k]);
      }
      if exp_bytes != content {
        s.disagree("wal.crash-bytes", &sub, json!(hex(&exp_bytes)), json!(hex(&content)));
      }
      let exp_queue = pending_ops(&recs);
      // materialise the crash image and restart
      let cdir = base.path().join(format!("crash{si}_{vi}"));
      copy_dir(&snap_dir, &cdir);
      std::fs::write(cdir.join("wal.log"), &content).unwrap();
      let mut o = idx::opts(&cdir, false);
      o.create_if_missing = false;
      let restarted = guarded(|| -> Result<(Vec<(bool, String)>, BTreeMap<String, String>), String> {
        let idx = Index::open(o).map_err(|e| format!("open: {e}"))?;
        let committed = live_bodies(&idx)?;
        let w = idx.writer().map_err(|e| format!("writer: {e}"))?;
        Ok((w.verif_queue(), committed))
      });
      let (real_queue, committed) = match restarted {
        Ok(Ok(x)) => x,
        Ok(Err(e)) => {
          s.fail("restart.error", "index or writer cannot be opened after a crash that only affects the log", &sub, json!(e));
          continue;
        }
        Err(p) => {
          s.fail("restart.panic", "restart panicked", &sub, json!(p));
          continue;
        }
      };
      let real_q: Vec<Value> = real_queue.iter().map(|(a, id)| if *a { json!({"op":"add","id":id}) } else { json!({"op":"delete","id":id}) }).collect();
      // correspondence: model's pendingOps(replay(content))
      let mr = drv.call("C02", json!({"op":"replay","data":hex(&content)}));
      if mr["pending"] != json!(real_q) {
        s.disagree("wal.recovered-queue", &sub, json!(real_q), mr["pending"].clone());
      }
      // finder (API level): nothing that a returned commit or rollback disposed of may come back
      {
        let mut rest: Vec<Value> = snap.allowed.iter().map(info_json).collect();
        let mut resurrected = None;
        for op in real_q.iter() {
          match rest.iter().position(|x| x == op) {
            Some(i) => {
              rest.drain(..=i);
            }
            None => {
              resurrected = Some(op.clone());
              break;
            }
          }
        }
        if let Some(op) = resurrected {
          s.fail("recovered-queue.disposed-op-returns", "a restarted writer recovers an operation that a returned commit or rollback had already disposed of", &sub, json!({"recovered": real_q, "allowed": snap.allowed.iter().map(info_json).collect::<Vec<_>>(), "op": op}));
        }
      }
      // finder: exactly the durable-complete operations, in order
      let exp_q: Vec<Value> = exp_queue.iter().map(info_json).collect();
      if json!(exp_q) != json!(real_q) {
        s.fail("recovered-queue.mismatch", "a restarted writer does not recover exactly the operations that reached durable storage", &sub, json!({"recovered": real_q, "expected": exp_q}));
      }
      if vi == 0 {
        next_dir = Some(cdir.clone());
        // continue the history from this image: contents as observed, queue as recovered
        expected = committed;
        queue = exp_queue.clone();
      } else {
        let _ = std::fs::remove_dir_all(&cdir);
      }
    }
    match next_dir {
      Some(d) => dir = d,
      None => return,
    }
  }
  // ---- final: a new writer commits whatever is queued; compare with the crash-free expectation
  let mut o = idx::opts(&dir, false);
  o.create_if_missing = false;
  let fin = guarded(|| -> Result<BTreeMap<String, String>, String> {
    let idx = Index::open(o).map_err(|e| format!("open: {e}"))?;
    {
      let mut w = idx.writer().map_err(|e| format!("writer: {e}"))?;
      w.commit().map_err(|e| format!("commit: {e}"))?;
    }
    live_bodies(&idx)
  });
  let mut want = expected.clone();
  apply_expected(&mut want, &queue);
  let sub = json!({"case": case, "final": true});
  s.case(&sub, nontrivial && crashes > 0);
  s.count(&format!("crashes.{crashes}"));
  match fin {
    Ok(Ok(got)) => {
      if got != want {
        s.fail("final-contents.mismatch", "contents after committing the recovered queue differ from the crash-free run", &sub, json!({"got": got, "want": want}));
      }
    }
    Ok(Err(e)) => s.fail("final.error", "final commit failed", &sub, json!(e)),
    Err(p) => s.fail("final.panic", "final commit panicked", &sub, json!(p)),
  }
}

/// execute the calls of one session on the real code; bookkeeping of the property-level
/// expectation (`expected` = committed map, `queue` = logical queue in log order)
fn run_calls(
  dir: &Path,
  calls: &[Value],
  trace: &Arc<Mutex<WalTrace>>,
  expected: &mut BTreeMap<String, String>,
  queue: &mut Vec<RecInfo>,
) -> Result<(), String> {
  let root = dir.to_path_buf();
  let tr = trace.clone();
  install(root.clone(), Arc::new(move |ev: &FsEvent| {
    tr.lock().unwrap().on_event(ev);
    Ok(())
  }));
  let result = guarded(|| -> Result<(), String> {
    let mut o = idx::opts(dir, false);
    o.create_if_missing = false;
    let idx = Index::open(o).map_err(|e| format!("open: {e}"))?;
    let mut w: Option<IndexWriter> = None;
    for c in calls {
      let op = c["op"].as_str().unwrap_or("");
      if w.is_none() && op != "drop" {
        w = Some(idx.writer().map_err(|e| format!("writer: {e}"))?);
      }
      match op {
        "add" => {
          let id = c["id"].as_str().unwrap_or("").to_string();
          let body = c["body"].as_str().unwrap_or("").to_string();
          trace.lock().unwrap().next_infos = vec![RecInfo::Add(id.clone(), body.clone())];
          let d: Document = idx::doc(&json!({"_id": id, "body": body}));
          w.as_mut().unwrap().add_document(&d).map_err(|e| format!("add: {e}"))?;
          queue.push(RecInfo::Add(id, body));
        }
        "delete" => {
          let id = c["id"].as_str().unwrap_or("").to_string();
          trace.lock().unwrap().next_infos = vec![RecInfo::Delete(id.clone())];
          w.as_mut().unwrap().delete_document(&id).map_err(|e| format!("delete: {e}"))?;
          queue.push(RecInfo::Delete(id));
        }
        "commit" => {
          trace.lock().unwrap().next_infos = vec![RecInfo::Commit];
          w.as_mut().unwrap().commit().map_err(|e| format!("commit: {e}"))?;
          apply_expected(expected, queue);
          queue.clear();
        }
        "rollback" => {
          w.as_mut().unwrap().rollback().map_err(|e| format!("rollback: {e}"))?;
          queue.clear();
        }
        "drop" => {
          w = None;
        }
        _ => {}
      }
      {
        let mut t = trace.lock().unwrap();
        t.api_queue = queue.clone();
        t.cur_call_ops.clear();
      }
    }
    drop(w);
    Ok(())
  });
  uninstall(&root);
  match result {
    Ok(r) => r,
    Err(p) => Err(format!("panic: {p}")),
  }
}

impl Prop for C02 {
  fn id(&self) -> &'static str {
    "C02"
  }
  fn rule(&self) -> &'static str {
    "two case kinds from one seed: (bytes) a random entry list written with the real Wal plus mutations of the file (truncation, byte flip, garbage tail) — every mutated file is one evaluation, non-trivial always; (sessions) 1-4 sessions of add/delete/commit/rollback/drop calls on a real IndexWriter, each but the last ended by a crash at a chosen WAL operation boundary with the unsynced log tail dropped, kept, partially kept or torn (torn: EVERY byte offset of the torn write is restarted) — every restart is one evaluation, non-trivial when at least one log operation was unsynced at the crash point; distinct = distinct case JSON"
  }
  fn count(&self, tier: Tier) -> usize {
    tier.pick(120, 2400)
  }
  fn gen(&self, rng: &mut Rng, _tier: Tier, i: usize) -> Value {
    let ids = ["a", "b", "c", "d"];
    if i % 3 == 0 {
      let n = rng.below(7);
      let entries: Vec<Value> = (0..n)
        .map(|k| match rng.below(5) {
          0 => json!({"op":"commit"}),
          1 => {
            let id = *rng.pick(&ids);
            json!({"op":"delete","id": id})
          }
          _ => {
            let id = *rng.pick(&ids);
            let pad = "x".repeat(rng.below(150));
            json!({"op":"add","id": id, "body": format!("v{k} {pad}")})
          }
        })
        .collect();
      let nm = 2 + rng.below(8);
      let mutations: Vec<Value> = (0..nm)
        .map(|_| match rng.below(3) {
          0 => json!({"kind":"truncate","frac": rng.f64()}),
          1 => {
            let mask = [1u64, 0x80, 0xFF][rng.below(3)];
            json!({"kind":"flip","frac": rng.f64(), "mask": mask})
          }
          _ => {
            let tail: Vec<u64> = (0..rng.below(14)).map(|_| if rng.chance(1, 3) { 0x80 } else { rng.below(256) as u64 }).collect();
            json!({"kind":"garbage","tail": tail})
          }
        })
        .collect();
      return json!({"kind":"bytes","entries":entries,"mutations":mutations});
    }
    let nsess = 2 + rng.below(3);
    let mut version = 0;
    let sessions: Vec<Value> = (0..nsess)
      .map(|si| {
        let ncalls = 1 + rng.below(7);
        let mut calls: Vec<Value> = Vec::new();
        for _ in 0..ncalls {
          version += 1;
          calls.push(match rng.below(10) {
            0 | 1 => json!({"op":"commit"}),
            2 => json!({"op":"rollback"}),
            3 => json!({"op":"drop"}),
            4 | 5 => {
              let id = *rng.pick(&ids);
              json!({"op":"delete","id": id})
            }
            _ => {
              let id = *rng.pick(&ids);
              json!({"op":"add","id": id, "body": format!("v{version}")})
            }
          });
        }
        if si + 1 == nsess {
          json!({"calls": calls})
        } else {
          let choice = ["drop", "keep", "torn", "torn", "partial"][rng.below(5)];
          json!({"calls": calls, "crash": {"at": rng.f64(), "choice": choice, "tear": rng.f64(), "which": rng.f64()}})
        }
      })
      .collect();
    json!({"kind":"sessions","sessions":sessions})
  }
  fn run_case(&self, drv: &mut Driver, case: &Value, s: &mut Summary) {
    // replayed sub-cases carry the whole case inside
    let case = if case.get("case").is_some() { &case["case"] } else if case.get("base").is_some() { &case["base"] } else { case };
    match case["kind"].as_str() {
      Some("bytes") => run_bytes(drv, case, s),
      Some("sessions") => run_sessions(drv, case, s),
      _ => {}
    }
  }
}
