//! C03 — storage errors leave committed state unchanged or fully applied.
//!
//! For a generated history and a target call (commit / add / delete / rollback / compact) a dry
//! run counts the storage primitives of that call; then the call is repeated on a fresh index
//! with exactly one primitive (quick) or an ordered pair (thorough) failing *before* or *after*
//! its effect.  Filesystem backend: hook H1 returns the error; in-memory backend: a wrapping
//! `Storage` owned by the harness.  Observed after the faulty call: return value, contents seen
//! by a fresh reader of the same process, contents after reopening from storage, the handle's
//! queue, and the outcome and contents of a fault-free retry.
//! Finder (implementation only): Err ⇒ both views = pre, queue unchanged, retry succeeds with the
//! crash-free result; Ok ⇒ both views = post; always: the stored index opens.
//! Correspondence (commit): the labelled step the fault hit is sent to the model
//! (`SL.Protocol.commit`), whose predicted observation must equal the real one.
use crate::idx;
use crate::proto::Driver;
use crate::rng::Rng;
use crate::summary::Summary;
use crate::util::{guarded, scratch};
use crate::{Prop, Tier};
use searchlite_core::api::{Index, IndexWriter};
use searchlite_core::storage::verif::{install, uninstall, FsEvent};
use searchlite_core::storage::{DynFile, InMemoryStorage, Storage, StorageFile};
use serde_json::{json, Value};
use std::collections::{BTreeMap, BTreeSet};
use std::io::{Read, Seek, SeekFrom, Write};
use std::path::{Path, PathBuf};
use std::sync::{Arc, Mutex};

pub struct C03;
pub static P: C03 = C03;

type Contents = BTreeMap<String, String>;

#[derive(Default)]
struct Plan {
  active: bool,
  counter: usize,
  fail_at: BTreeSet<usize>,
  /// (index, op, file kind, after) of every primitive seen while active
  log: Vec<(usize, String, String, bool)>,
  fired: Vec<usize>,
}

fn kind_of(p: &Path) -> String {
  let n = p.file_name().map(|x| x.to_string_lossy().to_string()).unwrap_or_default();
  if n == "wal.log" {
    "wal".into()
  } else if n == "MANIFEST.json" {
    "manifest".into()
  } else if n == "MANIFEST.tmp" {
    "tmp".into()
  } else if n.starts_with("seg_") {
    "seg".into()
  } else {
    "dir".into()
  }
}

impl Plan {
  /// returns Err when this primitive is to fail
  fn visit(&mut self, op: &str, path: &Path, after: bool) -> Result<(), String> {
    if !self.active {
      return Ok(());
    }
    self.counter += 1;
    let i = self.counter;
    self.log.push((i, op.to_string(), kind_of(path), after));
    if self.fail_at.contains(&i) {
      self.fired.push(i);
      return Err(format!("injected fault #{i} ({op} {})", if after { "after" } else { "before" }));
    }
    Ok(())
  }
}

// ------------------------------------------------------------ in-memory backend with faults

struct FaultyMem {
  inner: InMemoryStorage,
  plan: Arc<Mutex<Plan>>,
}

struct FaultyFile {
  file: DynFile,
  path: PathBuf,
  plan: Arc<Mutex<Plan>>,
}

fn ioerr(e: String) -> std::io::Error {
  std::io::Error::new(std::io::ErrorKind::Other, e)
}

impl Read for FaultyFile {
  fn read(&mut self, buf: &mut [u8]) -> std::io::Result<usize> {
    self.file.read(buf)
  }
}
impl Write for FaultyFile {
  fn write(&mut self, buf: &[u8]) -> std::io::Result<usize> {
    self.plan.lock().unwrap().visit("write", &self.path, false).map_err(ioerr)?;
    self.file.write_all(buf)?;
    self.plan.lock().unwrap().visit("write", &self.path, true).map_err(ioerr)?;
    Ok(buf.len())
  }
  fn flush(&mut self) -> std::io::Result<()> {
    self.file.flush()
  }
}
impl Seek for FaultyFile {
  fn seek(&mut self, pos: SeekFrom) -> std::io::Result<u64> {
    self.file.seek(pos)
  }
}
impl StorageFile for FaultyFile {
  fn set_len(&mut self, len: u64) -> anyhow::Result<()> {
    self.plan.lock().unwrap().visit("set_len", &self.path, false).map_err(anyhow::Error::msg)?;
    self.file.set_len(len)?;
    self.plan.lock().unwrap().visit("set_len", &self.path, true).map_err(anyhow::Error::msg)?;
    Ok(())
  }
  fn sync_all(&mut self) -> anyhow::Result<()> {
    self.plan.lock().unwrap().visit("sync", &self.path, false).map_err(anyhow::Error::msg)?;
    self.file.sync_all()?;
    self.plan.lock().unwrap().visit("sync", &self.path, true).map_err(anyhow::Error::msg)?;
    Ok(())
  }
}

impl FaultyMem {
  fn wrap(&self, f: DynFile, path: &Path) -> DynFile {
    Box::new(FaultyFile { file: f, path: path.to_path_buf(), plan: self.plan.clone() })
  }
  fn v(&self, op: &str, path: &Path, after: bool) -> anyhow::Result<()> {
    self.plan.lock().unwrap().visit(op, path, after).map_err(anyhow::Error::msg)
  }
}

impl Storage for FaultyMem {
  fn root(&self) -> &Path {
    self.inner.root()
  }
  fn ensure_dir(&self, path: &Path) -> anyhow::Result<()> {
    self.inner.ensure_dir(path)
  }
  fn exists(&self, path: &Path) -> bool {
    self.inner.exists(path)
  }
  fn open_read(&self, path: &Path) -> anyhow::Result<DynFile> {
    self.v("open_read", path, false)?;
    self.inner.open_read(path)
  }
  fn open_write(&self, path: &Path) -> anyhow::Result<DynFile> {
    self.v("create", path, false)?;
    let f = self.inner.open_write(path)?;
    self.v("create", path, true)?;
    Ok(self.wrap(f, path))
  }
  fn open_append(&self, path: &Path) -> anyhow::Result<DynFile> {
    self.v("open_append", path, false)?;
    let f = self.inner.open_append(path)?;
    self.v("open_append", path, true)?;
    Ok(self.wrap(f, path))
  }
  fn read_to_end(&self, path: &Path) -> anyhow::Result<Vec<u8>> {
    self.v("read", path, false)?;
    self.inner.read_to_end(path)
  }
  fn write_all(&self, path: &Path, data: &[u8]) -> anyhow::Result<()> {
    self.v("write_all", path, false)?;
    self.inner.write_all(path, data)?;
    self.v("write_all", path, true)
  }
  fn atomic_write(&self, path: &Path, data: &[u8]) -> anyhow::Result<()> {
    self.v("atomic_write", path, false)?;
    self.inner.atomic_write(path, data)?;
    self.v("atomic_write", path, true)
  }
  fn remove(&self, path: &Path) -> anyhow::Result<()> {
    self.v("remove", path, false)?;
    self.inner.remove(path)?;
    self.v("remove", path, true)
  }
  fn remove_dir_all(&self, path: &Path) -> anyhow::Result<()> {
    self.inner.remove_dir_all(path)
  }
}

// ------------------------------------------------------------ one run

struct Env {
  dir: PathBuf,
  mem: Option<Arc<FaultyMem>>,
  plan: Arc<Mutex<Plan>>,
  _scratch: tempfile::TempDir,
}

fn new_env(mem: bool) -> Env {
  let sc = scratch();
  let dir = sc.path().join("idx");
  let plan = Arc::new(Mutex::new(Plan::default()));
  if mem {
    let st = Arc::new(FaultyMem { inner: InMemoryStorage::new(dir.clone()), plan: plan.clone() });
    Env { dir, mem: Some(st), plan, _scratch: sc }
  } else {
    let p2 = plan.clone();
    install(dir.clone(), Arc::new(move |ev: &FsEvent| {
      if ev.op == "exists" || ev.op == "mkdir" {
        return Ok(());
      }
      p2.lock().unwrap().visit(ev.op, &ev.path, ev.after).map_err(anyhow::Error::msg)
    }));
    Env { dir, mem: None, plan, _scratch: sc }
  }
}

impl Drop for Env {
  fn drop(&mut self) {
    if self.mem.is_none() {
      uninstall(&self.dir);
    }
  }
}

impl Env {
  fn open(&self, create: bool) -> Result<Index, String> {
    let mut o = idx::opts(&self.dir, self.mem.is_some());
    o.create_if_missing = create;
    match &self.mem {
      Some(st) => Index::open_with_storage(o, st.clone() as Arc<dyn Storage>).map_err(|e| e.to_string()),
      None => Index::open(o).map_err(|e| e.to_string()),
    }
  }
}

fn bodies(idx: &Index) -> Result<Contents, String> {
  let l = idx::live(idx)?;
  Ok(l.into_iter().map(|(k, v)| (k, v["body"].as_str().unwrap_or("").to_string())).collect())
}

fn do_call(idx: &Index, w: &mut Option<IndexWriter>, c: &Value) -> Result<(), String> {
  let op = c["op"].as_str().unwrap_or("");
  if w.is_none() && op != "compact" {
    *w = Some(idx.writer().map_err(|e| format!("writer: {e}"))?);
  }
  match op {
    "add" => w.as_mut().unwrap().add_document(&idx::doc(&json!({"_id": c["id"], "body": c["body"]}))).map(|_| ()).map_err(|e| e.to_string()),
    "delete" => w.as_mut().unwrap().delete_document(c["id"].as_str().unwrap_or("")).map_err(|e| e.to_string()),
    "commit" => w.as_mut().unwrap().commit().map_err(|e| e.to_string()),
    "rollback" => w.as_mut().unwrap().rollback().map_err(|e| e.to_string()),
    "compact" => idx.compact().map_err(|e| e.to_string()),
    _ => Ok(()),
  }
}

#[derive(Debug, Clone)]
struct Obs {
  ret_ok: bool,
  err: String,
  mem: Result<Contents, String>,
  disk: Result<Contents, String>,
  queue: Vec<(bool, String)>,
  retry: Result<(), String>,
  after_retry: Result<Contents, String>,
  log: Vec<(usize, String, String, bool)>,
  fired: Vec<usize>,
}

/// setup calls fault-free, then the target call under `faults`; `None` when setup fails
fn run_once(mem: bool, setup: &[Value], target: &Value, faults: &BTreeSet<usize>) -> Result<(Obs, Contents, Vec<(bool, String)>), String> {
  let env = new_env(mem);
  let idx = env.open(true)?;
  let mut w: Option<IndexWriter> = None;
  for c in setup {
    do_call(&idx, &mut w, c)?;
  }
  if w.is_none() && target["op"] != "compact" {
    w = Some(idx.writer().map_err(|e| e.to_string())?);
  }
  let pre = bodies(&idx)?;
  let queue_before = w.as_ref().map(|x| x.verif_queue()).unwrap_or_default();
  {
    let mut p = env.plan.lock().unwrap();
    p.active = true;
    p.counter = 0;
    p.fail_at = faults.clone();
  }
  let r = guarded(|| do_call(&idx, &mut w, target));
  let (log, fired) = {
    let mut p = env.plan.lock().unwrap();
    p.active = false;
    (p.log.clone(), p.fired.clone())
  };
  let (ret_ok, err) = match r {
    Ok(Ok(())) => (true, String::new()),
    Ok(Err(e)) => (false, e),
    Err(p) => (false, format!("PANIC {p}")),
  };
  let memv = bodies(&idx);
  let disk = env.open(false).and_then(|i2| bodies(&i2));
  let queue = w.as_ref().map(|x| x.verif_queue()).unwrap_or_default();
  let retry = if ret_ok { Ok(()) } else { do_call(&idx, &mut w, target) };
  let after_retry = env.open(false).and_then(|i2| bodies(&i2));
  Ok((Obs { ret_ok, err, mem: memv, disk, queue, retry, after_retry, log, fired }, pre, queue_before))
}

/// label of the commit step a primitive belongs to (see `SL.Protocol.Step`)
fn label_commit(log: &[(usize, String, String, bool)], fault_idx: usize, earlier_fault: Option<usize>) -> Option<(String, bool)> {
  // walk the log up to the faulty primitive, tracking where in the protocol we are
  let mut in_error = false;
  let mut wal_syncs = 0;
  let mut dir_syncs = 0;
  let mut renames = 0;
  let mut wal_writes = 0;
  let mut wal_setlens = 0;
  let mut label = None;
  for (i, op, kind, after) in log.iter() {
    if let Some(e) = earlier_fault {
      if *i > e && !in_error {
        in_error = true;
        wal_syncs = 0;
        dir_syncs = 0;
        renames = 0;
        wal_setlens = 0;
      }
    }
    let l: Option<&str> = match (kind.as_str(), op.as_str()) {
      ("wal", "sync") => {
        if in_error {
          Some("errTruncSync")
        } else if wal_setlens > 0 {
          Some("truncSync")
        } else if wal_writes > 0 {
          Some("syncMarker")
        } else {
          Some("walSync")
        }
      }
      ("wal", "write") => Some("appendMarker"),
      ("wal", "set_len") => Some(if in_error { "errTruncSetLen" } else { "truncSetLen" }),
      ("seg", "remove") => Some("cleanup"),
      ("seg", _) => Some("writeSegment"),
      ("tmp", _) if op != "rename" => Some(if in_error { "restoreTmp" } else { "storeTmp" }),
      (_, "rename") => Some(if in_error { "restoreRename" } else { "storeRename" }),
      ("manifest", "atomic_write") => Some(if in_error { "restoreRename" } else { "storeRename" }),
      (_, "sync_dir") => {
        if in_error {
          Some(if renames == 0 { "restorePreSync" } else { "restoreDirSync" })
        } else {
          Some(if renames == 0 { "storePreSync" } else { "storeDirSync" })
        }
      }
      ("manifest", "read") => Some("writeSegment"),
      _ => None,
    };
    if *i == fault_idx {
      label = l.map(|x| {
        // multi-primitive steps without observable partial effect count as failing "before"
        let single = matches!(x, "walSync" | "storePreSync" | "storeRename" | "storeDirSync" | "appendMarker" | "syncMarker" | "truncSetLen" | "truncSync" | "errTruncSetLen" | "errTruncSync" | "restorePreSync" | "restoreRename" | "restoreDirSync");
        (x.to_string(), if single { *after } else { false })
      });
      // storeTmp fails "before" as a step unless it is its last primitive's `after`
      break;
    }
    if *after || op == "read" || op == "open_read" {
      match (kind.as_str(), op.as_str()) {
        ("wal", "sync") => wal_syncs += 1,
        ("wal", "write") => wal_writes += 1,
        ("wal", "set_len") => wal_setlens += 1,
        (_, "sync_dir") => dir_syncs += 1,
        (_, "rename") | ("manifest", "atomic_write") => renames += 1,
        _ => {}
      }
    }
  }
  let _ = (wal_syncs, dir_syncs);
  label
}

fn classify(c: &Result<Contents, String>, pre: &Contents, post: &Contents) -> String {
  match c {
    Err(e) => format!("error: {e}"),
    Ok(x) if x == pre && x == post => "pre=post".into(),
    Ok(x) if x == pre => "pre".into(),
    Ok(x) if x == post => "post".into(),
    Ok(_) => "other".into(),
  }
}

impl Prop for C03 {
  fn id(&self) -> &'static str {
    "C03"
  }
  fn rule(&self) -> &'static str {
    "case = (backend filesystem|in-memory, setup calls, target call); quick: EVERY storage primitive of the target call fails once before and once after its effect (exhaustive single faults per case); thorough: additionally every ordered pair of primitives for short histories; each faulty run is one evaluation, non-trivial when the injected fault actually fired; distinct = distinct (case, fault set)"
  }
  fn count(&self, tier: Tier) -> usize {
    tier.pick(10, 60)
  }
  fn gen(&self, rng: &mut Rng, tier: Tier, i: usize) -> Value {
    let ids = ["a", "b", "c", "d"];
    let mut setup = Vec::new();
    let n = rng.below(5);
    let mut v = 0;
    for _ in 0..n {
      v += 1;
      setup.push(match rng.below(6) {
        0 => json!({"op":"commit"}),
        1 => {
          let id = *rng.pick(&ids);
          json!({"op":"delete","id":id})
        }
        _ => {
          let id = *rng.pick(&ids);
          json!({"op":"add","id":id,"body":format!("v{v}")})
        }
      });
    }
    let target = match i % 5 {
      0 | 1 | 2 => {
        // make sure something is queued and, for some cases, that an earlier segment exists
        if i % 2 == 0 {
          setup.insert(0, json!({"op":"add","id":"a","body":"base"}));
          setup.insert(1, json!({"op":"commit"}));
        }
        setup.push(json!({"op":"add","id":"b","body":"queued"}));
        if rng.chance(1, 2) {
          setup.push(json!({"op":"delete","id":"a"}));
        }
        json!({"op":"commit"})
      }
      3 => {
        setup.push(json!({"op":"add","id":"x","body":"one"}));
        setup.push(json!({"op":"commit"}));
        setup.push(json!({"op":"add","id":"y","body":"two"}));
        setup.push(json!({"op":"commit"}));
        json!({"op":"compact"})
      }
      _ => {
        setup.push(json!({"op":"add","id":"q","body":"queued"}));
        rng.pick(&[json!({"op":"rollback"}), json!({"op":"add","id":"n","body":"new"}), json!({"op":"delete","id":"q"})]).clone()
      }
    };
    let pairs = tier == Tier::Thorough && i % 10 == 0;
    json!({"mem": i % 2 == 1, "setup": setup, "target": target, "pairs": pairs})
  }

  fn run_case(&self, drv: &mut Driver, case: &Value, s: &mut Summary) {
    let only: Option<Vec<usize>> = case.get("faults").and_then(|f| f.as_array()).map(|a| a.iter().filter_map(|x| x.as_u64().map(|y| y as usize)).collect());
    let case = if case.get("case").is_some() { &case["case"] } else { case };
    let mem = case["mem"] == json!(true);
    let setup = case["setup"].as_array().cloned().unwrap_or_default();
    let target = case["target"].clone();
    // dry run: number of primitives, crash-free result
    let dry = match guarded(|| run_once(mem, &setup, &target, &BTreeSet::new())) {
      Ok(Ok(x)) => x,
      other => {
        s.fail("dry-run", "fault-free run of the history failed", case, json!(format!("{:?}", other.err())));
        return;
      }
    };
    let (dobs, pre, queue_before) = dry;
    if !dobs.ret_ok {
      s.fail("dry-run", "fault-free target call failed", case, json!(dobs.err));
      return;
    }
    let post = match &dobs.disk {
      Ok(c) => c.clone(),
      Err(e) => {
        s.fail("dry-run", "cannot read contents after the fault-free call", case, json!(e));
        return;
      }
    };
    let n = dobs.log.len();
    s.count(&format!("target.{}.{}", target["op"].as_str().unwrap_or("?"), if mem { "mem" } else { "fs" }));
    s.add("primitives", n as u64);
    let mut fault_sets: Vec<BTreeSet<usize>> = Vec::new();
    if let Some(o) = only {
      fault_sets.push(o.into_iter().collect());
    } else {
      for i in 1..=n {
        fault_sets.push([i].into_iter().collect());
      }
    }
    let is_commit = target["op"] == "commit";
    let mut k = 0;
    while k < fault_sets.len() {
      let faults = fault_sets[k].clone();
      k += 1;
      let sub = json!({"case": case, "faults": faults.iter().collect::<Vec<_>>()});
      let r = guarded(|| run_once(mem, &setup, &target, &faults));
      let (obs, _, _) = match r {
        Ok(Ok(x)) => x,
        other => {
          s.fail("faulty-run.setup", "setup failed in a faulty run", &sub, json!(format!("{:?}", other.err())));
          continue;
        }
      };
      let fired = !obs.fired.is_empty();
      s.case(&sub, fired);
      if !fired {
        continue;
      }
      // thorough: extend single faults to ordered pairs (second fault anywhere after the first,
      // including the error branch)
      if case["pairs"] == json!(true) && faults.len() == 1 {
        let first = *faults.iter().next().unwrap();
        for j in (first + 1)..=obs.log.len() {
          fault_sets.push([first, j].into_iter().collect());
        }
      }
      let what = obs.log.iter().filter(|e| obs.fired.contains(&e.0)).map(|e| format!("{}:{}:{}", e.2, e.1, if e.3 { "after" } else { "before" })).collect::<Vec<_>>().join("+");
      s.count(&format!("fault.{}", what.split('+').next().unwrap_or("?")));
      let memc = classify(&obs.mem, &pre, &post);
      let diskc = classify(&obs.disk, &pre, &post);
      let observed = json!({"ret": if obs.ret_ok { "ok" } else { "err" }, "error": obs.err, "mem": memc, "disk": diskc,
        "queue_kept": obs.queue == queue_before, "retry": obs.retry.clone().err(), "after_retry": classify(&obs.after_retry, &pre, &post), "fault": what});
      let single = obs.fired.len() == 1;
      // ---- finder
      if obs.err.starts_with("PANIC") {
        s.fail("fault.panic", "a storage error makes the call panic", &sub, observed.clone());
      }
      if diskc.starts_with("error") {
        s.fail(if single { "fault.unopenable" } else { "double-fault.unopenable" }, "after a storage failure the stored index no longer opens (or refers to missing files)", &sub, observed.clone());
      } else if single {
        let is_pre = |c: &str| c == "pre" || c == "pre=post";
        let is_post = |c: &str| c == "post" || c == "pre=post";
        if obs.ret_ok {
          if !(is_post(&memc) && is_post(&diskc)) {
            s.fail("fault.ok-not-applied", "the call returned success but its effects are not fully applied", &sub, observed.clone());
          }
        } else {
          if !(is_pre(&memc) && is_pre(&diskc)) {
            s.fail("fault.err-but-changed", "the call returned an error but committed contents changed", &sub, observed.clone());
          } else if target["op"] != "rollback" && obs.queue != queue_before {
            s.fail("fault.err-queue-changed", "the call returned an error and the handle's queue changed", &sub, observed.clone());
          } else if obs.retry.is_err() {
            s.fail("fault.retry-fails", "after an injected error a fault-free retry fails", &sub, observed.clone());
          } else if !is_post(&classify(&obs.after_retry, &pre, &post)) {
            s.fail("fault.retry-wrong", "the retry does not produce the crash-free result", &sub, observed.clone());
          }
        }
      } else if memc == "other" || diskc == "other" {
        s.fail("double-fault.mixed", "after two storage failures the contents are neither the previous nor the new state", &sub, observed.clone());
      }
      // ---- correspondence with the protocol model (commit only)
      if is_commit && pre != post {
        let mut labelled = Vec::new();
        let mut earlier = None;
        let mut ok = true;
        for f in obs.fired.iter() {
          match label_commit(&obs.log, *f, earlier) {
            Some((st, after)) => labelled.push(json!({"step": st, "after": after})),
            None => ok = false,
          }
          earlier = Some(*f);
        }
        if ok {
          let m = drv.call("C03", json!({"op":"commit","faults":labelled,"repaired":true}));
          let same = m["ret"] == observed["ret"]
            && (m["mem"].as_str() == Some(memc.as_str()))
            && (m["disk"].as_str() == Some(diskc.as_str()) || (diskc.starts_with("error") && m["openable"] == json!(false)))
            && (m["ret"] == "ok" || m["queue_kept"] == observed["queue_kept"]);
          if !same {
            s.disagree("protocol.commit", &sub, json!({"observed": observed, "labels": labelled}), m);
          }
        } else {
          s.count("unlabelled-fault");
        }
      }
    }
  }
}
