//! C04 — committed contents follow upsert/delete/rollback semantics.
//! Correspondence: random call histories over 1–3 writer handles (filesystem and in-memory
//! storage, positions on/off, compaction, reopen) executed on the real index; after every call the
//! queue of every handle (`verif_queue`) and the full `(id, stored fields)` set of a fresh reader
//! are compared with `SL.Contents.step` (mechanism model; the in-memory log is modelled byte by
//! byte with per-handle write positions).
//! Finder (implementation alone, no model): contents = fold of the queues the handles actually
//! held when they committed (queue = the implementation's own log replay at handle creation ++
//! the handle's own calls), stored fields = what the implementation stores for that version in a
//! fresh single-document index, one copy per id, nothing visible before commit, rollback discards.
use crate::idx;
use crate::proto::Driver;
use crate::rng::Rng;
use crate::summary::Summary;
use crate::util::{guarded, scratch};
use crate::{Prop, Tier};
use searchlite_core::api::types::IndexOptions;
use searchlite_core::api::writer::IndexWriter;
use searchlite_core::api::Index;
use searchlite_core::storage::{FsStorage, InMemoryStorage, Storage};
use searchlite_core::wal::{Wal, WalEntry};
use serde_json::{json, Map, Value};
use std::collections::{BTreeMap, HashMap};
use std::path::{Path, PathBuf};
use std::sync::Arc;

pub struct C04;
pub static P: C04 = C04;

// ---------------------------------------------------------------------------------------------
// shared with C14: storage wrapper, schemas, document generator, canonical form
// ---------------------------------------------------------------------------------------------

/// one index location, on the filesystem or in an `InMemoryStorage` that survives "reopen"
pub struct Store {
  pub dir: tempfile::TempDir,
  pub mem: Option<Arc<InMemoryStorage>>,
  pub positions: bool,
}

impl Store {
  pub fn new(mem: bool, positions: bool) -> Store {
    let dir = scratch();
    let mem = if mem { Some(Arc::new(InMemoryStorage::new(dir.path().to_path_buf()))) } else { None };
    Store { dir, mem, positions }
  }
  pub fn path(&self) -> &Path {
    self.dir.path()
  }
  pub fn opts(&self) -> IndexOptions {
    let mut o = idx::opts(self.path(), self.mem.is_some());
    o.enable_positions = self.positions;
    o
  }
  pub fn storage(&self) -> Arc<dyn Storage> {
    match &self.mem {
      Some(m) => m.clone(),
      None => Arc::new(FsStorage::new(self.path().to_path_buf())),
    }
  }
  pub fn create(&self, schema: &Value) -> Result<Index, String> {
    let s = idx::schema(schema)?;
    match &self.mem {
      Some(m) => Index::create_with_storage(self.path(), s, self.opts(), m.clone()).map_err(|e| e.to_string()),
      None => Index::create(self.path(), s, self.opts()).map_err(|e| e.to_string()),
    }
  }
  pub fn reopen(&self) -> Result<Index, String> {
    let mut o = self.opts();
    o.create_if_missing = false;
    match &self.mem {
      Some(m) => Index::open_with_storage(o, m.clone()).map_err(|e| e.to_string()),
      None => Index::open(o).map_err(|e| e.to_string()),
    }
  }
  pub fn wal_path(&self) -> PathBuf {
    self.path().join("wal.log")
  }
  /// the implementation's own replay of the log: (is_add, id, document)
  pub fn wal_pending(&self) -> Result<Vec<(bool, String, Option<Value>)>, String> {
    let st = self.storage();
    let entries = Wal::last_pending_ops(st.as_ref(), &self.wal_path()).map_err(|e| e.to_string())?;
    Ok(
      entries
        .into_iter()
        .filter_map(|e| match e {
          WalEntry::AddDoc(d) => {
            let id = d.fields.get("_id").and_then(|v| v.as_str()).unwrap_or("").to_string();
            Some((true, id, Some(Value::Object(d.fields.into_iter().collect()))))
          }
          WalEntry::DeleteDocId(id) => Some((false, id, None)),
          WalEntry::Commit => None,
        })
        .collect(),
    )
  }
  pub fn manifest_bytes(&self) -> Vec<u8> {
    self.storage().read_to_end(&self.path().join("MANIFEST.json")).unwrap_or_default()
  }
  /// (file name, length) of every file in the index directory (filesystem backend only)
  pub fn listing(&self) -> Vec<(String, u64)> {
    let mut out = Vec::new();
    if self.mem.is_none() {
      if let Ok(rd) = std::fs::read_dir(self.path()) {
        for e in rd.flatten() {
          let len = e.metadata().map(|m| m.len()).unwrap_or(0);
          out.push((e.file_name().to_string_lossy().to_string(), len));
        }
      }
    }
    out.sort();
    out
  }
}

fn kw(name: &str, stored: bool, indexed: bool, fast: bool, nullable: bool) -> Value {
  json!({"name": name, "stored": stored, "indexed": indexed, "fast": fast, "nullable": nullable})
}
fn nkw(name: &str, stored: bool, indexed: bool, fast: bool, nullable: bool) -> Value {
  json!({"type": "keyword", "name": name, "stored": stored, "indexed": indexed, "fast": fast, "nullable": nullable})
}

/// schema variants.  0: compact-safe, everything nullable inside the nested field.
/// 1: as 0 plus an indexed, unstored keyword (compaction must refuse).
/// 2: as 0 but the nested child object `r` is required (non-nullable).
/// 3: as 0 plus a required, unstored, unindexed nested keyword `q`.
/// 4: as 0 plus a fast-only (unstored) numeric field (compaction must refuse).
/// 5: as 0 plus a fast-only numeric property `k2` of the nested object `c` (must refuse).
/// 6: as 0 plus an indexed+fast unstored keyword `t2` of the nested-in-nested object `c.r` (must refuse).
/// 7: as 0 plus an indexed-only unstored keyword `a2` of `c` (must refuse).
pub fn schema_json(kind: u64) -> Value {
  let mut keywords = vec![kw("tag", true, true, true, true), kw("hid", false, false, false, true)];
  if kind == 1 {
    keywords.push(kw("sec", false, true, false, true));
  }
  let mut numerics = vec![
    json!({"name": "n", "i64": true, "fast": true, "stored": true, "nullable": false}),
    json!({"name": "x", "i64": false, "fast": true, "stored": true, "nullable": true}),
  ];
  if kind == 4 {
    numerics.push(json!({"name": "fo", "i64": true, "fast": true, "stored": false, "nullable": true}));
  }
  let mut cprops = vec![
    nkw("a", true, true, true, true),
    json!({"type": "numeric", "name": "k", "i64": true, "fast": true, "stored": true, "nullable": true}),
    nkw("u", false, false, false, true),
    json!({"type": "object", "name": "r", "nullable": kind != 2, "fields": if kind == 6 {
      // (c) nested-in-nested property that is indexed + fast but not stored
      vec![nkw("t", true, true, true, true), nkw("t2", false, true, true, true)]
    } else {
      vec![nkw("t", true, true, true, true)]
    }}),
  ];
  if kind == 5 {
    // (b) fast-only numeric property of a nested object
    cprops.push(json!({"type": "numeric", "name": "k2", "i64": true, "fast": true, "stored": false, "nullable": true}));
  }
  if kind == 7 {
    // (b') indexed-only (not fast) keyword property of a nested object
    cprops.push(nkw("a2", false, true, false, true));
  }
  if kind == 3 {
    cprops.push(nkw("q", false, false, false, false));
  }
  json!({
    "doc_id_field": "_id",
    "text_fields": [{"name": "body", "analyzer": "default", "stored": true, "indexed": true, "nullable": true}],
    "keyword_fields": keywords,
    "numeric_fields": numerics,
    "nested_fields": [{"name": "c", "nullable": true, "fields": cprops}],
  })
}

pub const WORDS: [&str; 6] = ["rust", "search", "engine", "lite", "fast", "index"];
pub const TAGS: [&str; 4] = ["red", "Green", "blue", "RED"];
pub const AS: [&str; 3] = ["p0", "p1", "P2"];
pub const TS: [&str; 3] = ["x", "y", "z"];

fn gen_r_obj(rng: &mut Rng) -> Value {
  match rng.below(4) {
    0 => json!({"t": null}),
    1 => json!({}),
    _ => json!({"t": *rng.pick(&TS)}),
  }
}

fn gen_r(rng: &mut Rng) -> Option<Value> {
  match rng.below(8) {
    0 => None,
    1 => Some(Value::Null),
    2 => Some(json!([])),
    3 | 4 => Some(gen_r_obj(rng)),
    _ => {
      let n = 1 + rng.below(3);
      Some(Value::Array((0..n).map(|_| if rng.chance(1, 4) { Value::Null } else { gen_r_obj(rng) }).collect()))
    }
  }
}

fn gen_c_obj(rng: &mut Rng, kind: u64) -> Value {
  let mut m = Map::new();
  match rng.below(6) {
    0 => {}
    1 => {
      m.insert("a".into(), Value::Null);
    }
    2 => {
      m.insert("a".into(), json!([*rng.pick(&AS), *rng.pick(&AS)]));
    }
    _ => {
      m.insert("a".into(), json!(*rng.pick(&AS)));
    }
  }
  match rng.below(5) {
    0 => {}
    1 => {
      m.insert("k".into(), Value::Null);
    }
    2 => {
      m.insert("k".into(), json!([rng.below(6), rng.below(6)]));
    }
    _ => {
      m.insert("k".into(), json!(rng.below(6)));
    }
  }
  if rng.chance(1, 4) {
    m.insert("u".into(), json!("hidden"));
  }
  match gen_r(rng) {
    Some(Value::Null) if kind == 2 => {
      m.insert("r".into(), json!([]));
    }
    // a required (non-nullable) child may not contain null elements either
    Some(Value::Array(a)) if kind == 2 => {
      m.insert("r".into(), Value::Array(a.into_iter().filter(|x| !x.is_null()).collect()));
    }
    Some(r) => {
      m.insert("r".into(), r);
    }
    None if kind == 2 => {
      m.insert("r".into(), gen_r_obj(rng));
    }
    None => {}
  }
  if kind == 3 {
    m.insert("q".into(), json!("req"));
  }
  if kind == 5 && rng.chance(2, 3) {
    m.insert("k2".into(), if rng.chance(1, 5) { Value::Null } else { json!(rng.below(6)) });
  }
  if kind == 7 && rng.chance(2, 3) {
    m.insert("a2".into(), json!(*rng.pick(&AS)));
  }
  if kind == 6 {
    // give the child objects of `r` a value for the unstored property
    let mut add_t2 = |o: &mut Value| {
      if o.is_object() && rng.chance(2, 3) {
        o["t2"] = json!(*rng.pick(&TS));
      }
    };
    match m.get_mut("r") {
      Some(Value::Array(a)) => a.iter_mut().for_each(&mut add_t2),
      Some(o) => add_t2(o),
      None => {}
    }
  }
  Value::Object(m)
}

/// does the schema (repository schema JSON) have a field or nested property whose indexed/fast
/// data is not stored?  (text: `indexed`; keyword: `indexed` or `fast`; numeric: always indexed)
pub fn schema_has_unrebuildable_field(schema: &Value) -> bool {
  fn unstored(f: &Value, kind: &str) -> bool {
    let stored = f["stored"].as_bool().unwrap_or(false);
    let indexed = match kind {
      "numeric" => true,
      _ => f["indexed"].as_bool().unwrap_or(false),
    };
    let fast = kind != "text" && f["fast"].as_bool().unwrap_or(false);
    (indexed || fast) && !stored
  }
  fn nested(n: &Value) -> bool {
    n["fields"].as_array().map(|fs| {
      fs.iter().any(|f| match f["type"].as_str() {
        Some("object") => nested(f),
        Some(k) => unstored(f, k),
        None => false,
      })
    }).unwrap_or(false)
  }
  let flat = |key: &str, kind: &str| schema[key].as_array().map(|a| a.iter().any(|f| unstored(f, kind))).unwrap_or(false);
  flat("text_fields", "text")
    || flat("keyword_fields", "keyword")
    || flat("numeric_fields", "numeric")
    || schema["nested_fields"].as_array().map(|a| a.iter().any(nested)).unwrap_or(false)
    || schema["vector_fields"].as_array().map(|a| !a.is_empty()).unwrap_or(false)
}

/// a document valid for `schema_json(kind)`; `version` makes every generated version distinct
pub fn gen_doc(rng: &mut Rng, id: &str, version: u64, kind: u64) -> Value {
  let mut m = Map::new();
  m.insert("_id".into(), json!(id));
  m.insert("n".into(), if rng.chance(1, 6) { json!([version, version + 1000]) } else { json!(version) });
  match rng.below(5) {
    0 => {}
    1 => {
      m.insert("body".into(), json!([*rng.pick(&WORDS), format!("{} {}", rng.pick(&WORDS), rng.pick(&WORDS))]));
    }
    2 => {
      m.insert("body".into(), Value::Null);
    }
    _ => {
      let k = 1 + rng.below(4);
      let ws: Vec<&str> = (0..k).map(|_| *rng.pick(&WORDS)).collect();
      m.insert("body".into(), json!(ws.join(" ")));
    }
  }
  match rng.below(6) {
    0 => {}
    1 => {
      m.insert("tag".into(), json!([]));
    }
    2 => {
      m.insert("tag".into(), json!([*rng.pick(&TAGS), *rng.pick(&TAGS)]));
    }
    3 => {
      m.insert("tag".into(), json!([*rng.pick(&TAGS)]));
    }
    _ => {
      m.insert("tag".into(), json!(*rng.pick(&TAGS)));
    }
  }
  match rng.below(6) {
    0 => {}
    1 => {
      m.insert("x".into(), Value::Null);
    }
    2 => {
      m.insert("x".into(), json!(rng.below(5)));
    }
    3 => {
      m.insert("x".into(), json!([0.5, 2.25]));
    }
    _ => {
      m.insert("x".into(), json!(rng.below(8) as f64 + 0.5));
    }
  }
  if rng.chance(1, 4) {
    m.insert("hid".into(), json!("secret"));
  }
  if kind == 1 && rng.chance(1, 2) {
    m.insert("sec".into(), json!(*rng.pick(&TAGS)));
  }
  if kind == 4 && rng.chance(1, 2) {
    m.insert("fo".into(), json!(rng.below(9)));
  }
  match rng.below(10) {
    0 | 1 => {}
    2 => {
      m.insert("c".into(), Value::Null);
    }
    3 => {
      m.insert("c".into(), json!([]));
    }
    4 | 5 => {
      m.insert("c".into(), gen_c_obj(rng, kind));
    }
    _ => {
      let n = 1 + rng.below(3);
      m.insert("c".into(), Value::Array((0..n).map(|_| if rng.chance(1, 5) { Value::Null } else { gen_c_obj(rng, kind) }).collect()));
    }
  }
  Value::Object(m)
}

/// numbers as f64, recursively (the stored form of an integer in a float field is `3.0`)
pub fn canon(v: &Value) -> Value {
  match v {
    Value::Number(n) => n.as_f64().and_then(serde_json::Number::from_f64).map(Value::Number).unwrap_or(Value::Null),
    Value::Array(a) => Value::Array(a.iter().map(canon).collect()),
    Value::Object(m) => Value::Object(m.iter().map(|(k, x)| (k.clone(), canon(x))).collect()),
    x => x.clone(),
  }
}

pub fn canon_map(m: &BTreeMap<String, Value>) -> BTreeMap<String, Value> {
  m.iter().map(|(k, v)| (k.clone(), canon(v))).collect()
}

fn varint_len(mut n: usize) -> usize {
  let mut k = 1;
  while n >= 0x80 {
    n >>= 7;
    k += 1;
  }
  k
}

/// byte length of the log record of an add (`Wal::append_add_doc`) / a delete
pub fn add_record_size(doc: &Value) -> usize {
  let payload = serde_json::to_vec(&idx::doc(doc)).map(|b| b.len()).unwrap_or(0);
  varint_len(payload) + 1 + payload + 4
}
pub fn del_record_size(id: &str) -> usize {
  varint_len(id.len()) + 1 + id.len() + 4
}

/// what the implementation stores for `doc`: ingest it alone into a fresh in-memory index
pub fn ref_stored(schema: &Value, doc: &Value, cache: &mut HashMap<String, Result<Value, String>>) -> Result<Value, String> {
  let key = doc.to_string();
  if let Some(r) = cache.get(&key) {
    return r.clone();
  }
  let r = (|| {
    let st = Store::new(true, false);
    let ix = st.create(schema)?;
    idx::add_commit(&ix, std::slice::from_ref(doc))?;
    let live = idx::live(&ix)?;
    live.into_values().next().ok_or_else(|| "reference index is empty".to_string())
  })();
  let r = r.map(|v| canon(&v));
  cache.insert(key, r.clone());
  r
}

/// model contents `[[id, stored], …]` → canonical map
pub fn model_contents(v: &Value) -> BTreeMap<String, Value> {
  v.as_array().map(|a| a.iter().map(|p| (p[0].as_str().unwrap_or("").to_string(), canon(&p[1]))).collect()).unwrap_or_default()
}

// ---------------------------------------------------------------------------------------------

fn queue_json(q: &[(bool, String)]) -> Value {
  Value::Array(q.iter().map(|(a, i)| json!([a, i])).collect())
}

impl Prop for C04 {
  fn id(&self) -> &'static str {
    "C04"
  }
  fn rule(&self) -> &'static str {
    "case = (storage fs|mem, positions on/off, schema variant, call list over ≤3 live writer handles and 6 ids: new/add/delete/commit/rollback/drop/compact/reopen); after EVERY call all handle queues and the full (id, stored fields) set of a fresh reader are compared with the model, and the finder predicates are evaluated; a case is non-trivial when at least one commit applied a non-empty queue AND the history contains an upsert of a committed id or a committed delete AND (two handles were alive at some commit OR compaction ran on ≥2 segments OR the index was reopened)"
  }
  fn count(&self, tier: Tier) -> usize {
    tier.pick(60, 600)
  }
  fn gen(&self, rng: &mut Rng, tier: Tier, _i: usize) -> Value {
    let mem = rng.chance(1, 2);
    let positions = rng.chance(1, 2);
    let kind = if rng.chance(1, 6) { 1 } else { 0 };
    let max_calls = tier.pick(60, 300);
    let n_calls = max_calls / 3 + rng.below(2 * max_calls / 3 + 1);
    let max_alive = 1 + rng.below(3);
    // fixed-shape documents: all add records have the same byte length, so that records written
    // through stale in-memory positions overwrite each other exactly (whole records survive)
    let uniform = rng.chance(1, 3);
    let mut alive: Vec<u64> = Vec::new();
    let mut next_h = 0u64;
    let mut version = 0u64;
    let mut calls: Vec<Value> = Vec::new();
    while calls.len() < n_calls {
      if alive.is_empty() {
        calls.push(json!({"op": "new", "h": next_h}));
        alive.push(next_h);
        next_h += 1;
        continue;
      }
      let h = *rng.pick(&alive);
      let id = format!("d{}", rng.below(6));
      let r = rng.below(100);
      if r < 10 {
        // a further handle (it replays the shared log); at the limit one handle is dropped first
        if alive.len() >= max_alive {
          calls.push(json!({"op": "drop", "h": h}));
          alive.retain(|x| *x != h);
        }
        calls.push(json!({"op": "new", "h": next_h}));
        alive.push(next_h);
        next_h += 1;
      } else if r < 45 {
        version += 1;
        let doc = if uniform {
          json!({"_id": id, "n": 10 + version % 90, "tag": *rng.pick(&["red", "blu", "grn"])})
        } else {
          gen_doc(rng, &id, version, kind)
        };
        calls.push(json!({"op": "add", "h": h, "doc": doc}));
      } else if r < 60 {
        calls.push(json!({"op": "del", "h": h, "id": id}));
      } else if r < 77 {
        calls.push(json!({"op": "commit", "h": h}));
      } else if r < 81 {
        calls.push(json!({"op": "rollback", "h": h}));
      } else if r < 87 {
        calls.push(json!({"op": "drop", "h": h}));
        alive.retain(|x| *x != h);
      } else if r < 96 {
        calls.push(json!({"op": "compact"}));
      } else {
        calls.push(json!({"op": "reopen"}));
        alive.clear();
      }
    }
    json!({"mem": mem, "positions": positions, "schema_kind": kind, "uniform_docs": uniform, "calls": calls})
  }

  fn run_case(&self, drv: &mut Driver, case: &Value, s: &mut Summary) {
    let mem = case["mem"].as_bool().unwrap_or(false);
    let positions = case["positions"].as_bool().unwrap_or(true);
    let kind = case["schema_kind"].as_u64().unwrap_or(0);
    let schema = schema_json(kind);
    let calls: Vec<Value> = case["calls"].as_array().cloned().unwrap_or_default();
    // ---- model: the whole history in one request (record sizes are a function of the call) ----
    // VERIF_C04_PERTURB (self-test of the harness only): report wrong sizes for half of the adds
    let perturb = std::env::var("VERIF_C04_PERTURB").is_ok();
    let mcalls: Vec<Value> = calls
      .iter()
      .map(|c| {
        let mut c = c.clone();
        match c["op"].as_str() {
          Some("add") => c["size"] = json!(add_record_size(&c["doc"]) + if perturb { (c["doc"]["n"].as_u64().unwrap_or(0) % 2) as usize } else { 0 }),
          Some("del") => c["size"] = json!(del_record_size(c["id"].as_str().unwrap_or(""))),
          _ => {}
        }
        c
      })
      .collect();
    let m = drv.call("C04", json!({"op": "run", "mem": mem, "schema": schema, "calls": mcalls}));
    let steps: Vec<Value> = m["steps"].as_array().cloned().unwrap_or_default();
    if m["ok"] != json!(true) || steps.len() != calls.len() {
      s.case(case, false);
      s.disagree("contents.driver", case, json!(null), m);
      return;
    }
    s.count(if mem { "storage_mem" } else { "storage_fs" });
    s.count(if positions { "positions_on" } else { "positions_off" });
    s.count(&format!("schema_kind_{kind}"));
    if case["uniform_docs"].as_bool().unwrap_or(false) {
      s.count("uniform_record_sizes");
    }

    let store = Store::new(mem, positions);
    let mut index = match store.create(&schema) {
      Ok(i) => i,
      Err(e) => {
        s.case(case, false);
        s.fail("contents.create", "index creation failed", case, json!(e));
        return;
      }
    };
    let mut writers: BTreeMap<u64, IndexWriter> = BTreeMap::new();
    // finder state (implementation observations only)
    let mut fq: BTreeMap<u64, Vec<(bool, String, Option<Value>)>> = BTreeMap::new();
    let mut exp: BTreeMap<String, Value> = BTreeMap::new(); // id -> raw document of the last committed add
    let mut ideal_log: Vec<(bool, String)> = Vec::new();
    let mut refcache: HashMap<String, Result<Value, String>> = HashMap::new();
    let mut prev_live: BTreeMap<String, Value> = BTreeMap::new();
    // non-triviality bookkeeping
    let (mut applied, mut upsert_or_delete, mut structure) = (false, false, false);
    let mut failed_once = false;

    for (k, call) in calls.iter().enumerate() {
      let op = call["op"].as_str().unwrap_or("");
      let h = call["h"].as_u64().unwrap_or(0);
      let ctx = json!({"case": case, "at_call": k});
      s.count(&format!("call_{op}"));
      let mut res = "ok".to_string();
      match op {
        "new" => {
          let pending = store.wal_pending().unwrap_or_default();
          let ids: Vec<(bool, String)> = pending.iter().map(|(a, i, _)| (*a, i.clone())).collect();
          if ids != ideal_log {
            s.count("new_handle_log_replay_differs_from_append_order");
            if !mem && !failed_once {
              failed_once = true;
              s.fail("contents.fs-log-replay-not-append-order", "filesystem backend: a new handle's replay differs from the operations appended since the last truncation", &ctx, json!({"replay": queue_json(&ids), "appended": queue_json(&ideal_log)}));
            }
          }
          if std::env::var("VERIF_C04_DEBUG").is_ok() {
            eprintln!("  before writer(): wal_len={} pending={:?}", store.storage().read_to_end(&store.wal_path()).unwrap_or_default().len(), ids);
          }
          match guarded(|| index.writer()) {
            Ok(Ok(w)) => {
              if std::env::var("VERIF_C04_DEBUG").is_ok() {
                eprintln!("  after writer(): wal_len={}", store.storage().read_to_end(&store.wal_path()).unwrap_or_default().len());
              }
              writers.insert(h, w);
              fq.insert(h, pending);
            }
            Ok(Err(e)) => res = format!("error: {e}"),
            Err(p) => res = format!("panic: {p}"),
          }
        }
        "add" => {
          if let Some(w) = writers.get_mut(&h) {
            let d = idx::doc(&call["doc"]);
            let id = call["doc"]["_id"].as_str().unwrap_or("").to_string();
            match guarded(|| w.add_document(&d)) {
              Ok(Ok(_)) => {
                fq.entry(h).or_default().push((true, id.clone(), Some(call["doc"].clone())));
                ideal_log.push((true, id));
              }
              Ok(Err(e)) => res = format!("error: {e}"),
              Err(p) => res = format!("panic: {p}"),
            }
          } else {
            res = "no_handle".into();
          }
        }
        "del" => {
          if let Some(w) = writers.get_mut(&h) {
            let id = call["id"].as_str().unwrap_or("").to_string();
            match guarded(|| w.delete_document(&id)) {
              Ok(Ok(_)) => {
                fq.entry(h).or_default().push((false, id.clone(), None));
                ideal_log.push((false, id));
              }
              Ok(Err(e)) => res = format!("error: {e}"),
              Err(p) => res = format!("panic: {p}"),
            }
          } else {
            res = "no_handle".into();
          }
        }
        "commit" => {
          if let Some(w) = writers.get_mut(&h) {
            let nonempty = !w.verif_queue().is_empty();
            match guarded(|| w.commit()) {
              Ok(Ok(_)) => {
                let q = fq.remove(&h).unwrap_or_default();
                if nonempty {
                  applied = true;
                  ideal_log.clear();
                  if writers.len() >= 2 {
                    structure = true;
                    s.count("commit_with_other_handles_alive");
                  }
                  if q.iter().all(|(a, _, _)| !*a) {
                    s.count("delete_only_commit");
                  }
                }
                for (is_add, id, d) in q {
                  if exp.contains_key(&id) {
                    upsert_or_delete = true;
                  }
                  if is_add {
                    exp.insert(id, d.unwrap_or(Value::Null));
                  } else {
                    exp.remove(&id);
                  }
                }
                fq.insert(h, Vec::new());
              }
              Ok(Err(e)) => res = format!("error: {e}"),
              Err(p) => res = format!("panic: {p}"),
            }
          } else {
            res = "no_handle".into();
          }
        }
        "rollback" => {
          if let Some(w) = writers.get_mut(&h) {
            match guarded(|| w.rollback()) {
              Ok(Ok(_)) => {
                fq.insert(h, Vec::new());
                ideal_log.clear();
              }
              Ok(Err(e)) => res = format!("error: {e}"),
              Err(p) => res = format!("panic: {p}"),
            }
          } else {
            res = "no_handle".into();
          }
        }
        "drop" => {
          writers.remove(&h);
          fq.remove(&h);
        }
        "compact" => {
          let nseg = index.manifest().segments.len();
          match guarded(|| index.compact()) {
            Ok(Ok(_)) => {
              if nseg >= 2 {
                structure = true;
                s.count("compaction_of_2plus_segments");
              }
            }
            Ok(Err(e)) => {
              let e = e.to_string();
              res = if e.contains("cannot compact index") { "refused".into() } else { format!("failed: {e}") };
            }
            Err(p) => res = format!("panic: {p}"),
          }
        }
        "reopen" => {
          writers.clear();
          fq.clear();
          match store.reopen() {
            Ok(i) => {
              index = i;
              structure = true;
            }
            Err(e) => res = format!("error: {e}"),
          }
        }
        _ => {}
      }
      if std::env::var("VERIF_C04_DEBUG").is_ok() {
        let bytes = store.storage().read_to_end(&store.wal_path()).unwrap_or_default();
        eprintln!("call {k} {op} h={h} res={res} wal_len={} head={:?}", bytes.len(), &bytes[..bytes.len().min(12)]);
      }
      // ---- correspondence: call result, queues, contents ----
      let step = &steps[k];
      let res_class = res.split(':').next().unwrap_or("").to_string();
      if step["res"].as_str() != Some(res_class.as_str()) {
        s.disagree("contents.call-result", &ctx, json!({"result": res}), json!({"result": step["res"]}));
        if res_class != "ok" && res_class != "refused" && res_class != "no_handle" {
          // an error the model does not predict: the histories diverge from here on
          break;
        }
      }
      let mut mq: BTreeMap<u64, Value> = BTreeMap::new();
      for p in step["queues"].as_array().cloned().unwrap_or_default() {
        mq.insert(p[0].as_u64().unwrap_or(0), p[1].clone());
      }
      let mut iq: BTreeMap<u64, Value> = BTreeMap::new();
      for (hid, w) in writers.iter() {
        let q = w.verif_queue();
        iq.insert(*hid, queue_json(&q));
        // finder: the queue is the log replay at creation followed by the handle's own calls
        let tracked: Vec<(bool, String)> = fq.get(hid).map(|v| v.iter().map(|(a, i, _)| (*a, i.clone())).collect()).unwrap_or_default();
        if tracked != q && !failed_once {
          failed_once = true;
          s.fail("contents.queue-not-replay-plus-own-calls", "a handle's queue is not (log replay at creation ++ its own add/delete calls since the last commit/rollback)", &ctx, json!({"handle": hid, "queue": queue_json(&q), "expected": queue_json(&tracked)}));
        }
      }
      if json!(mq) != json!(iq) {
        s.disagree("contents.queues", &ctx, json!(iq), json!(mq));
      }
      let live = match idx::live(&index) {
        Ok(l) => canon_map(&l),
        Err(e) => {
          if !failed_once {
            failed_once = true;
            let sig = if e.starts_with("duplicate") { "contents.duplicate-live-id" } else { "contents.reader-failed" };
            s.fail(sig, "a fresh reader could not list the live documents once each", &ctx, json!(e));
          }
          break;
        }
      };
      let mlive = model_contents(&step["contents"]);
      if mlive != live {
        s.disagree("contents.live-set", &ctx, json!(live), json!(mlive));
      }
      if model_contents(&step["spec_contents"]) != mlive {
        s.disagree("contents.model-mechanism-vs-spec", &ctx, json!(null), json!({"mechanism": step["contents"], "spec": step["spec_contents"]}));
      }
      // ---- finder: the property statement on the implementation alone ----
      if !failed_once {
        let exp_ids: Vec<&String> = exp.keys().collect();
        let live_ids: Vec<&String> = live.keys().collect();
        if exp_ids != live_ids {
          failed_once = true;
          let sig = match op {
            "commit" => "contents.commit-wrong-ids",
            "rollback" => "contents.rollback-changed-contents",
            "compact" => "contents.compact-changed-ids",
            "reopen" => "contents.reopen-changed-ids",
            _ => "contents.queued-operation-visible",
          };
          s.fail(sig, "live ids differ from the ids whose last committed operation was an add", &ctx, json!({"live": live_ids, "expected": exp_ids}));
        } else {
          for (id, raw) in exp.iter() {
            let want = ref_stored(&schema, raw, &mut refcache);
            match want {
              Ok(wv) if Some(&wv) == live.get(id) => {}
              Ok(wv) => {
                failed_once = true;
                let sig = if op == "compact" { "contents.compact-changed-stored-fields" } else { "contents.stored-fields-not-projection-of-last-add" };
                s.fail(sig, "stored fields differ from what the implementation stores for the last committed version", &ctx, json!({"id": id, "live": live.get(id), "expected": wv}));
                break;
              }
              Err(e) => {
                s.count("reference_projection_unavailable");
                let _ = e;
              }
            }
          }
        }
        if !failed_once && op != "commit" && op != "compact" && op != "reopen" && live != prev_live {
          failed_once = true;
          s.fail("contents.non-commit-call-changed-reader-view", "a call other than commit/compact changed what a fresh reader sees", &ctx, json!({"before": prev_live, "after": live}));
        }
      }
      prev_live = live;
      if step["segments"].as_u64() != Some(index.manifest().segments.len() as u64) {
        s.disagree("contents.segment-count", &ctx, json!(index.manifest().segments.len()), step["segments"].clone());
      }
    }
    s.case(case, applied && upsert_or_delete && structure);
  }
}
