//! C05 — concurrent writer handles are serializable.
//!
//! Per case: 2–4 writer threads (own `IndexWriter` each) plus an optional compaction thread run
//! generated call lists on one index under the controlled scheduler of `sched.rs`.
//!  * monitor (correspondence): the recorded trace satisfies `SL.Sched.sectionsDisjoint` and
//!    `fits` (evaluated by the Lean driver) — the hypothesis of `trace_serializable`;
//!  * correspondence: every call's result and the final contents equal the Lean model's
//!    `runSerial` over the calls in recorded `enter` order (filesystem backend);
//!  * finder (implementation alone): results and final contents equal a serial re-execution of
//!    the same calls in `enter` order on a fresh index with the real code, the index reopens
//!    from disk with the same contents, no call panics, no dead-lock.
use crate::idx;
use crate::proto::Driver;
use crate::rng::Rng;
use crate::summary::Summary;
use crate::util::{guarded, scratch};
use crate::{Prop, Tier};
use searchlite_core::api::writer::IndexWriter;
use searchlite_core::api::Index;
use serde_json::{json, Value};
use std::collections::BTreeMap;
use std::sync::Arc;

#[allow(dead_code)]
#[path = "../sched.rs"]
pub mod sched;
use sched::{Strategy, Timing};

pub struct C05;
pub static P: C05 = C05;

pub const IDS: [&str; 5] = ["a", "b", "c", "d", "e"];

pub fn schema_json() -> Value {
  json!({"doc_id_field": "_id", "analyzers": [], "text_fields": [{"name": "body", "analyzer": "default", "stored": true, "indexed": true}], "keyword_fields": [], "numeric_fields": [], "nested_fields": []})
}

/// result of one call in the model's encoding: "ok" | {"count": n} | "err" (| {"panic": …})
pub fn exec_call(index: &Index, writer: &mut Option<IndexWriter>, call: &Value) -> Value {
  let r = guarded(|| -> Result<Value, String> {
    match call["op"].as_str().unwrap_or("") {
      "new" => {
        // the old handle (if any) is dropped first, as `w = idx.writer()` would do after the call;
        // dropping only syncs the log
        let w = index.writer().map_err(|e| e.to_string())?;
        *writer = Some(w);
        Ok(json!("ok"))
      }
      "add" => {
        let w = writer.as_mut().ok_or("no handle")?;
        let d = if call["valid"].as_bool().unwrap_or(true) { json!({"_id": call["id"], "body": call["body"]}) } else { json!({"body": call["body"]}) };
        w.add_document(&idx::doc(&d)).map(|n| json!({"count": n})).map_err(|e| e.to_string())
      }
      "delete" => {
        let w = writer.as_mut().ok_or("no handle")?;
        let ids: Vec<String> = call["ids"].as_array().map(|a| a.iter().filter_map(|x| x.as_str().map(|s| s.to_string())).collect()).unwrap_or_default();
        w.delete_documents(&ids).map(|_| json!("ok")).map_err(|e| e.to_string())
      }
      "commit" => writer.as_mut().ok_or("no handle")?.commit().map(|_| json!("ok")).map_err(|e| e.to_string()),
      "rollback" => writer.as_mut().ok_or("no handle")?.rollback().map(|_| json!("ok")).map_err(|e| e.to_string()),
      "compact" => index.compact().map(|_| json!("ok")).map_err(|e| e.to_string()),
      o => Err(format!("unknown op {o}")),
    }
  });
  match r {
    Ok(Ok(v)) => v,
    Ok(Err(e)) => json!({"err": e}),
    Err(p) => json!({"panic": p}),
  }
}

/// drop error texts (they contain paths): {"err": msg} → "err"
pub fn canon(v: &Value) -> Value {
  if v.get("err").is_some() {
    json!("err")
  } else {
    v.clone()
  }
}

pub fn contents(index: &Index) -> Result<BTreeMap<String, String>, String> {
  let live = idx::live(index)?;
  Ok(live.into_iter().map(|(k, v)| (k, v["body"].as_str().unwrap_or("?").to_string())).collect())
}

pub fn prefill(index: &Index, case: &Value) -> Result<(), String> {
  for batch in case["prefill"].as_array().cloned().unwrap_or_default() {
    let docs: Vec<Value> = batch.as_array().cloned().unwrap_or_default();
    idx::add_commit(index, &docs)?;
  }
  Ok(())
}

fn gen_calls(rng: &mut Rng, t: usize, len: usize, ver: &mut usize) -> Vec<Value> {
  let mut calls = vec![json!({"op": "new"})];
  let mut queued = 0;
  for k in 0..len {
    let last = k + 1 == len;
    let r = rng.below(100);
    let c = if last && queued > 0 && r < 70 {
      json!({"op": "commit"})
    } else if r < 42 {
      *ver += 1;
      queued += 1;
      json!({"op": "add", "id": *rng.pick(&IDS), "body": format!("t{t}v{}", *ver), "valid": true})
    } else if r < 47 {
      json!({"op": "add", "id": "", "body": "bad", "valid": false})
    } else if r < 65 {
      queued += 1;
      let n = 1 + rng.below(2);
      let ids: Vec<&str> = (0..n).map(|_| *rng.pick(&IDS)).collect();
      json!({"op": "delete", "ids": ids})
    } else if r < 88 {
      queued = 0;
      json!({"op": "commit"})
    } else if r < 95 {
      queued = 0;
      json!({"op": "rollback"})
    } else {
      queued = 0;
      json!({"op": "new"})
    };
    calls.push(c);
  }
  calls
}

impl Prop for C05 {
  fn id(&self) -> &'static str {
    "C05"
  }
  fn rule(&self) -> &'static str {
    "case = (prefill of two commits, 2-4 writer threads with own handles running new/add/delete/commit/rollback lists over 5 ids, optional compaction thread, storage backend, schedule = round-robin | random | PCT priorities with 1-3 change points | one thread runs whole calls); every instrumented point (call begin, section enter, commit/compact stages, section exit) is a scheduling decision; non-trivial = the recorded enter order interleaves calls of at least two threads AND at least one thread was granted while another thread held the writer lock (real contention) AND at least one non-empty commit ran; distinct = distinct case JSON"
  }
  fn count(&self, tier: Tier) -> usize {
    tier.pick(110, 1200)
  }
  fn serial(&self) -> bool {
    true
  }
  fn gen(&self, rng: &mut Rng, tier: Tier, i: usize) -> Value {
    let nthreads = 2 + rng.below(3);
    let mut ver = 0usize;
    let maxlen = tier.pick(5, 8);
    let mut threads: Vec<Value> = Vec::new();
    for t in 0..nthreads {
      let len = 2 + rng.below(maxlen - 1);
      threads.push(json!(gen_calls(rng, t, len, &mut ver)));
    }
    let compactor = rng.chance(1, 2);
    if compactor {
      let n = 1 + rng.below(2);
      threads.push(json!((0..n).map(|_| json!({"op": "compact"})).collect::<Vec<_>>()));
    }
    let pre1: Vec<Value> = IDS.iter().take(3).map(|id| json!({"_id": id, "body": format!("p{id}")})).collect();
    let pre2: Vec<Value> = IDS.iter().skip(2).take(2).map(|id| json!({"_id": id, "body": format!("q{id}")})).collect();
    let total_calls: usize = threads.iter().map(|t| t.as_array().map(|a| a.len()).unwrap_or(0)).sum();
    let est_steps = total_calls * 4;
    let sched = match i % 4 {
      0 => json!({"kind": "rr", "seed": rng.below(8)}),
      1 => json!({"kind": "random", "seed": rng.next() >> 12}),
      _ => {
        let d = 1 + rng.below(3);
        let changes: Vec<usize> = (0..d).map(|_| rng.below(est_steps.max(1))).collect();
        json!({"kind": "pct", "seed": rng.next() >> 12, "changes": changes})
      }
    };
    json!({"mem": rng.chance(1, 6), "prefill": [pre1, pre2], "threads": threads, "sched": sched})
  }

  fn run_case(&self, drv: &mut Driver, case: &Value, s: &mut Summary) {
    let mem = case["mem"].as_bool().unwrap_or(false);
    let threads: Vec<Vec<Value>> = case["threads"].as_array().map(|a| a.iter().map(|t| t.as_array().cloned().unwrap_or_default()).collect()).unwrap_or_default();
    let n = threads.len();
    if n == 0 {
      return;
    }
    // ---- concurrent run ----
    let dir = scratch();
    let index = match idx::create(dir.path(), &schema_json(), mem) {
      Ok(i) => Arc::new(i),
      Err(e) => {
        s.fail("setup.create", "index creation failed", case, json!(e));
        return;
      }
    };
    if let Err(e) = prefill(&index, case) {
      s.fail("setup.prefill", "prefill failed", case, json!(e));
      return;
    }
    let before = contents(&index).unwrap_or_default();
    let bodies: Vec<sched::Body> = threads
      .iter()
      .cloned()
      .map(|calls| {
        let index = index.clone();
        let b: sched::Body = Box::new(move |ctx: &sched::Ctx| {
          let mut w: Option<IndexWriter> = None;
          let mut out = Vec::new();
          for (k, c) in calls.iter().enumerate() {
            ctx.begin(k, true, false);
            out.push(exec_call(&index, &mut w, c));
            ctx.end(k);
          }
          out
        });
        b
      })
      .collect();
    let strategy = Strategy::from_json(&case["sched"], n);
    let run = sched::run(dir.path(), strategy, Timing::default(), Box::new(|_t, _k, _n| true), None, bodies);
    s.count(&format!("sched_{}", case["sched"]["kind"].as_str().unwrap_or("rr")));
    s.count(if mem { "backend_memory" } else { "backend_filesystem" });
    s.count(&format!("threads_{n}"));
    s.add("scheduling_decisions", run.steps as u64);
    s.add("grants_blocked_on_held_lock", run.blocked_predicted as u64);
    s.add("deadline_missed_unpredicted", run.blocked_unpredicted as u64);
    s.add("trace_events", run.trace.len() as u64);
    if run.stuck {
      s.case(case, false);
      s.fail("sched.deadlock", "threads never reached their next point (dead-lock)", case, json!({"trace": run.trace.iter().map(|e| e.to_json()).collect::<Vec<_>>()}));
      return;
    }
    let results: Vec<Vec<Value>> = run.results.iter().map(|r| r.clone().unwrap_or_default()).collect();
    let order = sched::enter_order(&run.trace, n);
    let switches = order.windows(2).filter(|w| w[0].0 != w[1].0).count();
    let nonempty_commit = run.trace.iter().any(|e| e.name == "commit.after_publish");
    s.case(case, switches >= 2 && run.blocked_predicted >= 1 && nonempty_commit);
    for t in 0..n {
      for (k, r) in results[t].iter().enumerate() {
        if r.get("panic").is_some() {
          s.fail("call.panic", "a writer call panicked", case, json!({"thread": t, "call": k, "panic": r["panic"]}));
        }
        s.count(&format!("result_{}", if r.get("err").is_some() { "err" } else if r.get("panic").is_some() { "panic" } else { "ok" }));
      }
    }
    // trace shape: the k-th enter of a thread must be the section of its k-th call
    let total_calls: usize = threads.iter().map(|t| t.len()).sum();
    let mut shape_ok = order.len() == total_calls;
    for (i, (t, k)) in order.iter().enumerate() {
      let want = match threads[*t].get(*k).and_then(|c| c["op"].as_str()) {
        Some("new") => "writer.new",
        Some(o) => o,
        None => "?",
      };
      let got = run.trace.iter().filter(|e| e.kind == "enter").nth(i).map(|e| e.name.clone()).unwrap_or_default();
      if want != got {
        shape_ok = false;
      }
    }
    let trace_json: Vec<Value> = run.trace.iter().map(|e| e.to_json()).collect();
    let after = contents(&index);
    // ---- monitor + model serial execution (Lean) ----
    let pre_pairs: Vec<Value> = before.iter().map(|(k, v)| json!([k, v])).collect();
    let m = drv.call("C05", json!({"op": "serial", "trace": trace_json, "progs": case["threads"], "prefill": pre_pairs}));
    s.traces_validated += 1;
    if m["ok"] != json!(true) {
      s.disagree("driver", case, json!(null), m.clone());
      return;
    }
    if m["disjoint"] != json!(true) || m["fits"] != json!(true) || !shape_ok {
      let mm = drv.call("C05", json!({"op": "monitor", "trace": trace_json, "progs": case["threads"]}));
      s.disagree(
        "monitor.sectionsDisjoint",
        case,
        json!({"trace": trace_json, "shape_ok": shape_ok}),
        json!({"disjoint": m["disjoint"], "fits": m["fits"], "first_break": mm["first_break"], "theorem": "SL.C05.trace_serializable (hypothesis false on this trace)"}),
      );
    }
    let model_order: Vec<(usize, usize)> = m["order"].as_array().map(|a| a.iter().map(|p| (p[0].as_u64().unwrap_or(0) as usize, p[1].as_u64().unwrap_or(0) as usize)).collect()).unwrap_or_default();
    if model_order != order {
      s.disagree("enterOrder", case, json!(order), m["order"].clone());
    }
    if !mem && m["disjoint"] == json!(true) && m["fits"] == json!(true) {
      // results per call, contents
      let mres = m["results"].as_array().cloned().unwrap_or_default();
      let mut bad = Vec::new();
      for (i, (t, k)) in order.iter().enumerate() {
        let imp = results[*t].get(*k).map(canon).unwrap_or(json!(null));
        if mres.get(i) != Some(&imp) {
          bad.push(json!({"thread": t, "call": k, "impl": imp, "model": mres.get(i)}));
        }
      }
      let mut mc: Vec<(String, String)> = m["committed"].as_array().map(|a| a.iter().map(|p| (p[0].as_str().unwrap_or("").to_string(), p[1].as_str().unwrap_or("").to_string())).collect()).unwrap_or_default();
      mc.sort();
      let ic: Vec<(String, String)> = after.clone().unwrap_or_default().into_iter().collect();
      if !bad.is_empty() || mc != ic || after.is_err() {
        s.disagree("serial.model", case, json!({"results": bad, "contents": ic, "contents_err": after.clone().err(), "order": order}), json!({"contents": mc, "results": mres}));
      }
    }
    // ---- finder: implementation vs implementation ----
    let dir2 = scratch();
    let serial = (|| -> Result<(Vec<Vec<Value>>, BTreeMap<String, String>), String> {
      let index2 = idx::create(dir2.path(), &schema_json(), mem)?;
      prefill(&index2, case)?;
      let mut ws: Vec<Option<IndexWriter>> = (0..n).map(|_| None).collect();
      let mut res: Vec<Vec<Value>> = vec![Vec::new(); n];
      for (t, k) in order.iter() {
        let c = threads[*t].get(*k).ok_or("order names a call that does not exist")?;
        let r = exec_call(&index2, &mut ws[*t], c);
        res[*t].push(r);
      }
      drop(ws);
      let c = contents(&index2)?;
      Ok((res, c))
    })();
    match (&serial, &after) {
      (Ok((sres, scont)), Ok(cont)) => {
        let mut bad = Vec::new();
        for t in 0..n {
          for k in 0..threads[t].len() {
            let a = results[t].get(k).map(canon);
            let b = sres[t].get(k).map(canon);
            if a != b {
              bad.push(json!({"thread": t, "call": k, "op": threads[t][k]["op"], "concurrent": a, "serial": b}));
            }
          }
        }
        if !bad.is_empty() {
          s.fail("serial.result-mismatch", "a call returned a different result than in the serial execution in enter order", case, json!({"calls": bad, "order": order}));
        }
        if scont != cont {
          s.fail("serial.contents-mismatch", "final contents differ from the serial execution in enter order", case, json!({"concurrent": cont, "serial": scont, "order": order}));
        }
      }
      (Err(e), _) => s.fail("serial.replay-failed", "serial re-execution failed", case, json!(e)),
      (_, Err(e)) => s.fail("final.reader-failed", "fresh reader after the concurrent run failed", case, json!(e)),
    }
    // the index stays openable (filesystem: from disk)
    if !mem {
      drop(index);
      match idx::open(dir.path()).and_then(|i| contents(&i)) {
        Ok(c) => {
          if let Ok(cont) = &after {
            if &c != cont {
              s.fail("reopen.contents-mismatch", "contents after reopening from disk differ from the in-process contents", case, json!({"reopened": c, "in_process": cont}));
            }
          }
        }
        Err(e) => s.fail("reopen.failed", "index does not reopen after the concurrent run", case, json!(e)),
      }
    }
  }
  fn finish(&self, _tier: Tier, s: &mut Summary) {
    s.exhaustive = false;
    s.notes.push("not covered: shared state touched outside any section (IndexWriter::drop syncs the log without the lock), memory-model effects; in-memory backend: monitor + implementation-vs-implementation only (its per-handle log positions are not modelled)".into());
  }
}
