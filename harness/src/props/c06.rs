//! C06 — readers see one consistent snapshot during commits and compaction.
//!
//! Threads of a case: compaction(s), committing writer(s), reader(s), scheduled by an explicit
//! script over the relevant pause points (quick tier: every merge of one reader's open steps
//! with one compaction and one commit, both lock orders).
//!  * finder (implementation alone): `Index::reader()` must succeed; the reader's contents equal
//!    one committed state (states taken from a serial re-execution with the real code) that is
//!    compatible with the recorded order; a reader opened before the changes and every reader
//!    opened during them returns the same contents when searched again after all changes.
//!  * correspondence: the recorded schedule, translated to `SL.Snap` steps (copy/open,
//!    create/publish/unlink with the segment ids of the manifests captured at the publish
//!    points), is run through the Lean model: predicted open outcome and copied manifest must
//!    equal the implementation's; the monitored hypothesis `legalFrom` (schedule of the repaired
//!    protocol: no publish inside a reader's window, i.e. the manifest read guard is held until
//!    the last segment is open) must hold — it is the hypothesis of `reader_open_succeeds`.
use super::c05::sched::{self, Ev, Strategy, Timing};
use super::c05::{contents, exec_call, prefill, schema_json, IDS};
use crate::idx;
use crate::proto::Driver;
use crate::rng::Rng;
use crate::summary::Summary;
use crate::util::{guarded, scratch};
use crate::{Prop, Tier};
use searchlite_core::api::writer::IndexWriter;
use searchlite_core::api::{Index, IndexReader};
use serde_json::{json, Value};
use std::collections::BTreeMap;
use std::sync::{Arc, Mutex};

pub struct C06;
pub static P: C06 = C06;

/// committed states of a serial re-execution, by (backend, prefill, calls, section order)
static STATES: Mutex<BTreeMap<String, Vec<BTreeMap<String, String>>>> = Mutex::new(BTreeMap::new());

fn manifest_json(index: &Index) -> Value {
  let m = index.manifest();
  json!(m.segments.iter().map(|s| json!([s.id, format!("{:?}", s.deleted_docs)])).collect::<Vec<_>>())
}

fn reader_manifest_json(r: &IndexReader) -> Value {
  json!(r.manifest.segments.iter().map(|s| json!([s.id, format!("{:?}", s.deleted_docs)])).collect::<Vec<_>>())
}

fn reader_contents(r: &IndexReader) -> Result<BTreeMap<String, String>, String> {
  let req = json!({"query": {"type": "match_all"}, "limit": 100000, "return_stored": true, "execution": "bm25"});
  match idx::search(r, &req) {
    idx::Outcome::Ok(v) => {
      let mut out = BTreeMap::new();
      for h in v["hits"].as_array().cloned().unwrap_or_default() {
        let id = h["doc_id"].as_str().unwrap_or("").to_string();
        if out.insert(id.clone(), h["fields"]["body"].as_str().unwrap_or("?").to_string()).is_some() {
          return Err(format!("duplicate live id {id}"));
        }
      }
      Ok(out)
    }
    idx::Outcome::Err(e) => Err(format!("search: {e}")),
    idx::Outcome::Panic(e) => Err(format!("panic: {e}")),
  }
}

fn is_queue_op(c: &Value) -> bool {
  matches!(c["op"].as_str(), Some("add") | Some("delete"))
}
fn is_section_thread(calls: &[Value]) -> bool {
  calls.iter().any(is_section_op)
}
fn is_section_op(c: &Value) -> bool {
  matches!(c["op"].as_str(), Some("add") | Some("delete") | Some("commit") | Some("compact") | Some("rollback"))
}

/// the leading add/delete calls of a writer thread are queued before the scheduled run
fn split_calls(calls: &[Value]) -> (Vec<Value>, Vec<Value>) {
  let k = calls.iter().position(|c| !is_queue_op(c)).unwrap_or(calls.len());
  (calls[..k].to_vec(), calls[k..].to_vec())
}

fn names(m: &Value) -> Vec<String> {
  m.as_array().map(|a| a.iter().map(|e| e[0].as_str().unwrap_or("").to_string()).collect()).unwrap_or_default()
}

fn gen_queued(rng: &mut Rng) -> Vec<Value> {
  // touches old segments (upsert + delete → tombstones) and adds a new id
  let mut v = vec![json!({"op": "add", "id": "n", "body": "new"}), json!({"op": "add", "id": *rng.pick(&IDS), "body": "upd"}), json!({"op": "delete", "ids": [*rng.pick(&IDS)]})];
  rng.shuffle(&mut v);
  v
}

/// all (p1 <= p2 <= p3) over 0..=8, index k
fn combo(k: usize) -> (usize, usize, usize) {
  let mut i = 0;
  for a in 0..=8 {
    for b in a..=8 {
      for c in b..=8 {
        if i == k {
          return (a, b, c);
        }
        i += 1;
      }
    }
  }
  (0, 0, 0)
}
const COMBOS: usize = 165;
/// read-pause cases: k = 1..=KMAX per writer kind; k beyond the number of storage reads of a
/// reader open (measured on the first such case) are skipped
const KMAX: usize = 32;
/// number of storage reads of one `IndexReader::open` on the prefilled index (filesystem)
static N_READS: Mutex<Option<usize>> = Mutex::new(None);

impl Prop for C06 {
  fn id(&self) -> &'static str {
    "C06"
  }
  fn rule(&self) -> &'static str {
    "quick: index with two prefilled segments; threads = one compaction, one commit (an add, an upsert and a delete queued beforehand, so old segments get tombstones and a segment is added), one reader open+search; ALL merges of the reader's steps (manifest copy, each segment open) with the writer-side steps (compaction: lock, segment written, published, old files removed, done; commit: lock, published, done) in both lock orders = 2 x 165 scripts, alternating filesystem / in-memory storage in thorough and every third case in quick; PLUS storage-read pause points (hook H1, filesystem): for k = 1..n (n = number of storage reads of one reader open, measured) the reader is paused right before its k-th open_read/read_to_end, a compaction (even cases) or a commit (odd cases) runs to completion or until it blocks on the manifest lock, then the reader resumes - this covers the time after the instrumented reader points, e.g. after the manifest read guard is released; thorough adds random scripts with two readers, two compactions and two commits. non-trivial = a writer section starts, publishes or cleans up between the reader's call begin and call end, or a writer thread was blocked (writer lock / manifest write lock behind the reader's read guard) during the run; distinct = distinct case JSON"
  }
  fn count(&self, tier: Tier) -> usize {
    tier.pick(2 * COMBOS + 2 * KMAX, 4 * COMBOS + 2 * KMAX + 600)
  }
  fn serial(&self) -> bool {
    true
  }
  fn gen(&self, rng: &mut Rng, tier: Tier, i: usize) -> Value {
    let pre1: Vec<Value> = IDS.iter().take(3).map(|id| json!({"_id": id, "body": format!("p{id}")})).collect();
    let pre2: Vec<Value> = IDS.iter().skip(2).take(3).map(|id| json!({"_id": id, "body": format!("q{id}")})).collect();
    let enumerated = tier.pick(2, 4) * COMBOS;
    if i >= enumerated && i < enumerated + 2 * KMAX {
      // storage-read pause points (hook H1, filesystem): the reader pauses right before its k-th
      // storage read; the writer (compaction for even, commit for odd cases) then runs to
      // completion or until it blocks on the manifest lock; then the reader resumes
      let j = i - enumerated;
      let k = j / 2 + 1;
      let w_calls = if j % 2 == 0 {
        vec![json!({"op": "compact"})]
      } else {
        let mut c = gen_queued(rng);
        c.push(json!({"op": "commit"}));
        c
      };
      let script = vec![1, 0, 0, 0, 0, 0, 0, 1, 1, 1];
      return json!({"mem": false, "prefill": [pre1, pre2], "threads": [w_calls, [{"op": "open"}]], "read_pause": {"thread": 1, "k": k}, "sched": {"kind": "script", "script": script}});
    }
    if i < enumerated {
      // enumerated: threads 0 = compaction, 1 = commit, 2 = reader
      let block = i / COMBOS;
      let kc = block % 2 == 0;
      let mem = if tier == Tier::Quick { i % 3 == 2 } else { block >= 2 };
      let (p1, p2, p3) = combo(i % COMBOS);
      let w: Vec<usize> = if kc { vec![0, 0, 0, 0, 0, 1, 1, 1] } else { vec![1, 1, 1, 0, 0, 0, 0, 0] };
      let mut script = Vec::new();
      for slot in 0..=8 {
        if slot == p1 {
          script.push(2);
          script.push(2);
        }
        if slot == p2 {
          script.push(2);
        }
        if slot == p3 {
          script.push(2);
        }
        if slot < 8 {
          script.push(w[slot]);
        }
      }
      let mut c_calls = gen_queued(rng);
      c_calls.push(json!({"op": "commit"}));
      return json!({"mem": mem, "prefill": [pre1, pre2], "threads": [[{"op": "compact"}], c_calls, [{"op": "open"}]], "sched": {"kind": "script", "script": script}});
    }
    // random: two readers, compaction twice, two commits
    let mut c1 = gen_queued(rng);
    c1.push(json!({"op": "commit"}));
    c1.push(json!({"op": "add", "id": *rng.pick(&IDS), "body": "second"}));
    c1.push(json!({"op": "commit"}));
    let threads = json!([[{"op": "compact"}, {"op": "compact"}], c1, [{"op": "open"}], [{"op": "open"}, {"op": "open"}]]);
    let script: Vec<usize> = (0..40).map(|_| rng.below(4)).collect();
    json!({"mem": rng.chance(1, 2), "prefill": [pre1, pre2], "threads": threads, "sched": {"kind": "script", "script": script}})
  }

  fn run_case(&self, drv: &mut Driver, case: &Value, s: &mut Summary) {
    let mem = case["mem"].as_bool().unwrap_or(false);
    let threads: Vec<Vec<Value>> = case["threads"].as_array().map(|a| a.iter().map(|t| t.as_array().cloned().unwrap_or_default()).collect()).unwrap_or_default();
    let n = threads.len();
    if n == 0 {
      return;
    }
    let read_pause: Option<sched::FsPause> = case.get("read_pause").map(|p| sched::FsPause { thread: p["thread"].as_u64().unwrap_or(0) as usize, k: p["k"].as_u64().unwrap_or(0) as usize });
    if let (Some(p), Some(nr)) = (read_pause, *N_READS.lock().unwrap()) {
      if p.k > nr {
        s.case(case, false);
        s.count("read_pause_beyond_last_read");
        return;
      }
    }
    let dir = scratch();
    let index = match idx::create(dir.path(), &schema_json(), mem) {
      Ok(i) => Arc::new(i),
      Err(e) => {
        s.fail("setup.create", "index creation failed", case, json!(e));
        return;
      }
    };
    if let Err(e) = prefill(&index, case) {
      s.fail("setup.prefill", "prefill failed", case, json!(e));
      return;
    }
    let m0 = manifest_json(&index);
    // reader opened before any change
    let pre_reader = match index.reader() {
      Ok(r) => r,
      Err(e) => {
        s.fail("setup.reader", "reader before the run failed", case, json!(e.to_string()));
        return;
      }
    };
    let s0 = match reader_contents(&pre_reader) {
      Ok(c) => c,
      Err(e) => {
        s.fail("setup.search", "search before the run failed", case, json!(e));
        return;
      }
    };
    // writer handles + queued operations, before the scheduled run
    let is_writer: Vec<bool> = threads.iter().map(|t| t.iter().any(|c| matches!(c["op"].as_str(), Some("add") | Some("delete") | Some("commit") | Some("rollback")))).collect();
    let is_reader: Vec<bool> = threads.iter().map(|t| t.iter().any(|c| c["op"] == "open")).collect();
    let mut handles: Vec<Option<IndexWriter>> = Vec::new();
    let mut scheduled: Vec<Vec<Value>> = Vec::new();
    for t in 0..n {
      let (pre, rest) = split_calls(&threads[t]);
      let mut w = if is_writer[t] { index.writer().ok() } else { None };
      for c in &pre {
        let r = exec_call(&index, &mut w, c);
        if r.get("err").is_some() || r.get("panic").is_some() {
          s.fail("setup.queue", "queueing before the run failed", case, r);
          return;
        }
      }
      handles.push(w);
      scheduled.push(rest);
    }
    let readers: Arc<Mutex<Vec<(usize, usize, IndexReader)>>> = Arc::new(Mutex::new(Vec::new()));
    let bodies: Vec<sched::Body> = (0..n)
      .map(|t| {
        let calls = scheduled[t].clone();
        let index = index.clone();
        let mut w = handles[t].take();
        let readers = readers.clone();
        let b: sched::Body = Box::new(move |ctx: &sched::Ctx| {
          let mut out = Vec::new();
          for (k, c) in calls.iter().enumerate() {
            if c["op"] == "open" {
              ctx.begin(k, false, true);
              let r = ctx.count_reads(|| guarded(|| index.reader()));
              let v = match r {
                Ok(Ok(reader)) => {
                  let m = reader_manifest_json(&reader);
                  let cont = reader_contents(&reader);
                  readers.lock().unwrap().push((ctx.tid, k, reader));
                  match cont {
                    Ok(c) => json!({"open": "ok", "manifest": m, "contents": c}),
                    Err(e) => json!({"open": "ok", "manifest": m, "search_error": e}),
                  }
                }
                Ok(Err(e)) => json!({"open": "err", "error": e.to_string()}),
                Err(p) => json!({"open": "panic", "error": p}),
              };
              out.push(v);
              ctx.end(k);
            } else {
              ctx.begin(k, true, false);
              out.push(exec_call(&index, &mut w, c));
              ctx.end(k);
            }
          }
          out
        });
        b
      })
      .collect();
    let isw = is_writer.clone();
    let isr = is_reader.clone();
    let fs_case = read_pause.is_some();
    let pauses: sched::Pauses = Box::new(move |t, kind, name| {
      if name.starts_with("call.begin") {
        return true;
      }
      if name == "storage.read" {
        return true;
      }
      if isr[t] && !fs_case && (name == "reader.after_manifest_copy" || name == "reader.before_segment_open") {
        return true;
      }
      if kind == "enter" {
        return true;
      }
      let _ = &isw;
      matches!(name, "compact.after_segment" | "compact.before_cleanup" | "compact.after_cleanup" | "commit.after_publish")
    });
    let idx2 = index.clone();
    let on_point: sched::OnPoint = Box::new(move |_t, _kind, name| if name == "commit.after_publish" || name == "compact.before_cleanup" { Some(manifest_json(&idx2)) } else { None });
    let strategy = Strategy::from_json(&case["sched"], n);
    let run = sched::run_fs(dir.path(), strategy, Timing::default(), pauses, Some(on_point), read_pause, bodies);
    if let Some(p) = read_pause {
      let nr = run.fs_reads.get(p.thread).copied().unwrap_or(0);
      let mut g = N_READS.lock().unwrap();
      *g = Some(g.unwrap_or(0).max(nr));
      s.count("read_pause_cases");
      if run.trace.iter().any(|e| e.name == "storage.read") {
        s.count("read_pause_hit");
      }
    }
    s.count(if mem { "backend_memory" } else { "backend_filesystem" });
    s.add("scheduling_decisions", run.steps as u64);
    s.add("grants_blocked_on_held_lock", run.blocked_predicted as u64);
    s.add("deadline_missed_unpredicted", run.blocked_unpredicted as u64);
    if run.stuck {
      s.case(case, false);
      s.fail("sched.deadlock", "threads never reached their next point (dead-lock)", case, json!({"trace": run.trace.iter().map(|e| e.to_json()).collect::<Vec<_>>()}));
      return;
    }
    let tr: &Vec<Ev> = &run.trace;
    let results: Vec<Vec<Value>> = run.results.iter().map(|r| r.clone().unwrap_or_default()).collect();
    let pos = |t: usize, name: &str, from: usize| -> Option<usize> { (from..tr.len()).find(|i| tr[*i].thread == t && tr[*i].name == name) };
    let trace_json: Vec<Value> = tr.iter().map(|e| e.to_json()).collect();

    // ---- committed states: serial re-execution (real code) of the sections in enter order ----
    let order = sched::enter_order(tr, n);
    let sec_calls: Vec<Vec<Value>> = scheduled.iter().map(|cs| cs.iter().filter(|c| is_section_op(c)).cloned().collect()).collect();
    // the committed states depend only on (backend, prefill, calls, section order): memoised
    let memo_key = json!([mem, case["prefill"], case["threads"], order]).to_string();
    let cached = STATES.lock().unwrap().get(&memo_key).cloned();
    let dir2 = scratch();
    let states = cached.map(Ok).unwrap_or_else(|| -> Result<Vec<BTreeMap<String, String>>, String> {
      let index2 = idx::create(dir2.path(), &schema_json(), mem)?;
      prefill(&index2, case)?;
      let mut states = vec![contents(&index2)?];
      let mut ws: Vec<Option<IndexWriter>> = Vec::new();
      for t in 0..n {
        let (pre, _) = split_calls(&threads[t]);
        let mut w = if is_writer[t] { index2.writer().ok() } else { None };
        for c in &pre {
          exec_call(&index2, &mut w, c);
        }
        ws.push(w);
      }
      for (t, k) in order.iter() {
        let c = sec_calls[*t].get(*k).ok_or("enter event without a call")?;
        let r = exec_call(&index2, &mut ws[*t], c);
        if r.get("err").is_some() || r.get("panic").is_some() {
          return Err(format!("serial call failed: {r}"));
        }
        if c["op"] == "commit" || c["op"] == "compact" {
          states.push(contents(&index2)?);
        }
      }
      Ok(states)
    });
    let states = match states {
      Ok(st) => {
        STATES.lock().unwrap().insert(memo_key, st.clone());
        st
      }
      Err(e) => {
        s.case(case, false);
        s.fail("serial.replay-failed", "serial re-execution failed", case, json!(e));
        return;
      }
    };
    if states[0] != s0 {
      s.fail("setup.state0", "prefill contents differ between two fresh indexes", case, json!({"a": s0, "b": states[0]}));
    }
    // publish sections in trace order: (enter index, publish-complete index)
    let mut pubs: Vec<(usize, usize)> = Vec::new();
    {
      let mut next = vec![0usize; n];
      for (i, e) in tr.iter().enumerate() {
        if e.kind == "enter" {
          let k = next[e.thread];
          next[e.thread] += 1;
          let op = sec_calls[e.thread].get(k).map(|c| c["op"].as_str().unwrap_or("").to_string()).unwrap_or_default();
          if op == "commit" || op == "compact" {
            // complete when the section's exit is recorded
            let exit = (i..tr.len()).find(|j| tr[*j].thread == e.thread && tr[*j].kind == "exit").unwrap_or(tr.len());
            pubs.push((i, exit));
          }
        }
      }
    }
    // writer-side calls must all succeed
    for t in 0..n {
      for (k, r) in results[t].iter().enumerate() {
        if scheduled[t][k]["op"] != "open" && (r.get("err").is_some() || r.get("panic").is_some()) {
          s.fail("writer.call-failed", "a commit/compaction failed during the run", case, json!({"thread": t, "call": k, "result": r}));
        }
      }
    }

    // ---- per reader open: finder + correspondence ----
    let mut nontrivial = false;
    for t in 0..n {
      let mut from = 0usize;
      for (k, c) in scheduled[t].iter().enumerate() {
        if c["op"] != "open" {
          continue;
        }
        let begin = match pos(t, &format!("call.begin:{k}"), from) {
          Some(b) => b,
          None => continue,
        };
        let end = pos(t, &format!("call.end:{k}"), begin).unwrap_or(tr.len());
        from = end;
        let copy = (begin..end).find(|i| tr[*i].thread == t && tr[*i].name == "reader.after_manifest_copy");
        let res = results[t].get(k).cloned().unwrap_or(json!(null));
        // a writer section started, published or cleaned up during this reader's call, or a writer
        // was parked behind this reader's manifest read guard
        let others_inside = (begin..end).any(|i| tr[i].thread != t && (tr[i].kind == "enter" || matches!(tr[i].name.as_str(), "commit.after_publish" | "compact.after_segment" | "compact.before_cleanup" | "compact.after_cleanup")))
          || (0..n).any(|u| u != t && run.was_blocked[u] && is_section_thread(&scheduled[u]));
        nontrivial |= others_inside;
        s.count(if res["open"] == "ok" { "open_ok" } else { "open_failed" });
        // -- finder --
        if res["open"] != "ok" {
          // classify: a compaction removed its old files inside this reader's open window, and the
          // reader had copied the manifest before that compaction published
          let err = res["error"].as_str().unwrap_or("");
          let missing = err.contains("No such file") || err.contains("missing in memory storage");
          let mut by_cleanup = false;
          if let Some(cp) = copy {
            for u in 0..n {
              let mut f = 0;
              while let Some(bc) = pos(u, "compact.before_cleanup", f) {
                let ac = pos(u, "compact.after_cleanup", bc).unwrap_or(tr.len());
                if cp < bc && bc < end && ac > cp {
                  by_cleanup = true;
                }
                f = bc + 1;
              }
            }
          }
          if missing && by_cleanup {
            s.fail("reader.open-vs-compact-cleanup", "IndexReader::open failed with a missing segment file: it copied the manifest, a concurrent compaction published and removed the old segment files, then the reader tried to open them", case, json!({"thread": t, "call": k, "error": err, "trace": trace_json}));
          } else {
            s.fail("reader.open-failed", "IndexReader::open failed during concurrent commits/compactions", case, json!({"thread": t, "call": k, "error": err, "missing_file": missing, "trace": trace_json}));
          }
        } else if let Some(e) = res.get("search_error") {
          s.fail("reader.search-failed", "search on a freshly opened reader failed", case, json!({"thread": t, "call": k, "error": e}));
        } else {
          let cont: BTreeMap<String, String> = serde_json::from_value(res["contents"].clone()).unwrap_or_default();
          let lo = pubs.iter().filter(|(_, done)| *done < begin).count();
          let hi = pubs.iter().filter(|(enter, _)| copy.map(|cp| *enter < cp).unwrap_or(true)).count();
          let any = states.iter().any(|st| *st == cont);
          let in_range = (lo..=hi.min(states.len() - 1)).any(|j| states[j] == cont);
          if !any {
            s.fail("reader.mixed-state", "a reader's contents equal no committed state", case, json!({"thread": t, "call": k, "contents": cont, "states": states}));
          } else if !in_range {
            s.fail("reader.wrong-state", "a reader's contents equal a committed state that was not in force while it opened", case, json!({"thread": t, "call": k, "contents": cont, "states": states, "lo": lo, "hi": hi}));
          }
        }
        // -- correspondence with the model --
        if run.blocked_unpredicted == 0 {
          let mut steps: Vec<Value> = Vec::new();
          let mut cur = m0.clone();
          let mut pending_open = false;
          let mut consumed: Vec<usize> = Vec::new();
          let mut reordered = false;
          for (i, e) in tr.iter().enumerate() {
            if e.thread == t {
              // a storage read after `reader.before_segment_open` belongs to that open step
              if e.name == "storage.read" {
                continue;
              }
              if i > begin && i <= end && pending_open {
                steps.push(json!(["rd"]));
                pending_open = false;
              }
              if i > begin && i < end {
                if e.name == "reader.after_manifest_copy" {
                  // A commit swaps the manifest under the write guard, releases it and only then
                  // reports `commit.after_publish`.  A reader that was parked behind that writer is
                  // released by the guard drop and may report its copy BEFORE the committer reports
                  // the publish, although it copied the NEW manifest.  The trace order of these two
                  // reports is a race between two released threads; when the copy is recorded inside
                  // a committer's swap interval (after its `commit.after_marker`, before its
                  // `commit.after_publish`) the order is taken from what the reader actually copied.
                  let racing = (i + 1..tr.len()).find(|j| {
                    let f = &tr[*j];
                    f.thread != t
                      && f.name == "commit.after_publish"
                      && !consumed.contains(j)
                      && (0..i).rev().find(|q| tr[*q].thread == f.thread).map(|q| tr[q].name == "commit.after_marker").unwrap_or(false)
                      && f.data.is_some()
                      && f.data.as_ref() == res.get("manifest")
                  });
                  if let Some(j) = racing {
                    let m = tr[j].data.clone().unwrap();
                    for nm in names(&m) {
                      if !names(&cur).contains(&nm) {
                        steps.push(json!(["create", nm]));
                      }
                    }
                    steps.push(json!(["publish", m]));
                    cur = m;
                    consumed.push(j);
                    reordered = true;
                  }
                  steps.push(json!(["rd"]));
                } else if e.name == "reader.before_segment_open" {
                  pending_open = true;
                }
              }
              continue;
            }
            // A publish recorded while this reader was in the middle of a granted step (not waiting
            // at a pause point): in a run without missed deadlines only one thread runs at a time,
            // except a thread that was blocked on a lock and is released by the running one — here
            // the publisher was waiting for the manifest write lock behind this reader's read
            // guard, so the reader's in-flight open came first.
            if pending_open && i > begin && i < end && !e.paused.get(t).copied().unwrap_or(true) && matches!(e.name.as_str(), "commit.after_publish" | "compact.after_segment") {
              steps.push(json!(["rd"]));
              pending_open = false;
            }
            match e.name.as_str() {
              "commit.after_publish" if consumed.contains(&i) => {}
              "commit.after_publish" => {
                if let Some(m) = &e.data {
                  for nm in names(m) {
                    if !names(&cur).contains(&nm) {
                      steps.push(json!(["create", nm]));
                    }
                  }
                  steps.push(json!(["publish", m]));
                  cur = m.clone();
                }
              }
              "compact.after_segment" => {
                // the swap happens under the manifest write lock taken before this point; the
                // manifest itself is captured at the following `compact.before_cleanup`
                let m = (i..tr.len()).find(|j| tr[*j].thread == e.thread && tr[*j].name == "compact.before_cleanup").and_then(|j| tr[j].data.clone());
                if let Some(m) = m {
                  for nm in names(&m) {
                    steps.push(json!(["create", nm]));
                  }
                  steps.push(json!(["publish", m]));
                  // remember what will be unlinked
                  steps.push(json!(["_old", names(&cur)]));
                  cur = m;
                }
              }
              "compact.after_cleanup" => {
                // unlink what the last `_old` marker of this walk recorded
                if let Some(p) = steps.iter().rposition(|x| x[0] == "_old") {
                  let old = steps[p][1].as_array().cloned().unwrap_or_default();
                  steps[p] = json!(["_done"]);
                  for nm in old {
                    steps.push(json!(["unlink", nm]));
                  }
                }
              }
              _ => {}
            }
          }
          if reordered {
            s.count("copy_vs_commit_publish_order_from_observation");
          }
          let steps: Vec<Value> = steps.into_iter().filter(|x| x[0] != "_old" && x[0] != "_done").collect();
          let m = drv.call("C06", json!({"op": "open", "dir": names(&m0), "manifest": m0, "steps": steps}));
          s.traces_validated += 1;
          if m["ok"] != json!(true) {
            s.disagree("driver", case, json!(null), m.clone());
          } else {
            s.count(if m["protected"] == json!(true) { "monitor_window_protected" } else { "monitor_window_unprotected" });
            s.count(if m["legal"] == json!(true) { "monitor_protocol_legal" } else { "monitor_protocol_illegal" });
            if m["legal"] != json!(true) {
              // monitored hypothesis of SL.C06.reader_open_succeeds: the recorded schedule is not a
              // schedule of the repaired protocol (a publish fell into the reader's open window, or
              // a file of the manifest in force was removed)
              s.disagree("monitor.legalFrom", case, json!({"thread": t, "call": k, "steps": steps, "trace": trace_json}), json!({"legal": false, "protected": m["protected"], "theorem": "SL.C06.reader_open_succeeds (hypothesis legalFrom false on this schedule)"}));
            }
            let impl_failed = res["open"] != "ok";
            let model_failed = m["failed"] == json!(true);
            let copied_ok = impl_failed || m["copied"] == res["manifest"];
            if impl_failed != model_failed || !copied_ok || (m["protected"] == json!(true) && impl_failed) {
              s.disagree("reader.open.model", case, json!({"thread": t, "call": k, "open": res["open"], "error": res["error"], "manifest": res["manifest"], "steps": steps, "trace": trace_json}), m.clone());
            }
          }
        } else {
          s.count("correspondence_skipped_timing");
        }
      }
    }
    s.case(case, nontrivial);
    // ---- snapshot stability: search the old readers again after all changes ----
    match reader_contents(&pre_reader) {
      Ok(c) => {
        if c != s0 {
          s.fail("reader.snapshot-changed", "a reader opened before the changes returns different results afterwards", case, json!({"before": s0, "after": c}));
        }
      }
      Err(e) => s.fail("reader.search-failed-after-change", "a reader opened before the changes fails afterwards", case, json!(e)),
    }
    for (t, k, r) in readers.lock().unwrap().iter() {
      let first: Option<BTreeMap<String, String>> = results[*t].get(*k).and_then(|v| serde_json::from_value(v["contents"].clone()).ok());
      match (reader_contents(r), first) {
        (Ok(c), Some(f)) => {
          if c != f {
            s.fail("reader.snapshot-changed", "a reader opened during the changes returns different results afterwards", case, json!({"thread": t, "call": k, "first": f, "again": c}));
          }
        }
        (Err(e), _) => s.fail("reader.search-failed-after-change", "a reader opened during the changes fails afterwards", case, json!({"thread": t, "call": k, "error": e})),
        _ => {}
      }
    }
    // final contents = last committed state
    match contents(&index) {
      Ok(c) => {
        if Some(&c) != states.last() {
          s.fail("final.contents-mismatch", "final contents differ from the serial execution", case, json!({"concurrent": c, "serial": states.last()}));
        }
      }
      Err(e) => s.fail("final.reader-failed", "fresh reader after the run failed", case, json!(e)),
    }
  }
  fn finish(&self, tier: Tier, s: &mut Summary) {
    s.exhaustive = tier == Tier::Quick || tier == Tier::Thorough;
    if let Some(nr) = *N_READS.lock().unwrap() {
      s.notes.push(format!("storage-read pause points: a reader open performs {nr} storage reads on the prefilled index; k = 1..={nr} each against a compaction and against a commit"));
    }
    s.notes.push("exhaustive over the merges of one reader's steps with one compaction and one commit at the instrumented points (both lock orders); not over timing inside a step".into());
  }
}
