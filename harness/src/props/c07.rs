//! C07 — query matching follows the documented query semantics.
//!
//! Per case: a random schema (text fields with default / custom analyzers, keyword and i64
//! fields), a corpus built through 1–4 commits with deletions and upserts, one random query tree
//! (+ optional root filter / `fields` / `fuzzy`).  The real `IndexReader::search` is run with
//! `execution: bm25` and a limit above the corpus size.
//!
//! * correspondence (`s.disagree`): hit-id set vs the mechanism model `SL.Query.search`
//!   (planner → expansion against the per-segment dictionaries → candidates from scored
//!   postings or full scan → matcher → root filter → tombstones), on the segment layout read
//!   from the real manifest; the query-string parser is compared separately.
//! * finder (`s.fail`): hit-id set vs `SL.Query.Spec.matchesQ` (documented boolean semantics)
//!   evaluated on the live documents of the *history* (last operation per id wins); the
//!   known-finding predicate "the missing document contains no scored term of the request" is
//!   evaluated on each failing document.
//!
//! Analyzers and the regex engine are not modelled: the harness calls the real
//! `SchemaAnalyzers::{index,search}_analyzer(..).analyze`, `normalize_pattern` and
//! `util::regex::anchored_regex` and ships their outputs to the model.
use crate::idx::{self, Outcome};
use crate::proto::Driver;
use crate::rng::Rng;
use crate::summary::Summary;
use crate::util::scratch;
use crate::{Prop, Tier};
use searchlite_core::api::Index;
use serde_json::{json, Map, Value};
use std::collections::{BTreeMap, BTreeSet};

pub struct C07;
pub static P: C07 = C07;

/// word families: every scored leaf of a generated query draws from its own family, so that no
/// term key is shared by two scoring leaves (that trips a `debug_assert` in `search_segment`,
/// which belongs to C16)
const FAMILIES: [&[&str]; 7] = [
  &["rust", "rusty", "rusts"],
  &["search", "searching"],
  &["engine", "engines"],
  &["fast", "faster"],
  &["lite"],
  &["index"],
  &["the"],
];
const TAGS: [&str; 4] = ["News", "tech", "Rust", "misc"];

fn all_words() -> Vec<&'static str> {
  FAMILIES.iter().flat_map(|f| f.iter().copied()).collect()
}

// ---------------------------------------------------------------- generator

struct Gen<'a> {
  rng: &'a mut Rng,
  text_fields: Vec<String>,
  kw_fields: Vec<String>,
  has_year: bool,
  free: Vec<usize>, // families not yet used by a scored leaf
  free_tags: Vec<usize>, // tag values not yet used by a scored keyword term
  kinds: BTreeSet<String>,
}

impl<'a> Gen<'a> {
  fn word(&mut self) -> String {
    let w = *self.rng.pick(&all_words());
    self.case(w)
  }
  fn case(&mut self, w: &str) -> String {
    // occasional capitalisation (exercises lowercase filters / case-sensitive whitespace analyzers)
    if self.rng.chance(1, 6) {
      let mut c = w.chars();
      match c.next() {
        Some(f) => f.to_uppercase().collect::<String>() + c.as_str(),
        None => String::new(),
      }
    } else {
      w.to_string()
    }
  }
  /// a word for a leaf; scored leaves take a fresh family
  fn leaf_family(&mut self, scored: bool) -> Option<usize> {
    if scored {
      if self.free.is_empty() {
        // all families used: repeat one (the same term key then feeds two scoring clauses)
        return Some(self.rng.below(FAMILIES.len()));
      }
      let k = self.rng.below(self.free.len());
      Some(self.free.swap_remove(k))
    } else {
      Some(self.rng.below(FAMILIES.len()))
    }
  }
  fn fam_word(&mut self, fam: usize) -> String {
    let w = *self.rng.pick(FAMILIES[fam]);
    self.case(w)
  }
  fn text_field(&mut self) -> String {
    self.rng.pick(&self.text_fields).clone()
  }
  fn filter(&mut self, depth: usize) -> Value {
    let n = if depth == 0 { 3 } else { 6 };
    match self.rng.below(n) {
      0 if !self.kw_fields.is_empty() => {
        let f = self.rng.pick(&self.kw_fields).clone();
        let v = self.tag_value();
        json!({"KeywordEq": {"field": f, "value": v}})
      }
      1 if !self.kw_fields.is_empty() => {
        let f = self.rng.pick(&self.kw_fields).clone();
        let vs: Vec<String> = (0..1 + self.rng.below(2)).map(|_| self.tag_value()).collect();
        json!({"KeywordIn": {"field": f, "values": vs}})
      }
      0 | 1 | 2 => {
        if self.has_year {
          let lo = 2018 + self.rng.below(6) as i64;
          let hi = lo + self.rng.below(4) as i64;
          json!({"I64Range": {"field": "year", "min": lo, "max": hi}})
        } else if !self.kw_fields.is_empty() {
          let f = self.rng.pick(&self.kw_fields).clone();
          let v = self.tag_value();
          json!({"KeywordEq": {"field": f, "value": v}})
        } else {
          json!({"And": []})
        }
      }
      3 => json!({"Not": self.filter(depth - 1)}),
      4 => json!({"And": [self.filter(depth - 1), self.filter(depth - 1)]}),
      _ => json!({"Or": [self.filter(depth - 1), self.filter(depth - 1)]}),
    }
  }
  fn tag_value(&mut self) -> String {
    let t = *self.rng.pick(&TAGS);
    if self.rng.chance(1, 3) {
      t.to_uppercase()
    } else if self.rng.chance(1, 2) {
      t.to_lowercase()
    } else {
      t.to_string()
    }
  }
  fn fields_list(&mut self) -> Vec<String> {
    let mut fs = self.text_fields.clone();
    self.rng.shuffle(&mut fs);
    fs.truncate(1 + self.rng.below(self.text_fields.len()));
    fs
  }
  /// text of a query_string / multi_match: 0–3 plain terms, optional negated term, optional phrase
  fn query_text(&mut self, scored: bool, allow_field: bool) -> String {
    let mut parts: Vec<String> = Vec::new();
    let nterms = self.rng.below(4);
    for _ in 0..nterms {
      if let Some(fam) = self.leaf_family(scored) {
        let w = self.fam_word(fam);
        if allow_field && self.rng.chance(1, 4) {
          parts.push(format!("{}:{}", self.text_field(), w));
        } else {
          parts.push(w);
        }
      }
    }
    if self.rng.chance(1, 4) {
      let w = self.word();
      if allow_field && self.rng.chance(1, 4) {
        parts.push(format!("-{}:{}", self.text_field(), w));
      } else {
        parts.push(format!("-{w}"));
      }
    }
    if self.rng.chance(1, 4) {
      let n = 1 + self.rng.below(2);
      let ws: Vec<String> = (0..n).map(|_| self.word()).collect();
      if allow_field && self.rng.chance(1, 3) {
        parts.push(format!("\"{}:{}\"", self.text_field(), ws.join(" ")));
      } else {
        parts.push(format!("\"{}\"", ws.join(" ")));
      }
    }
    if parts.is_empty() {
      // no family left for a scored term: a quoted one-word phrase (phrases are never scored)
      let w = self.word();
      parts.push(format!("\"{w}\""));
    }
    self.rng.shuffle(&mut parts);
    parts.join(" ")
  }
  fn leaf(&mut self, scored: bool) -> Value {
    let pick = self.rng.below(100);
    let (kind, v) = match pick {
      0..=21 => match self.leaf_family(scored) {
        Some(fam) => {
          let w = self.fam_word(fam);
          ("term", json!({"type":"term","field": self.text_field(), "value": w}))
        }
        None => ("match_all", json!({"type":"match_all"})),
      },
      22..=29 if !self.kw_fields.is_empty() => {
        let f = self.rng.pick(&self.kw_fields).clone();
        let v = if scored && !self.free_tags.is_empty() {
          let k = self.rng.below(self.free_tags.len());
          let t = TAGS[self.free_tags.swap_remove(k)];
          match self.rng.below(3) {
            0 => t.to_uppercase(),
            1 => t.to_lowercase(),
            _ => t.to_string(),
          }
        } else {
          self.tag_value()
        };
        ("term_keyword", json!({"type":"term","field": f, "value": v}))
      }
      30..=31 if self.has_year => {
        let mut q = json!({"type":"rank_feature","field":"year"});
        if self.rng.chance(1, 2) {
          q["modifier"] = json!(*self.rng.pick(&["log", "log1p", "sqrt", "reciprocal", "none"]));
        }
        ("rank_feature", q)
      }
      30..=35 => ("match_all", json!({"type":"match_all"})),
      36..=47 => {
        let n = 1 + self.rng.below(3);
        let ws: Vec<String> = (0..n).map(|_| self.word()).collect();
        let mut q = json!({"type":"phrase","terms": ws});
        if self.rng.chance(3, 4) {
          q["field"] = json!(self.text_field());
        }
        if self.rng.chance(1, 2) {
          q["slop"] = json!(self.rng.below(4));
        }
        ("phrase", q)
      }
      48..=55 => match self.leaf_family(scored) {
        Some(fam) => {
          let w = *self.rng.pick(FAMILIES[fam]);
          let n = 2 + self.rng.below(w.len() - 1);
          let p: String = w.chars().take(n).collect();
          let mut q = json!({"type":"prefix","field": self.text_field(), "value": self.case(&p)});
          if self.rng.chance(1, 5) {
            q["max_expansions"] = json!(1 + self.rng.below(3));
          }
          ("prefix", q)
        }
        None => ("match_all", json!({"type":"match_all"})),
      },
      56..=67 => {
        let mut q = json!({"type":"query_string","query": self.query_text(scored, true)});
        if self.rng.chance(1, 3) {
          q["fields"] = json!(self.fields_list());
        }
        ("query_string", q)
      }
      68..=77 => {
        let mut q = json!({"type":"multi_match","query": self.query_text(scored, false), "fields": self.fields_list()});
        match self.rng.below(3) {
          0 => {}
          1 => q["match_type"] = json!("most_fields"),
          _ => q["match_type"] = json!("cross_fields"),
        }
        if self.rng.chance(1, 3) {
          q["operator"] = json!("and");
        }
        match self.rng.below(5) {
          0 => q["minimum_should_match"] = json!(self.rng.below(4)),
          1 => q["minimum_should_match"] = json!(*self.rng.pick(&["0%", "25%", "50%", "75%", "100%"])),
          _ => {}
        }
        ("multi_match", q)
      }
      78..=83 => ("constant_score", json!({"type":"constant_score","filter": self.filter(1)})),
      84..=89 => match self.leaf_family(scored) {
        Some(fam) => {
          let w = *self.rng.pick(FAMILIES[fam]);
          let cs: Vec<char> = w.chars().collect();
          // patterns keeping the first letter stay inside the family (first letters are distinct);
          // a leading `*` crosses families and is generated below non-scoring clauses only
          let pat: String = match self.rng.below(if scored { 3 } else { 4 }) {
            0 => format!("{}*", cs[..2.min(cs.len())].iter().collect::<String>()),
            1 => format!("{}?{}", cs[..1].iter().collect::<String>(), cs[2.min(cs.len())..].iter().collect::<String>()),
            2 => format!("{}*{}", cs[..1].iter().collect::<String>(), cs[cs.len() - 1..].iter().collect::<String>()),
            _ => format!("*{}", cs[cs.len().saturating_sub(2)..].iter().collect::<String>()),
          };
          ("wildcard", json!({"type":"wildcard","field": self.text_field(), "value": pat}))
        }
        None => ("match_all", json!({"type":"match_all"})),
      },
      _ => match self.leaf_family(scored) {
        Some(fam) => {
          let ws = FAMILIES[fam];
          let w = *self.rng.pick(ws);
          let w2 = *self.rng.pick(ws);
          let stem: String = w.chars().take(3).collect();
          let pat: String = match self.rng.below(7) {
            0 => w.to_string(),
            1 => format!("{w}|{w2}"),
            2 => format!("{stem}.*"),
            3 => format!("{w}s?"),
            4 => format!("{stem}[a-z]+"),
            5 => format!("{stem}[a-z]*"),
            _ => format!("({w}|{w2})"),
          };
          ("regex", json!({"type":"regex","field": self.text_field(), "value": pat}))
        }
        None => ("match_all", json!({"type":"match_all"})),
      },
    };
    self.kinds.insert(kind.to_string());
    v
  }
  fn node(&mut self, depth: usize, scored: bool) -> Value {
    // function_score / script_score wrappers (boost_mode replace, weight functions: the combined
    // score does not depend on BM25) at any position
    if self.rng.chance(1, 14) {
      let inner = self.node(depth.saturating_sub(1), scored);
      if self.rng.chance(1, 2) || !self.has_year {
        self.kinds.insert("function_score".into());
        let mut fns: Vec<Value> = Vec::new();
        for _ in 0..self.rng.below(3) {
          fns.push(json!({"type":"weight","weight": self.rng.below(4), "filter": self.filter(1)}));
        }
        fns.push(json!({"type":"weight","weight": self.rng.below(3)}));
        self.rng.shuffle(&mut fns);
        let mut q = json!({"type":"function_score","query": inner, "functions": fns, "boost_mode":"replace",
          "score_mode": *self.rng.pick(&["sum", "multiply", "max", "min"])});
        if self.rng.chance(4, 5) {
          q["min_score"] = json!(self.rng.below(4));
        }
        if self.rng.chance(1, 4) {
          q["max_boost"] = json!(1 + self.rng.below(3));
        }
        return q;
      }
      self.kinds.insert("script_score".into());
      let script = if self.rng.chance(1, 4) { "_score".to_string() } else { format!("_score + 1 / (year - {})", 2018 + self.rng.below(8)) };
      return json!({"type":"script_score","query": inner, "script": script});
    }
    if depth == 0 || self.rng.chance(2, 5) {
      return self.leaf(scored);
    }
    if self.rng.chance(1, 4) {
      self.kinds.insert("dis_max".into());
      let n = 1 + self.rng.below(3);
      let qs: Vec<Value> = (0..n).map(|_| self.node(depth - 1, scored)).collect();
      return json!({"type":"dis_max","queries": qs});
    }
    self.kinds.insert("bool".into());
    let mut b = Map::new();
    b.insert("type".into(), json!("bool"));
    let nm = [0, 0, 1, 1, 2][self.rng.below(5)];
    let ns = [0, 1, 1, 2, 3][self.rng.below(5)];
    let nn = [0, 0, 0, 1, 1][self.rng.below(5)];
    let nf = [0, 0, 0, 1][self.rng.below(4)];
    if nm > 0 {
      b.insert("must".into(), Value::Array((0..nm).map(|_| self.node(depth - 1, scored)).collect()));
    }
    if ns > 0 {
      b.insert("should".into(), Value::Array((0..ns).map(|_| self.node(depth - 1, scored)).collect()));
    }
    if nn > 0 {
      b.insert("must_not".into(), Value::Array((0..nn).map(|_| self.node(depth - 1, false)).collect()));
    }
    if nf > 0 {
      b.insert("filter".into(), Value::Array((0..nf).map(|_| self.filter(1)).collect()));
    }
    if ns > 0 && self.rng.chance(1, 4) {
      b.insert("minimum_should_match".into(), json!(self.rng.below(ns + 1)));
    }
    Value::Object(b)
  }
}

/// `boost` on random clauses (0 = "matches but does not contribute to the score") and on
/// `fields` entries of query_string / multi_match
fn sprinkle_boosts(rng: &mut Rng, q: &mut Value) {
  let Some(m) = q.as_object_mut() else { return };
  if m.contains_key("type") && rng.chance(1, 4) {
    let b = rng.pick(&[json!(0), json!(0), json!(0.0), json!(0.5), json!(2), json!(3.5)]).clone();
    m.insert("boost".into(), b.clone());
  }
  let ty = m.get("type").and_then(|t| t.as_str()).unwrap_or("").to_string();
  if ty == "query_string" || ty == "multi_match" {
    if let Some(fs) = m.get_mut("fields").and_then(|f| f.as_array_mut()) {
      if rng.chance(1, 3) {
        let specs: Vec<Value> = fs
          .iter()
          .map(|f| {
            let mut o = json!({"field": f});
            if rng.chance(1, 2) {
              o["boost"] = rng.pick(&[json!(0), json!(0.0), json!(2)]).clone();
            }
            o
          })
          .collect();
        *fs = specs;
      }
    }
  }
  for k in ["must", "should", "must_not", "queries"] {
    if let Some(a) = m.get_mut(k).and_then(|a| a.as_array_mut()) {
      for c in a.iter_mut() {
        sprinkle_boosts(rng, c);
      }
    }
  }
  if ty == "function_score" || ty == "script_score" {
    if let Some(c) = m.get_mut("query") {
      sprinkle_boosts(rng, c);
    }
  }
}

fn gen_schema(rng: &mut Rng) -> (Value, Vec<String>, Vec<String>, bool) {
  let names = ["body", "title", "notes"];
  let ntext = 1 + rng.below(3);
  let mut analyzers: Vec<Value> = Vec::new();
  let mut text_fields: Vec<Value> = Vec::new();
  let mut tnames = Vec::new();
  for (i, name) in names.iter().enumerate().take(ntext) {
    let an = match rng.below(4) {
      0 | 1 => "default".to_string(),
      _ => {
        let aname = format!("an{i}");
        let tok = *rng.pick(&["default", "whitespace", "whitespace", "unicode"]);
        let mut filters: Vec<Value> = Vec::new();
        if rng.chance(1, 2) {
          filters.push(json!({"lowercase": true}));
        }
        if rng.chance(1, 3) {
          filters.push(json!({"stopwords": "en"}));
        }
        if rng.chance(1, 3) {
          filters.push(json!({"synonyms": [{"from": ["fast"], "to": ["quick"]}, {"from": ["search", "engine"], "to": ["finder"]}]}));
        }
        if rng.chance(1, 3) {
          filters.push(json!({"stemmer": "english"}));
        }
        analyzers.push(json!({"name": aname, "tokenizer": tok, "filters": filters}));
        aname
      }
    };
    let mut tf = json!({"name": name, "analyzer": an, "stored": true, "indexed": true});
    match rng.below(8) {
      // prefixes indexed, plain search side
      0 => tf["search_as_you_type"] = json!({"min_gram": 1 + rng.below(2), "max_gram": 3 + rng.below(3)}),
      // different analyzers on the two sides
      1 => tf["search_analyzer"] = json!("default"),
      _ => {}
    }
    text_fields.push(tf);
    tnames.push(name.to_string());
  }
  let mut kw = Vec::new();
  let mut kwnames = Vec::new();
  if rng.chance(3, 4) {
    kw.push(json!({"name": "tag", "stored": true, "indexed": true, "fast": true}));
    kwnames.push("tag".to_string());
    // a second keyword field over the same value pool: documents carry equal values in both
    if rng.chance(2, 3) {
      kw.push(json!({"name": "origin", "stored": true, "indexed": true, "fast": true}));
      kwnames.push("origin".to_string());
    }
  }
  let has_year = rng.chance(2, 3);
  let numeric = if has_year { vec![json!({"name": "year", "i64": true, "fast": true, "stored": true})] } else { vec![] };
  (
    json!({"doc_id_field": "_id", "analyzers": analyzers, "text_fields": text_fields, "keyword_fields": kw, "numeric_fields": numeric}),
    tnames,
    kwnames,
    has_year,
  )
}

fn gen_doc(rng: &mut Rng, id: usize, tnames: &[String], kwnames: &[String], has_year: bool) -> Value {
  let words = all_words();
  let mut d = Map::new();
  d.insert("_id".into(), json!(format!("d{id:02}")));
  for f in tnames {
    if f != "body" && rng.chance(1, 4) {
      continue; // field absent
    }
    let mk = |rng: &mut Rng| -> String {
      let n = 1 + rng.below(if f == "body" { 8 } else { 3 });
      (0..n)
        .map(|_| {
          let w = *rng.pick(&words);
          if rng.chance(1, 8) {
            let mut c = w.chars();
            c.next().map(|x| x.to_uppercase().collect::<String>() + c.as_str()).unwrap_or_default()
          } else {
            w.to_string()
          }
        })
        .collect::<Vec<_>>()
        .join(" ")
    };
    if rng.chance(1, 5) {
      let n = 2 + rng.below(2);
      let vals: Vec<String> = (0..n).map(|_| mk(rng)).collect();
      d.insert(f.clone(), json!(vals));
    } else {
      d.insert(f.clone(), json!(mk(rng)));
    }
  }
  let mut prev_kw: Option<Value> = None;
  for f in kwnames {
    if rng.chance(1, 6) {
      continue;
    }
    let var = |rng: &mut Rng, t: &str| -> String {
      match rng.below(4) {
        0 => t.to_uppercase(),
        1 => t.to_lowercase(),
        _ => t.to_string(),
      }
    };
    let v = match (&prev_kw, rng.below(5)) {
      // the same value(s) as the previous keyword field of this document
      (Some(p), 0 | 1) => p.clone(),
      // multi-valued, with repeated values (also repeated up to case)
      (_, 2) => {
        let a = *rng.pick(&TAGS);
        let b = if rng.chance(1, 2) { a } else { *rng.pick(&TAGS) };
        let mut vals = vec![var(rng, a), var(rng, b)];
        if rng.chance(1, 3) {
          vals.push(var(rng, a));
        }
        json!(vals)
      }
      _ => json!(*rng.pick(&TAGS)),
    };
    prev_kw = Some(v.clone());
    d.insert(f.clone(), v);
  }
  if has_year && rng.chance(5, 6) {
    d.insert("year".into(), json!(2018 + rng.below(8)));
  }
  Value::Object(d)
}

// ---------------------------------------------------------------- running one case

/// live documents by history: the last operation per id wins
fn history_live(commits: &[Value]) -> BTreeMap<String, Value> {
  let mut live: BTreeMap<String, Value> = BTreeMap::new();
  for c in commits {
    for id in c["delete"].as_array().cloned().unwrap_or_default() {
      live.remove(id.as_str().unwrap_or(""));
    }
    for d in c["add"].as_array().cloned().unwrap_or_default() {
      live.insert(d["_id"].as_str().unwrap_or("").to_string(), d);
    }
  }
  live
}

fn strings_of(v: &Value) -> Vec<String> {
  match v {
    Value::String(s) => vec![s.clone()],
    Value::Array(a) => a.iter().filter_map(|x| x.as_str().map(|s| s.to_string())).collect(),
    _ => vec![],
  }
}

fn query_kinds(q: &Value, out: &mut BTreeSet<String>) {
  match q {
    Value::Object(m) => {
      if let Some(t) = m.get("type").and_then(|t| t.as_str()) {
        out.insert(t.to_string());
      }
      for k in ["must", "should", "must_not", "queries"] {
        if let Some(a) = m.get(k).and_then(|a| a.as_array()) {
          for c in a {
            query_kinds(c, out);
          }
        }
      }
      if let Some(c) = m.get("query") {
        if c.is_object() {
          query_kinds(c, out);
        }
      }
    }
    Value::String(_) => {
      out.insert("string".into());
    }
    _ => {}
  }
}

struct Built {
  _dir: tempfile::TempDir,
  index: Index,
  /// per segment of the manifest: analysed documents (model JSON) in ordinal order + tombstones
  segments: Vec<Value>,
  seg_ids: Vec<Vec<String>>,
  kinds: Vec<Value>,
  text_fields: Vec<String>,
  /// `SchemaAnalyzers` cannot be named from outside the crate: rebuilt from the schema on use
  schema: searchlite_core::Schema,
}

impl C07 {
  fn build(&self, case: &Value, s: &mut Summary) -> Option<Built> {
    let schema_json = &case["schema"];
    let schema = match idx::schema(schema_json) {
      Ok(x) => x,
      Err(e) => {
        s.disagree("case.schema", case, json!(e), json!("generated schema must be valid"));
        return None;
      }
    };
    let analyzers = match schema.build_analyzers() {
      Ok(a) => a,
      Err(e) => {
        s.disagree("case.analyzers", case, json!(e.to_string()), json!("generated analyzers must build"));
        return None;
      }
    };
    let dir = scratch();
    let index = match idx::create(dir.path(), schema_json, false) {
      Ok(i) => i,
      Err(e) => {
        s.disagree("case.create", case, json!(e), json!("index creation must succeed"));
        return None;
      }
    };
    let commits = case["commits"].as_array().cloned().unwrap_or_default();
    // expected layout: one segment per commit with additions, documents in id order
    let mut seg_docs: Vec<Vec<Value>> = Vec::new();
    for c in &commits {
      let adds = c["add"].as_array().cloned().unwrap_or_default();
      let dels: Vec<String> = c["delete"].as_array().cloned().unwrap_or_default().iter().filter_map(|x| x.as_str().map(|s| s.to_string())).collect();
      let r = (|| -> Result<(), String> {
        let mut w = index.writer().map_err(|e| e.to_string())?;
        if !dels.is_empty() {
          w.delete_documents(&dels).map_err(|e| format!("delete: {e}"))?;
        }
        for d in &adds {
          w.add_document(&idx::doc(d)).map_err(|e| format!("add: {e}"))?;
        }
        w.commit().map_err(|e| format!("commit: {e}"))
      })();
      if let Err(e) = r {
        s.disagree("case.commit", case, json!(e), json!("commit of generated documents must succeed"));
        return None;
      }
      if !adds.is_empty() {
        let mut sorted = adds.clone();
        sorted.sort_by(|a, b| a["_id"].as_str().unwrap_or("").cmp(b["_id"].as_str().unwrap_or("")));
        seg_docs.push(sorted);
      }
    }
    let manifest = index.manifest();
    if manifest.segments.len() != seg_docs.len()
      || manifest.segments.iter().zip(seg_docs.iter()).any(|(m, d)| m.doc_count as usize != d.len())
    {
      s.disagree(
        "layout.segments",
        case,
        json!(manifest.segments.iter().map(|m| m.doc_count).collect::<Vec<_>>()),
        json!(seg_docs.iter().map(|d| d.len()).collect::<Vec<_>>()),
      );
      return None;
    }
    let text_fields: Vec<String> = schema_json["text_fields"].as_array().cloned().unwrap_or_default().iter().map(|f| f["name"].as_str().unwrap_or("").to_string()).collect();
    let kw_fields: Vec<String> = schema_json["keyword_fields"].as_array().cloned().unwrap_or_default().iter().map(|f| f["name"].as_str().unwrap_or("").to_string()).collect();
    let num_fields: Vec<String> = schema_json["numeric_fields"].as_array().cloned().unwrap_or_default().iter().map(|f| f["name"].as_str().unwrap_or("").to_string()).collect();
    let mut kinds: Vec<Value> = Vec::new();
    for f in &text_fields {
      kinds.push(json!([f, "text"]));
    }
    for f in &kw_fields {
      kinds.push(json!([f, "keyword"]));
    }
    for f in &num_fields {
      kinds.push(json!([f, "numeric"]));
    }
    let mut segments = Vec::new();
    let mut seg_ids = Vec::new();
    for (m, docs) in manifest.segments.iter().zip(seg_docs.iter()) {
      let mut jd = Vec::new();
      let mut ids = Vec::new();
      for d in docs {
        let mut text = Vec::new();
        for f in &text_fields {
          let vals = strings_of(&d[f]);
          if vals.is_empty() {
            continue;
          }
          let an = match analyzers.index_analyzer(f) {
            Some(a) => a,
            None => continue,
          };
          let toks: Vec<Value> = vals
            .iter()
            .map(|v| Value::Array(an.analyze(v).into_iter().map(|t| json!([t.text, t.position])).collect()))
            .collect();
          text.push(json!([f, toks]));
        }
        let mut kw = Vec::new();
        for f in &kw_fields {
          let vals = strings_of(&d[f]);
          if !vals.is_empty() {
            kw.push(json!([f, vals]));
          }
        }
        let mut nums = Vec::new();
        for f in &num_fields {
          let vals: Vec<i64> = match &d[f] {
            Value::Number(n) => n.as_i64().into_iter().collect(),
            Value::Array(a) => a.iter().filter_map(|x| x.as_i64()).collect(),
            _ => vec![],
          };
          if !vals.is_empty() {
            nums.push(json!([f, vals]));
          }
        }
        let id = d["_id"].as_str().unwrap_or("").to_string();
        jd.push(json!({"id": id, "text": text, "kw": kw, "i64": nums}));
        ids.push(id);
      }
      segments.push(json!({"docs": jd, "deleted": m.deleted_docs}));
      seg_ids.push(ids);
    }
    Some(Built { _dir: dir, index, segments, seg_ids, kinds, text_fields, schema })
  }
}

/// one request against the built index: implementation, mechanism model, spec; returns
/// (impl ids, spec ids) when everything ran
#[allow(clippy::too_many_arguments)]
fn run_request(
  drv: &mut Driver,
  b: &Built,
  case: &Value,
  request: &Value,
  live: &BTreeMap<String, Value>,
  s: &mut Summary,
  tag: &str,
) -> Option<(BTreeSet<String>, BTreeSet<String>)> {
  let query = &request["query"];
  let default_fields: Vec<String> = match request.get("fields").and_then(|f| f.as_array()) {
    Some(a) => a.iter().filter_map(|x| x.as_str().map(|s| s.to_string())).collect(),
    None => b.text_fields.clone(),
  };
  // ---- model: which analyses are needed
  let needs = drv.call("C07", json!({"op":"needs","query": query, "default_fields": default_fields, "kinds": b.kinds}));
  if needs["ok"] != json!(true) {
    let err = needs["error"].as_str().unwrap_or("");
    if err.contains("unsupported") {
      s.count(&format!("{tag}.unsupported-by-model"));
      return None;
    }
    s.disagree("driver.needs", case, json!(null), needs);
    return None;
  }
  let analyzers = b.schema.build_analyzers().ok()?;
  let mut analysis = Vec::new();
  for p in needs["pairs"].as_array().cloned().unwrap_or_default() {
    let f = p[0].as_str().unwrap_or("");
    let t = p[1].as_str().unwrap_or("");
    if let Some(an) = analyzers.search_analyzer(f) {
      let toks: Vec<Value> = an.analyze(t).into_iter().map(|x| json!([x.text, x.position])).collect();
      analysis.push(json!([f, t, toks, an.normalize_pattern(t)]));
    }
  }
  let mut ctx = json!({"kinds": b.kinds, "default_fields": default_fields, "analysis": analysis, "query": query});
  if let Some(fz) = request.get("fuzzy") {
    if !fz.is_null() {
      ctx["fuzzy"] = fz.clone();
    }
  }
  // ---- regex oracle: the real engine on every dictionary term of the field
  let mut kinds = BTreeSet::new();
  query_kinds(query, &mut kinds);
  if kinds.contains("regex") {
    let mut r = ctx.clone();
    r["op"] = json!("rxneeds");
    let rn = drv.call("C07", r);
    if rn["ok"] != json!(true) {
      s.disagree("driver.rxneeds", case, json!(null), rn);
      return None;
    }
    let mut rx = Vec::new();
    for p in rn["patterns"].as_array().cloned().unwrap_or_default() {
      let f = p[0].as_str().unwrap_or("");
      let pat = p[1].as_str().unwrap_or("");
      let re = match searchlite_core::util::regex::anchored_regex(pat) {
        Ok(r) => r,
        Err(_) => {
          s.count(&format!("{tag}.invalid-regex"));
          return None;
        }
      };
      let mut terms: BTreeSet<String> = BTreeSet::new();
      for seg in &b.segments {
        for d in seg["docs"].as_array().unwrap() {
          for e in d["text"].as_array().unwrap() {
            if e[0] == json!(f) {
              for v in e[1].as_array().unwrap() {
                for t in v.as_array().unwrap() {
                  terms.insert(t[0].as_str().unwrap_or("").to_string());
                }
              }
            }
          }
          for e in d["kw"].as_array().unwrap() {
            if e[0] == json!(f) {
              for v in e[1].as_array().unwrap() {
                terms.insert(v.as_str().unwrap_or("").to_ascii_lowercase());
              }
            }
          }
        }
      }
      let hits: Vec<String> = terms.into_iter().filter(|t| re.is_match(t)).collect();
      rx.push(json!([pat, hits]));
    }
    ctx["rx"] = json!(rx);
  }
  let mut run = ctx.clone();
  run["op"] = json!("run");
  run["segments"] = json!(b.segments);
  if let Some(f) = request.get("filter") {
    if !f.is_null() {
      run["filter"] = f.clone();
    }
  }
  let m = drv.call("C07", run);
  if m["ok"] != json!(true) {
    s.disagree("driver.run", case, json!(null), m);
    return None;
  }
  let to_ids = |key: &str| -> BTreeSet<String> {
    let mut out = BTreeSet::new();
    for (si, ords) in m[key].as_array().cloned().unwrap_or_default().iter().enumerate() {
      for o in ords.as_array().cloned().unwrap_or_default() {
        if let Some(id) = b.seg_ids.get(si).and_then(|ids| ids.get(o.as_u64().unwrap_or(u64::MAX) as usize)) {
          out.insert(id.clone());
        }
      }
    }
    out
  };
  let mech = to_ids("mech");
  let spec_layout = to_ids("spec");
  // positions (segment, ordinal) listed under some scored term; ids are not unique across
  // segments (an upserted document leaves a tombstoned older version behind)
  let mut hasq_pos: BTreeSet<(usize, u64)> = BTreeSet::new();
  for (si, ords) in m["has_qualified"].as_array().cloned().unwrap_or_default().iter().enumerate() {
    for o in ords.as_array().cloned().unwrap_or_default() {
      hasq_pos.insert((si, o.as_u64().unwrap_or(u64::MAX)));
    }
  }
  let mut live_pos: BTreeMap<String, (usize, u64)> = BTreeMap::new();
  for (si, (seg, ids)) in b.segments.iter().zip(b.seg_ids.iter()).enumerate() {
    let del: BTreeSet<u64> = seg["deleted"].as_array().cloned().unwrap_or_default().iter().filter_map(|x| x.as_u64()).collect();
    for (o, id) in ids.iter().enumerate() {
      if !del.contains(&(o as u64)) {
        live_pos.insert(id.clone(), (si, o as u64));
      }
    }
  }
  let hasq = |id: &String| live_pos.get(id).map(|p| hasq_pos.contains(p)).unwrap_or(false);
  let mut rxmiss_pos: BTreeSet<(usize, u64)> = BTreeSet::new();
  for (si, ords) in m["rx_prefix_miss"].as_array().cloned().unwrap_or_default().iter().enumerate() {
    for o in ords.as_array().cloned().unwrap_or_default() {
      rxmiss_pos.insert((si, o.as_u64().unwrap_or(u64::MAX)));
    }
  }
  let rxmiss = |id: &String| live_pos.get(id).map(|p| rxmiss_pos.contains(p)).unwrap_or(false);
  let below_caps = m["below_caps"] == json!(true);
  let root_chain = m["root_chain"] == json!(true);
  let mut drop_pos: BTreeSet<(usize, u64)> = BTreeSet::new();
  for (si, ords) in m["custom_drop_hit"].as_array().cloned().unwrap_or_default().iter().enumerate() {
    for o in ords.as_array().cloned().unwrap_or_default() {
      drop_pos.insert((si, o.as_u64().unwrap_or(u64::MAX)));
    }
  }
  let nested_drop = |id: &String| !root_chain && live_pos.get(id).map(|p| drop_pos.contains(p)).unwrap_or(false);
  let nqual = m["n_qualified"].as_u64().unwrap_or(0);
  let side = json!({"expansions_complete": m["expansions_complete"], "covered": m["covered"], "below_caps": m["below_caps"], "root_chain": m["root_chain"], "rx_prefix_ok": m["rx_prefix_ok"], "incomplete_groups": m["incomplete_groups"]});
  // ---- implementation
  let mut req = request.clone();
  req["limit"] = json!(1000);
  req["execution"] = json!("bm25");
  req["return_stored"] = json!(false);
  let reader = match b.index.reader() {
    Ok(r) => r,
    Err(e) => {
      s.disagree("impl.reader", case, json!(e.to_string()), json!("reader must open"));
      return None;
    }
  };
  let out = idx::search(&reader, &req);
  let resp = match &out {
    Outcome::Ok(v) => v.clone(),
    Outcome::Err(e) => {
      s.fail("search.error", "a valid generated request was rejected", &json!({"case": case, "request": request}), json!(e));
      return None;
    }
    Outcome::Panic(p) => {
      if p.contains("Inconsistent leaf for term key") {
        s.fail(
          "panic.inconsistent-leaf",
          "search panics (debug_assert) when one term key feeds two scoring leaves — C16's finding, seen through a C07 request",
          &json!({"case": case, "request": request}),
          json!(p),
        );
      } else {
        s.fail("panic.other", "search panicked", &json!({"case": case, "request": request}), json!(p));
      }
      return None;
    }
  };
  let ids_vec = idx::hit_ids(&resp);
  let imp: BTreeSet<String> = ids_vec.iter().cloned().collect();
  if imp.len() != ids_vec.len() {
    s.fail("match.duplicate-hit", "a document is returned twice", &json!({"case": case, "request": request}), json!(ids_vec));
  }
  // ---- correspondence: mechanism model
  if imp != mech {
    s.disagree(
      &format!("{tag}.mechanism"),
      &json!({"case": case, "request": request}),
      json!({"ids": imp, "only_impl": imp.difference(&mech).collect::<Vec<_>>(), "only_model": mech.difference(&imp).collect::<Vec<_>>()}),
      json!({"ids": mech}),
    );
  }
  // ---- the documents returned must not depend on the execution strategy: the same request
  // with the default strategy (wand) and with bmw (limit above the corpus size, so no top-k
  // truncation is involved) against the exhaustive bm25 run
  for strat in ["default", "bmw"] {
    let mut r2 = req.clone();
    if strat == "default" {
      r2.as_object_mut().map(|o| o.remove("execution"));
    } else {
      r2["execution"] = json!(strat);
    }
    let cr = json!({"case": case, "request": request, "execution": strat});
    match idx::search(&reader, &r2) {
      Outcome::Ok(v) => {
        let got: BTreeSet<String> = idx::hit_ids(&v).into_iter().collect();
        for id in imp.difference(&got) {
          s.fail(
            &format!("strategy.{strat}.missing-doc"),
            "a document returned by the exhaustive bm25 execution is not returned by this execution strategy although the limit covers all matches",
            &cr,
            json!({"missing": id, "bm25": imp, "this": got}),
          );
        }
        for id in got.difference(&imp) {
          s.fail(
            &format!("strategy.{strat}.extra-doc"),
            "this execution strategy returns a document that the exhaustive bm25 execution does not",
            &cr,
            json!({"extra": id, "bm25": imp, "this": got}),
          );
        }
      }
      Outcome::Err(e) => s.fail(&format!("strategy.{strat}.error"), "the request is accepted with execution bm25 but rejected with this strategy", &cr, json!(e)),
      Outcome::Panic(p) => s.fail(&format!("strategy.{strat}.panic"), "search panicked with this execution strategy", &cr, json!(p)),
    }
    s.count(&format!("{tag}.strategy.{strat}"));
  }
  // the spec evaluated on the manifest's tombstones must describe the history's live documents
  let live_ids: BTreeSet<String> = live.keys().cloned().collect();
  let layout_live: BTreeSet<String> = b
    .segments
    .iter()
    .zip(b.seg_ids.iter())
    .flat_map(|(seg, ids)| {
      let del: BTreeSet<u64> = seg["deleted"].as_array().cloned().unwrap_or_default().iter().filter_map(|x| x.as_u64()).collect();
      ids.iter().enumerate().filter(move |(o, _)| !del.contains(&(*o as u64))).map(|(_, id)| id.clone()).collect::<Vec<_>>()
    })
    .collect();
  if live_ids != layout_live {
    s.disagree("layout.live", case, json!(layout_live), json!(live_ids));
    return None;
  }
  // ---- finder: documented semantics vs implementation
  let spec = spec_layout;
  if !below_caps {
    // the property speaks about expansion terms *below their caps*: above them the documented
    // behaviour is truncation, which only the mechanism model describes
    s.count(&format!("{tag}.above-expansion-caps(finder skipped)"));
    return Some((imp, spec));
  }
  let cr = json!({"case": case, "request": request});
  for id in spec.difference(&imp) {
    let obs = json!({"missing": id, "returned": imp, "expected": spec, "model_side_conditions": side});
    if rxmiss(id) {
      s.fail(
        "regex.literal-prefix",
        "a live document satisfying the query is not returned; it matches a regex clause only through a term that does not start with regex_literal_prefix(pattern), which the dictionary scan skips",
        &cr,
        obs,
      );
    } else if nqual > 0 && !hasq(id) {
      s.fail(
        "candidates.unscored-required-doc",
        "a live document satisfying the query is not returned; it contains no scored term of the request (candidates are taken from scored postings only)",
        &cr,
        obs,
      );
    } else if nested_drop(id) {
      s.fail(
        "score-drop.nested",
        "a live document satisfying the query is not returned: a function_score/script_score clause below a bool/dis_max node rejects it (min_score / script without value) and the whole hit is dropped because no sibling clause contributes a score",
        &cr,
        obs,
      );
    } else {
      s.fail(
        "match.missing-doc",
        "a live document satisfying the query is not returned although it contains a scored term (or the request has none)",
        &cr,
        obs,
      );
    }
  }
  for id in imp.difference(&spec) {
    let obs = json!({"extra": id, "returned": imp, "expected": spec, "model_side_conditions": side});
    if !live.contains_key(id) {
      s.fail("match.dead-doc", "a deleted or unknown document is returned", &cr, obs);
    } else if rxmiss(id) {
      s.fail(
        "regex.literal-prefix",
        "a returned document does not satisfy the query: a negated regex clause matches it only through a term that does not start with regex_literal_prefix(pattern), which the dictionary scan skips",
        &cr,
        obs,
      );
    } else if nested_drop(id) {
      s.fail(
        "score-drop.nested",
        "a returned document does not satisfy the query: a required (or negated) function_score/script_score clause below a bool/dis_max node rejects it (min_score / script without value), which is ignored because a sibling clause contributes a score (or because must_not only looks at the inner query)",
        &cr,
        obs,
      );
    } else {
      s.fail("match.extra-doc", "a returned document does not satisfy the query", &cr, obs);
    }
  }
  Some((imp, spec))
}

impl Prop for C07 {
  fn id(&self) -> &'static str {
    "C07"
  }
  fn rule(&self) -> &'static str {
    "case = random schema (1-3 text fields: default or custom analyzer from tokenizer default/whitespace/unicode + lowercase/stopwords/synonyms/stemmer; optional keyword and i64 fields), 5-40 documents over a 12-word vocabulary (multi-valued fields, mixed case) in 1-4 commits with deletions and upserts, one query tree to depth 4 (term, match_all, phrase+slop, prefix, wildcard, regex, query_string, multi_match, dis_max, bool, constant_score, rank_feature, function_score [boost_mode replace, weight functions, min_score/max_boost], script_score [`_score` or `_score + 1 / (year - k)`]; optional root filter, `fields`, `fuzzy`), every request is executed with bm25 (compared with the model and the documented semantics) and again with the default strategy (wand) and bmw (optional bmw_block_size 1-4), whose hit-id sets must equal the bm25 run; limit 1000; clauses and field specs carry random boosts including 0; keyword fields `tag`/`origin` share one value pool (equal values across fields, repeated values inside a field); plus up to 3 indexed-word probes (term query for a word of a live document), one keyword-value probe per keyword field and one query-string parser comparison; a case is non-trivial when the documented semantics selects at least one live document and rejects at least one"
  }
  fn count(&self, tier: Tier) -> usize {
    tier.pick(400, 20000)
  }
  fn gen(&self, rng: &mut Rng, _tier: Tier, _i: usize) -> Value {
    let (schema, tnames, kwnames, has_year) = gen_schema(rng);
    let ndocs = 5 + rng.below(36);
    let ncommits = 1 + rng.below(4);
    let mut commits: Vec<Value> = Vec::new();
    let mut next_id = 0usize;
    let mut known: Vec<usize> = Vec::new();
    for c in 0..ncommits {
      let share = if c + 1 == ncommits { ndocs.saturating_sub(next_id) } else { (ndocs / ncommits).max(1) };
      let mut adds = Vec::new();
      let mut dels: Vec<String> = Vec::new();
      let mut touched: BTreeSet<usize> = BTreeSet::new();
      if c > 0 && !known.is_empty() {
        for _ in 0..rng.below(4) {
          let k = *rng.pick(&known);
          if touched.insert(k) {
            dels.push(format!("d{k:02}"));
          }
        }
        for _ in 0..rng.below(3) {
          let k = *rng.pick(&known);
          if touched.insert(k) {
            adds.push(gen_doc(rng, k, &tnames, &kwnames, has_year)); // upsert
          }
        }
      }
      for _ in 0..share {
        adds.push(gen_doc(rng, next_id, &tnames, &kwnames, has_year));
        known.push(next_id);
        next_id += 1;
      }
      commits.push(json!({"add": adds, "delete": dels}));
    }
    let mut g = Gen { rng, text_fields: tnames.clone(), kw_fields: kwnames.clone(), has_year, free: (0..FAMILIES.len()).collect(), free_tags: (0..TAGS.len()).collect(), kinds: BTreeSet::new() };
    let depth = g.rng.below(5);
    let query = if g.rng.chance(1, 12) { json!(g.query_text(true, true)) } else { g.node(depth, true) };
    let mut query = query;
    sprinkle_boosts(g.rng, &mut query);
    let mut request = json!({"query": query});
    // block size for the bmw run of this request
    if g.rng.chance(1, 2) {
      request["bmw_block_size"] = json!(1 + g.rng.below(4));
    }
    if g.rng.chance(1, 5) && (!kwnames.is_empty() || has_year) {
      request["filter"] = g.filter(2);
    }
    if g.rng.chance(1, 6) {
      request["fields"] = json!(g.fields_list());
    }
    if g.rng.chance(1, 6) {
      let mx = [1usize, 3, 50][g.rng.below(3)];
      request["fuzzy"] = json!({"max_edits": g.rng.below(3), "prefix_length": 1 + g.rng.below(2), "max_expansions": mx, "min_length": 3 + g.rng.below(2)});
    }
    let qs = if g.rng.chance(1, 2) {
      g.query_text(false, true)
    } else {
      // character soup for the query-string parser: quotes (also unbalanced), colons, dashes,
      // assorted white space
      let alphabet = ["a", "b", "rust", "body", ":", ":", "-", "--", "\"", "\"", " ", " ", "  ", "\t", "_", "1", "é", "\u{00a0}", "\n"];
      let n = g.rng.below(14);
      (0..n).map(|_| *g.rng.pick(&alphabet)).collect::<Vec<_>>().join("")
    };
    json!({"schema": schema, "commits": commits, "request": request, "parse": qs})
  }

  fn run_case(&self, drv: &mut Driver, case: &Value, s: &mut Summary) {
    // ---- parser correspondence (`parse_query` is public)
    if let Some(qs) = case["parse"].as_str() {
      let p = searchlite_core::api::query::parse_query(qs);
      let qt = |t: &searchlite_core::api::query::QueryTerm| json!([t.field, t.term]);
      let imp = json!({
        "terms": p.terms.iter().map(qt).collect::<Vec<_>>(),
        "not_terms": p.not_terms.iter().map(qt).collect::<Vec<_>>(),
        "phrases": p.phrases.iter().map(|ph| json!([ph.field, ph.terms])).collect::<Vec<_>>(),
      });
      let m = drv.call("C07", json!({"op":"parse","query": qs}));
      if m["ok"] != json!(true) || m["terms"] != imp["terms"] || m["not_terms"] != imp["not_terms"] || m["phrases"] != imp["phrases"] {
        s.disagree("parse_query", &json!({"parse": qs}), imp, m);
      }
    }
    let b = match self.build(case, s) {
      Some(b) => b,
      None => {
        s.case(case, false);
        return;
      }
    };
    let commits = case["commits"].as_array().cloned().unwrap_or_default();
    let live = history_live(&commits);
    // exploration aid (never generated): `"raw": [requests]` runs the implementation only and
    // reports the hit ids in the notes
    if let Some(raws) = case.get("raw").and_then(|r| r.as_array()) {
      if let Ok(reader) = b.index.reader() {
        for r in raws {
          let mut req = r.clone();
          req["limit"] = json!(1000);
          req["execution"] = json!("bm25");
          req["return_stored"] = json!(false);
          let out = idx::search(&reader, &req);
          let ids = out.ok().map(idx::hit_ids);
          s.notes.push(format!("raw {} => {:?} {}", r, ids, if ids.is_none() { out.to_json().to_string() } else { String::new() }));
        }
      }
      return;
    }
    let request = &case["request"];
    let mut kinds = BTreeSet::new();
    query_kinds(&request["query"], &mut kinds);
    for k in &kinds {
      s.count(&format!("query.{k}"));
    }
    s.count(&format!("segments.{}", b.segments.len()));
    if b.segments.iter().any(|sg| sg["deleted"].as_array().map(|a| !a.is_empty()).unwrap_or(false)) {
      s.count("with_tombstones");
    }
    if request.get("filter").is_some() {
      s.count("with_root_filter");
    }
    if request.get("fuzzy").is_some() {
      s.count("with_fuzzy");
    }
    if case["schema"]["analyzers"].as_array().map(|a| !a.is_empty()).unwrap_or(false) {
      s.count("with_custom_analyzer");
    }
    let r = run_request(drv, &b, case, request, &live, s, "search");
    let nontrivial = match &r {
      Some((_, spec)) => !spec.is_empty() && spec.len() < live.len(),
      None => false,
    };
    if let Some((_, spec)) = &r {
      s.count(if spec.is_empty() { "spec.none" } else if spec.len() == live.len() { "spec.all" } else { "spec.some" });
    }
    s.case(case, nontrivial);
    // ---- "every indexed word of a document finds that document"
    let mut probes = 0;
    let Ok(analyzers) = b.schema.build_analyzers() else { return };
    for (id, d) in live.iter() {
      if probes >= 3 {
        break;
      }
      for f in &b.text_fields {
        let vals = strings_of(&d[f]);
        let Some(w) = vals.first().and_then(|v| v.split_whitespace().next()) else { continue };
        let (Some(ia), Some(sa)) = (analyzers.index_analyzer(f), analyzers.search_analyzer(f)) else { continue };
        // hypothesis of `indexed_word_found`: some search-side token of the word was indexed for this document
        let indexed: BTreeSet<String> = vals.iter().flat_map(|v| ia.analyze(v).into_iter().map(|t| t.text)).collect();
        let hyp = sa.analyze(w).into_iter().any(|t| indexed.contains(&t.text));
        if !hyp {
          s.count("probe.hypothesis-unmet");
          continue;
        }
        probes += 1;
        s.count("probe.run");
        let preq = json!({"query": {"type":"term","field": f, "value": w}});
        if let Some((imp, _)) = run_request(drv, &b, case, &preq, &live, s, "probe") {
          if !imp.contains(id) {
            s.fail("indexed-word.not-found", "a term query for an indexed word of a live document does not return it", &json!({"case": case, "request": preq}), json!({"doc": id, "returned": imp}));
          }
        }
        break;
      }
    }
    // ---- the same for keyword values: a term query for (keyword field, value of a live
    // document) returns it — one probe per keyword field of one document carrying a value in
    // every keyword field (so equal values in different fields are looked up under each field),
    // alternately with and without `boost: 0`
    let kwf: Vec<String> = b.kinds.iter().filter(|k| k[1] == json!("keyword")).filter_map(|k| k[0].as_str().map(|x| x.to_string())).collect();
    if let Some((id, d)) = live.iter().find(|(_, d)| !kwf.is_empty() && kwf.iter().all(|f| !strings_of(&d[f]).is_empty())) {
      for (k, f) in kwf.iter().enumerate() {
        let vals = strings_of(&d[f]);
        let v = vals.last().cloned().unwrap_or_default();
        s.count("probe.keyword");
        let mut q = json!({"type":"term","field": f, "value": v});
        if k % 2 == 1 {
          q["boost"] = json!(0);
        }
        let preq = json!({"query": q});
        if let Some((imp, _)) = run_request(drv, &b, case, &preq, &live, s, "probe") {
          if !imp.contains(id) {
            s.fail("indexed-keyword.not-found", "a term query for a keyword value of a live document does not return it", &json!({"case": case, "request": preq}), json!({"doc": id, "field": f, "returned": imp}));
          }
        }
      }
    }
  }
  fn finish(&self, _tier: Tier, s: &mut Summary) {
    s.exhaustive = false;
    s.notes.push("not modelled and therefore not generated: function_score with boost_mode other than replace, field_value_factor/decay functions, score_mode avg (their drop decision depends on BM25 scores), arbitrary scripts, vector clauses".into());
    s.notes.push("minimum_should_match percentages are generated from {0,25,50,75,100}% (exact in f32); field-name characters in quoted phrases are recognised up to U+02C1".into());
    s.notes.push("phrase queries are generated on text fields only (keyword postings carry no positions, a phrase can never match a keyword field)".into());
  }
}
