//! C08 — filters follow the documented filter semantics.
//!
//! Case = (random schema with keyword/i64/f64 fields and nested objects up to three levels, a
//! corpus of valid documents with arrays of parent objects each holding child arrays, a list of
//! random And/Or/Not/Nested filter trees).  The corpus is indexed once with the real code; every
//! filter is run as `search(match_all, filter)` and turned into per-document pass/fail.
//!   * correspondence: per document, the real decision vs `SL.Filter.Col.passes ∘ flatten` (the
//!     model of the columns and of `query/filters.rs`);
//!   * finder (implementation alone): per document, the real decision vs the documented semantics
//!     evaluated on the JSON tree by the harness's own oracle `spec_eval` (no model involved).
//! The driver also returns `Spec.passes`; wherever the hypothesis of `flatten_sound` holds
//! (`plain_inside`) the two model results must coincide (an instance check of the theorem).
use super::c15::{gen_schema, gen_valid_doc, LeafS, NestedS, PropS, SchemaOpts, SchemaS, K, KWS};
use crate::idx;
use crate::proto::Driver;
use crate::rng::Rng;
use crate::summary::Summary;
use crate::util::scratch;
use crate::{Prop, Tier};
use serde_json::{json, Map, Value};
use std::collections::BTreeSet;

pub struct C08;
pub static P: C08 = C08;

// ---------------------------------------------------------------------------------------------
// the documented semantics on the JSON tree (harness oracle, independent of the model)
// ---------------------------------------------------------------------------------------------

#[derive(Clone, Copy)]
enum Ctx<'a> {
  Top(&'a SchemaS),
  In(&'a NestedS),
}

enum PropRef<'a> {
  Leaf(&'a LeafS),
  Obj(&'a NestedS),
}

fn find_prop<'a>(ctx: Ctx<'a>, name: &str) -> Option<PropRef<'a>> {
  match ctx {
    Ctx::Top(s) => s.find_flat(name).map(PropRef::Leaf).or_else(|| s.find_nested(name).map(PropRef::Obj)),
    Ctx::In(n) => n.find(name).map(|p| match p {
      PropS::Leaf(l) => PropRef::Leaf(l),
      PropS::Obj(c) => PropRef::Obj(c),
    }),
  }
}

static EMPTY: std::sync::OnceLock<Map<String, Value>> = std::sync::OnceLock::new();
fn empty() -> &'static Map<String, Value> {
  EMPTY.get_or_init(Map::new)
}

/// the objects a nested value holds; a `null` element counts as an object without properties
fn objs_of(v: &Value) -> Vec<&Map<String, Value>> {
  match v {
    Value::Array(a) => a.iter().map(|e| e.as_object().unwrap_or(empty())).collect(),
    Value::Object(m) => vec![m],
    _ => Vec::new(),
  }
}

fn scalars(v: &Value) -> Vec<&Value> {
  match v {
    Value::Array(a) => a.iter().collect(),
    Value::Null => Vec::new(),
    x => vec![x],
  }
}

/// one value of a field of kind `kind` against a leaf clause
fn clause_test(kind: K, clause: &str, body: &Value, x: &Value) -> bool {
  let ci = |a: &str, b: &str| a.to_lowercase() == b.to_lowercase();
  match clause {
    "KeywordEq" => kind == K::Keyword && x.as_str().map(|s| ci(s, body["value"].as_str().unwrap_or(""))).unwrap_or(false),
    "KeywordIn" => {
      kind == K::Keyword
        && x.as_str().map(|s| body["values"].as_array().map(|vs| vs.iter().any(|v| ci(s, v.as_str().unwrap_or("")))).unwrap_or(false)).unwrap_or(false)
    }
    "I64Range" => kind == K::I64 && x.as_i64().map(|n| body["min"].as_i64().unwrap_or(0) <= n && n <= body["max"].as_i64().unwrap_or(0)).unwrap_or(false),
    "F64Range" => kind == K::F64 && x.as_f64().map(|n| body["min"].as_f64().unwrap_or(0.0) <= n && n <= body["max"].as_f64().unwrap_or(0.0)).unwrap_or(false),
    _ => false,
  }
}

/// some value reachable from `obj` along the dotted `path` satisfies the clause (fast fields only)
fn leaf_passes(ctx: Ctx, obj: &Map<String, Value>, path: &[&str], clause: &str, body: &Value) -> bool {
  match path {
    [] => false,
    [a] => match find_prop(ctx, a) {
      Some(PropRef::Leaf(l)) if l.fast => obj.get(*a).map(|v| scalars(v).iter().any(|x| clause_test(l.kind, clause, body, x))).unwrap_or(false),
      _ => false,
    },
    [r, rest @ ..] => match find_prop(ctx, r) {
      Some(PropRef::Obj(n)) => obj.get(*r).map(|v| objs_of(v).iter().any(|o| leaf_passes(Ctx::In(n), o, rest, clause, body))).unwrap_or(false),
      _ => false,
    },
  }
}

fn single_key(f: &Value) -> (&str, &Value) {
  f.as_object().and_then(|m| m.iter().next()).map(|(k, v)| (k.as_str(), v)).unwrap_or(("", &Value::Null))
}

/// one object of child `path` of `obj` satisfies `k`
fn bind(ctx: Ctx, obj: &Map<String, Value>, path: &str, k: &dyn Fn(Ctx, &Map<String, Value>) -> bool) -> bool {
  match find_prop(ctx, path) {
    Some(PropRef::Obj(n)) => obj.get(path).map(|v| objs_of(v).iter().any(|o| k(Ctx::In(n), o))).unwrap_or(false),
    _ => false,
  }
}

/// how the nested members of an `And` are grouped.  `ByPath` is the documented semantics; the two
/// weaker groupings are only used to MEASURE how many generated decisions depend on the binding
/// of sibling clauses (reported in the input distribution, never used as an oracle)
#[derive(Clone, Copy, PartialEq)]
enum Grouping {
  ByPath,
  AdjacentRuns,
  Separate,
}

fn spec_eval(ctx: Ctx, obj: &Map<String, Value>, f: &Value) -> bool {
  eval_with(Grouping::ByPath, ctx, obj, f)
}

fn eval_with(gr: Grouping, ctx: Ctx, obj: &Map<String, Value>, f: &Value) -> bool {
  let (tag, body) = single_key(f);
  match tag {
    "KeywordEq" | "KeywordIn" | "I64Range" | "F64Range" => {
      let field = body["field"].as_str().unwrap_or("");
      let path: Vec<&str> = field.split('.').collect();
      leaf_passes(ctx, obj, &path, tag, body)
    }
    "Nested" => bind(ctx, obj, body["path"].as_str().unwrap_or(""), &|c, o| eval_with(gr, c, o, &body["filter"])),
    "And" => {
      let fs = body.as_array().cloned().unwrap_or_default();
      // groups of nested members: (path, inner filters)
      let mut groups: Vec<(String, Vec<Value>)> = Vec::new();
      for g in fs.iter() {
        let (t, b) = single_key(g);
        if t == "Nested" {
          let p = b["path"].as_str().unwrap_or("").to_string();
          let slot = match gr {
            // sibling nested clauses on one path bind the same object, wherever they stand
            Grouping::ByPath => groups.iter().position(|(q, _)| *q == p),
            Grouping::AdjacentRuns => match groups.last() {
              Some((q, _)) if *q == p => Some(groups.len() - 1),
              _ => None,
            },
            Grouping::Separate => None,
          };
          match slot {
            Some(i) => groups[i].1.push(b["filter"].clone()),
            None => groups.push((p, vec![b["filter"].clone()])),
          }
        } else if !eval_with(gr, ctx, obj, g) {
          return false;
        }
      }
      groups.iter().all(|(p, inner)| {
        let grouped = json!({ "And": inner });
        bind(ctx, obj, p, &|c, o| eval_with(gr, c, o, &grouped))
      })
    }
    "Or" => body.as_array().map(|fs| fs.iter().any(|g| eval_with(gr, ctx, obj, g))).unwrap_or(false),
    "Not" => !eval_with(gr, ctx, obj, body),
    _ => false,
  }
}

pub fn spec_passes(s: &SchemaS, doc: &Value, f: &Value) -> bool {
  doc.as_object().map(|m| spec_eval(Ctx::Top(s), m, f)).unwrap_or(false)
}

fn weak_passes(gr: Grouping, s: &SchemaS, doc: &Value, f: &Value) -> bool {
  doc.as_object().map(|m| eval_with(gr, Ctx::Top(s), m, f)).unwrap_or(false)
}

// ---------------------------------------------------------------------------------------------
// signature predicates (evaluated on the failing document and filter, no model)
// ---------------------------------------------------------------------------------------------

/// dotted nested paths with at least two parent objects that carry a non-null value
fn collision_paths(s: &SchemaS, doc: &Value) -> BTreeSet<String> {
  fn walk(n: &NestedS, path: &str, parents: &[&Map<String, Value>], out: &mut BTreeSet<String>) {
    for p in n.props.iter() {
      if let PropS::Obj(c) = p {
        let cpath = format!("{path}.{}", c.name);
        let carried: Vec<&Value> = parents.iter().filter_map(|o| o.get(&c.name)).filter(|v| !v.is_null()).collect();
        if carried.len() >= 2 {
          out.insert(cpath.clone());
        }
        let objs: Vec<&Map<String, Value>> = carried.iter().flat_map(|v| objs_of(v)).collect();
        walk(c, &cpath, &objs, out);
      }
    }
  }
  let mut out = BTreeSet::new();
  if let Some(m) = doc.as_object() {
    for n in s.nested.iter() {
      if let Some(v) = m.get(&n.name) {
        if !v.is_null() {
          walk(n, &n.name, &objs_of(v), &mut out);
        }
      }
    }
  }
  out
}

/// dotted paths of the nested clauses that sit inside another nested clause
fn inner_nested_paths(f: &Value, base: &str, out: &mut BTreeSet<String>) {
  let (tag, body) = single_key(f);
  match tag {
    "Nested" => {
      let p = body["path"].as_str().unwrap_or("");
      let full = if base.is_empty() { p.to_string() } else { format!("{base}.{p}") };
      if !base.is_empty() {
        out.insert(full.clone());
      }
      inner_nested_paths(&body["filter"], &full, out);
    }
    "And" | "Or" => {
      for g in body.as_array().cloned().unwrap_or_default().iter() {
        inner_nested_paths(g, base, out);
      }
    }
    "Not" => inner_nested_paths(body, base, out),
    _ => {}
  }
}

fn mismatch_sig(s: &SchemaS, doc: &Value, f: &Value) -> &'static str {
  let coll = collision_paths(s, doc);
  let mut used = BTreeSet::new();
  inner_nested_paths(f, "", &mut used);
  // a nested-in-nested clause on (or below) a path whose child objects come from several parents
  let hit = used.iter().any(|u| coll.iter().any(|c| u == c || u.starts_with(&format!("{c}."))));
  if hit {
    "nested.child-index-collision"
  } else {
    "filter.differs-from-documented-semantics"
  }
}

// ---------------------------------------------------------------------------------------------
// filter generator
// ---------------------------------------------------------------------------------------------

fn flip_case(rng: &mut Rng, s: &str) -> String {
  match rng.below(4) {
    0 => s.to_uppercase(),
    1 => s.to_lowercase(),
    _ => s.to_string(),
  }
}

fn gen_clause(rng: &mut Rng, field: &str, kind: K) -> Value {
  // mostly the clause type that fits the field, sometimes another one (typed semantics)
  let pick = if rng.chance(1, 8) { rng.below(4) } else { match kind { K::Keyword | K::Text => rng.below(2), K::I64 => 2, K::F64 => 3 } };
  match pick {
    0 => {
      let w = *rng.pick(&KWS);
      json!({"KeywordEq": {"field": field, "value": flip_case(rng, w)}})
    }
    1 => {
      let n = 1 + rng.below(3);
      let vs: Vec<String> = (0..n)
        .map(|_| {
          let w = *rng.pick(&KWS);
          flip_case(rng, w)
        })
        .collect();
      json!({"KeywordIn": {"field": field, "values": vs}})
    }
    2 => {
      let a = rng.range(-4, 9);
      json!({"I64Range": {"field": field, "min": a, "max": a + rng.range(0, 4)}})
    }
    _ => {
      let a = rng.range(-9, 24) as f64 * 0.25;
      json!({"F64Range": {"field": field, "min": a, "max": a + rng.range(0, 8) as f64 * 0.25}})
    }
  }
}

fn leaves_of(ctx: Ctx) -> Vec<&LeafS> {
  match ctx {
    Ctx::Top(s) => s.flat.iter().collect(),
    Ctx::In(n) => n.props.iter().filter_map(|p| if let PropS::Leaf(l) = p { Some(l) } else { None }).collect(),
  }
}

fn children_of(ctx: Ctx) -> Vec<&NestedS> {
  match ctx {
    Ctx::Top(s) => s.nested.iter().collect(),
    Ctx::In(n) => n.props.iter().filter_map(|p| if let PropS::Obj(c) = p { Some(c) } else { None }).collect(),
  }
}

/// all dotted leaf paths below a nested field (for direct dotted filters at the top level)
fn dotted_leaves(n: &NestedS, base: &str, out: &mut Vec<(String, K)>) {
  for p in n.props.iter() {
    match p {
      PropS::Leaf(l) => out.push((format!("{base}.{}", l.name), l.kind)),
      PropS::Obj(c) => dotted_leaves(c, &format!("{base}.{}", c.name), out),
    }
  }
}

fn gen_leaf_clause(rng: &mut Rng, ctx: Ctx) -> Value {
  if let Ctx::Top(s) = ctx {
    if !s.nested.is_empty() && rng.chance(1, 6) {
      let mut d = Vec::new();
      for n in s.nested.iter() {
        dotted_leaves(n, &n.name, &mut d);
      }
      if !d.is_empty() {
        let (p, k) = rng.pick(&d).clone();
        return gen_clause(rng, &p, k);
      }
    }
  }
  let ls = leaves_of(ctx);
  if ls.is_empty() || rng.chance(1, 25) {
    return gen_clause(rng, "nosuch", K::Keyword);
  }
  let l = *rng.pick(&ls);
  gen_clause(rng, &l.name, l.kind)
}

fn gen_nested_clause(rng: &mut Rng, ctx: Ctx, depth: usize) -> Option<Value> {
  let cs = children_of(ctx);
  if cs.is_empty() {
    return None;
  }
  let c = *rng.pick(&cs);
  Some(json!({"Nested": {"path": c.name, "filter": gen_filter(rng, Ctx::In(c), depth.saturating_sub(1))}}))
}

fn gen_filter(rng: &mut Rng, ctx: Ctx, depth: usize) -> Value {
  let has_children = !children_of(ctx).is_empty();
  let roll = rng.below(if depth == 0 { 4 } else { 12 });
  match roll {
    0 | 1 | 2 => gen_leaf_clause(rng, ctx),
    3 | 4 | 5 | 6 if has_children => gen_nested_clause(rng, ctx, depth).unwrap(),
    7 | 8 => {
      // And of 2-5 members in random order: nested clauses on one or two child paths (several
      // per path, so that siblings on one path are separated by clauses on another path or by
      // non-nested clauses), leaf clauses, arbitrary sub-filters
      let n = 2 + rng.below(4);
      let mut fs: Vec<Value> = Vec::new();
      let mut cs = children_of(ctx);
      rng.shuffle(&mut cs);
      cs.truncate(2);
      if !cs.is_empty() && rng.chance(3, 4) {
        for _ in 0..n {
          match rng.below(8) {
            0 | 1 | 2 | 3 => {
              // the first path gets most clauses; simple inner filters keep them satisfiable
              let c = cs[0];
              let d = if rng.chance(1, 2) { 0 } else { depth.saturating_sub(1) };
              fs.push(json!({"Nested": {"path": c.name, "filter": gen_filter(rng, Ctx::In(c), d)}}));
            }
            4 | 5 => {
              let c = cs[cs.len() - 1];
              let d = if rng.chance(1, 2) { 0 } else { depth.saturating_sub(1) };
              fs.push(json!({"Nested": {"path": c.name, "filter": gen_filter(rng, Ctx::In(c), d)}}));
            }
            6 => fs.push(gen_leaf_clause(rng, ctx)),
            _ => fs.push(gen_filter(rng, ctx, depth.saturating_sub(1))),
          }
        }
        rng.shuffle(&mut fs);
      } else {
        for _ in 0..n {
          fs.push(gen_filter(rng, ctx, depth.saturating_sub(1)));
        }
      }
      json!({ "And": fs })
    }
    9 => {
      let n = 2 + rng.below(2);
      json!({"Or": (0..n).map(|_| gen_filter(rng, ctx, depth.saturating_sub(1))).collect::<Vec<_>>()})
    }
    10 => json!({"Not": gen_filter(rng, ctx, depth.saturating_sub(1))}),
    11 => json!({ "And": [] }),
    _ => gen_leaf_clause(rng, ctx),
  }
}

// ---------------------------------------------------------------------------------------------
// binding probes: value-directed `And`s whose nested members are satisfied by DIFFERENT objects
// ---------------------------------------------------------------------------------------------

/// a place in a document where one parent object holds an array of at least two objects:
/// the names from the top down to the array, the schema node of the array, the parent's schema
/// context, the parent object and the objects of the array
struct Site<'a> {
  chain: Vec<String>,
  node: &'a NestedS,
  parent_ctx: Ctx<'a>,
  parent: &'a Map<String, Value>,
  objs: Vec<&'a Map<String, Value>>,
}

fn sites<'a>(s: &'a SchemaS, doc: &'a Value) -> Vec<Site<'a>> {
  fn walk<'a>(ctx: Ctx<'a>, obj: &'a Map<String, Value>, chain: &[String], out: &mut Vec<Site<'a>>) {
    for c in children_of(ctx) {
      if let Some(v) = obj.get(&c.name) {
        let mut ch = chain.to_vec();
        ch.push(c.name.clone());
        let objs: Vec<&Map<String, Value>> = match v {
          Value::Array(a) => a.iter().filter_map(|e| e.as_object()).collect(),
          Value::Object(m) => vec![m],
          _ => Vec::new(),
        };
        if objs.len() >= 2 {
          out.push(Site { chain: ch.clone(), node: c, parent_ctx: ctx, parent: obj, objs: objs.clone() });
        }
        for o in objs {
          walk(Ctx::In(c), o, &ch, out);
        }
      }
    }
  }
  let mut out = Vec::new();
  if let Some(m) = doc.as_object() {
    walk(Ctx::Top(s), m, &[], &mut out);
  }
  out
}

fn never(rng: &mut Rng) -> Value {
  json!({"KeywordEq": {"field": *rng.pick(&["nosuch", "missing"]), "value": "x"}})
}

/// a leaf clause (relative to `ctx`) that object `obj` satisfies, built from one of its values
fn clause_true_of(rng: &mut Rng, ctx: Ctx, obj: &Map<String, Value>) -> Value {
  let mut cands: Vec<(&LeafS, &Value)> = Vec::new();
  for l in leaves_of(ctx) {
    if l.fast {
      if let Some(v) = obj.get(&l.name) {
        for x in scalars(v) {
          cands.push((l, x));
        }
      }
    }
  }
  if cands.is_empty() {
    return json!({"Not": never(rng)});
  }
  let (l, x) = *rng.pick(&cands);
  match l.kind {
    K::Keyword | K::Text => {
      let w = x.as_str().unwrap_or("");
      if rng.chance(1, 2) {
        json!({"KeywordEq": {"field": l.name, "value": flip_case(rng, w)}})
      } else {
        let other = *rng.pick(&KWS);
        let mut vs = vec![flip_case(rng, w), other.to_string()];
        rng.shuffle(&mut vs);
        json!({"KeywordIn": {"field": l.name, "values": vs}})
      }
    }
    K::I64 => {
      let n = x.as_i64().unwrap_or(0);
      json!({"I64Range": {"field": l.name, "min": n - rng.range(0, 1), "max": n + rng.range(0, 1)}})
    }
    K::F64 => {
      let n = x.as_f64().unwrap_or(0.0);
      json!({"F64Range": {"field": l.name, "min": n - rng.range(0, 2) as f64 * 0.25, "max": n + rng.range(0, 2) as f64 * 0.25}})
    }
  }
}

/// `And` (wrapped in the `Nested` clauses leading to the site) with two or three nested members on
/// the site's path, each true of a different object, separated — in random order — by a nested
/// clause on a sibling path, a leaf clause on the parent and/or a trivially true member
fn gen_binding_probe(rng: &mut Rng, s: &SchemaS, docs: &[Value]) -> Option<Value> {
  let mut all: Vec<Site> = Vec::new();
  for d in docs.iter() {
    all.extend(sites(s, d));
  }
  if all.is_empty() {
    return None;
  }
  let site = &all[rng.below(all.len())];
  let p = site.chain.last().unwrap().clone();
  let mut order: Vec<usize> = (0..site.objs.len()).collect();
  rng.shuffle(&mut order);
  let k = if site.objs.len() >= 3 && rng.chance(1, 3) { 3 } else { 2 };
  let mut members: Vec<Value> = Vec::new();
  for &oi in order.iter().take(k) {
    let inner = clause_true_of(rng, Ctx::In(site.node), site.objs[oi]);
    members.push(json!({"Nested": {"path": p, "filter": inner}}));
  }
  // separators
  let siblings: Vec<&NestedS> = children_of(site.parent_ctx).into_iter().filter(|c| c.name != p).collect();
  if !siblings.is_empty() && rng.chance(3, 4) {
    let q = *rng.pick(&siblings);
    let inner = match site.parent.get(&q.name).map(|v| objs_of(v)) {
      Some(os) if !os.is_empty() && rng.chance(2, 3) => {
        let o = os[rng.below(os.len())];
        clause_true_of(rng, Ctx::In(q), o)
      }
      _ => json!({"Not": never(rng)}),
    };
    members.push(json!({"Nested": {"path": q.name, "filter": inner}}));
  }
  if rng.chance(1, 2) {
    members.push(clause_true_of(rng, site.parent_ctx, site.parent));
  }
  if rng.chance(1, 4) {
    members.push(json!({"Not": never(rng)}));
  }
  rng.shuffle(&mut members);
  let mut f = json!({ "And": members });
  for name in site.chain[..site.chain.len() - 1].iter().rev() {
    f = json!({"Nested": {"path": name, "filter": f}});
  }
  Some(f)
}

fn has_nested_in_nested(f: &Value) -> bool {
  let mut used = BTreeSet::new();
  inner_nested_paths(f, "", &mut used);
  !used.is_empty()
}

// ---------------------------------------------------------------------------------------------

/// per filter: ids of the documents the real index returns for `match_all` + filter
fn real_decisions(schema: &Value, docs: &[Value], filters: &[Value]) -> Result<Vec<Result<BTreeSet<String>, String>>, String> {
  let dir = scratch();
  let index = idx::create(dir.path(), schema, true)?;
  // two commits: the documents end up in two segments (the property is per document)
  let half = docs.len() / 2;
  if half > 0 {
    idx::add_commit(&index, &docs[..half])?;
  }
  idx::add_commit(&index, &docs[half..])?;
  let reader = index.reader().map_err(|e| format!("reader: {e}"))?;
  let mut out = Vec::new();
  for f in filters {
    let req = json!({"query": {"type": "match_all"}, "filter": f, "limit": 10000, "execution": "bm25"});
    out.push(match idx::search(&reader, &req) {
      idx::Outcome::Ok(v) => Ok(idx::hit_ids(&v).into_iter().collect()),
      idx::Outcome::Err(e) => Err(format!("error: {e}")),
      idx::Outcome::Panic(e) => Err(format!("panic: {e}")),
    });
  }
  Ok(out)
}

impl Prop for C08 {
  fn id(&self) -> &'static str {
    "C08"
  }
  fn rule(&self) -> &'static str {
    "case = (random schema: keyword/i64/f64 flat fields and nested objects up to 3 levels, mostly fast; 6-14 valid documents with arrays of parent objects each holding child arrays, empty arrays, nulls where nullable, multi-valued leaves; 8 random And/Or/Not/Nested filter trees incl. Ands of 2-5 members that interleave nested clauses on two paths with non-nested members in random order, nested-in-nested, dotted top-level paths, mismatched clause types, case variants; plus up to 3 value-directed binding probes: an And (at any nesting level) whose nested members on one path are each true of a DIFFERENT object of one array of the corpus, separated in random order by a nested clause on a sibling path and other members); the corpus is indexed once (two segments) and every filter is run as match_all+filter; one evaluation = one (corpus, filter) pair; non-trivial = the filter passes at least one and fails at least one document of the corpus; distinct = distinct (schema, docs, filter) JSON"
  }
  fn count(&self, tier: Tier) -> usize {
    tier.pick(160, 6000)
  }
  fn gen(&self, rng: &mut Rng, _tier: Tier, i: usize) -> Value {
    let o = SchemaOpts { fast_8: 7, max_depth: 3, text: false, multi_nested: true };
    let mut s = gen_schema(rng, &o);
    // filters need something to look at
    for _ in 0..4 {
      if !s.nested.is_empty() && !s.flat.is_empty() {
        break;
      }
      s = gen_schema(rng, &o);
    }
    let nd = 6 + rng.below(9);
    let docs: Vec<Value> = (0..nd).map(|d| gen_valid_doc(rng, &s, &format!("c{i}d{d}"))).collect();
    let mut filters: Vec<Value> = (0..8).map(|_| gen_filter(rng, Ctx::Top(&s), 3)).collect();
    // three value-directed binding probes (sibling nested clauses true of different objects)
    for _ in 0..3 {
      if let Some(f) = gen_binding_probe(rng, &s, &docs) {
        filters.push(f);
      }
    }
    json!({"schema": s.to_json(), "docs": docs, "filters": filters})
  }
  fn run_case(&self, drv: &mut Driver, case: &Value, s: &mut Summary) {
    let schema_json = &case["schema"];
    let schema = SchemaS::from_json(schema_json);
    let docs: Vec<Value> = case["docs"].as_array().cloned().unwrap_or_default();
    let filters: Vec<Value> = case["filters"].as_array().cloned().unwrap_or_default();
    let ids: Vec<String> = docs.iter().map(|d| d["_id"].as_str().unwrap_or("").to_string()).collect();
    let real = match real_decisions(schema_json, &docs, &filters) {
      Ok(r) => r,
      Err(e) => {
        s.case(case, false);
        s.disagree("setup", case, json!({"error": e}), json!("valid documents must be indexable"));
        return;
      }
    };
    let multi: Vec<bool> = docs.iter().map(|d| !collision_paths(&schema, d).is_empty()).collect();
    s.add("docs:total", docs.len() as u64);
    s.add("docs:several-parents-with-children", multi.iter().filter(|b| **b).count() as u64);
    for (f, r) in filters.iter().zip(real.iter()) {
      let pair = json!({"schema": schema_json, "docs": docs, "filter": f});
      let small = |d: &Value| json!({"schema": schema_json, "docs": [d], "filters": [f]});
      let hits = match r {
        Ok(h) => h,
        Err(e) => {
          s.case(&pair, false);
          s.fail("filter.search-failed", "match_all + filter did not return a result", &json!({"schema": schema_json, "docs": docs, "filters": [f]}), json!({"outcome": e}));
          continue;
        }
      };
      let real_pass: Vec<bool> = ids.iter().map(|id| hits.contains(id)).collect();
      let np = real_pass.iter().filter(|b| **b).count();
      s.case(&pair, np > 0 && np < docs.len());
      s.count(if has_nested_in_nested(f) { "filter:nested-in-nested" } else if f.to_string().contains("\"Nested\"") { "filter:nested" } else { "filter:flat" });
      s.add("decisions", docs.len() as u64);
      s.add("decisions:pass", np as u64);

      // ---- correspondence: the model of the columns and of filters.rs -----------------------
      let m = drv.call("C08", json!({"op": "eval", "schema": schema_json, "docs": docs, "filter": f}));
      if m["ok"] != json!(true) {
        s.disagree("driver", &json!({"schema": schema_json, "docs": docs, "filters": [f]}), json!(real_pass), m.clone());
        continue;
      }
      let col: Vec<bool> = m["col"].as_array().map(|a| a.iter().map(|b| b.as_bool().unwrap_or(false)).collect()).unwrap_or_default();
      let spec_m: Vec<bool> = m["spec"].as_array().map(|a| a.iter().map(|b| b.as_bool().unwrap_or(false)).collect()).unwrap_or_default();
      let single: Vec<bool> = m["single"].as_array().map(|a| a.iter().map(|b| b.as_bool().unwrap_or(false)).collect()).unwrap_or_default();
      let plain_inside = m["plain_inside"].as_bool().unwrap_or(false);
      let legacy_col: Vec<bool> = m["legacy_col"].as_array().map(|a| a.iter().map(|b| b.as_bool().unwrap_or(false)).collect()).unwrap_or_default();
      if col.len() != docs.len() || spec_m.len() != docs.len() || single.len() != docs.len() {
        s.disagree("driver-shape", &json!({"schema": schema_json, "docs": docs, "filters": [f]}), json!(real_pass), m.clone());
        continue;
      }
      for (k, d) in docs.iter().enumerate() {
        if col[k] != real_pass[k] {
          s.disagree("Col.passes∘flatten", &small(d), json!({"passes": real_pass[k]}), json!({"col": col[k], "spec": spec_m[k], "single": single[k]}));
        }
        // instance of flatten_sound (model vs model): must never fail
        if plain_inside && col[k] != spec_m[k] {
          s.disagree("theorem-instance flatten_sound", &small(d), json!({"passes": real_pass[k]}), json!({"col": col[k], "spec": spec_m[k]}));
        }
        // what the columns written before the repair a2fc693 would have answered
        if legacy_col.get(k).copied().unwrap_or(col[k]) != col[k] {
          s.count("decisions:differ-from-legacy-columns");
        }
        if single[k] == multi[k] {
          s.disagree("singleCarrier-vs-oracle", &small(d), json!({"several_parents": multi[k]}), json!({"single": single[k]}));
        }
        // ---- finder: the documented semantics on the tree, harness oracle, no model -----------
        let want = spec_passes(&schema, d, f);
        // generator strength: decisions that depend on sibling nested clauses sharing one object
        if weak_passes(Grouping::Separate, &schema, d, f) != want {
          s.count("decisions:sibling-binding-matters");
        }
        if weak_passes(Grouping::AdjacentRuns, &schema, d, f) != want {
          s.count("decisions:non-adjacent-sibling-binding-matters");
        }
        if want != spec_m[k] {
          s.disagree("Spec.passes-vs-oracle", &small(d), json!({"oracle": want}), json!({"spec": spec_m[k]}));
        }
        if real_pass[k] != want {
          let sig = mismatch_sig(&schema, d, f);
          s.fail(
            sig,
            if want { "the document satisfies the filter by the documented semantics but is not returned" } else { "the document is returned although it does not satisfy the filter by the documented semantics" },
            &small(d),
            json!({"returned": real_pass[k], "documented": want, "parents_with_children": collision_paths(&schema, d).into_iter().collect::<Vec<_>>()}),
          );
        }
      }
    }
  }
}
