//! C09 — pruned top-k (wand, bmw) equals exhaustive top-k (bm25).
//!
//! Finder (implementation alone): `IndexReader::search` with `execution = wand | bmw` against
//! `execution = bm25` on the same reader: same hits, same order, same scores (rel 2e-5;
//! neighbours with near-equal scores may swap).
//! Correspondence: the Lean model (`SL.TK.search` fed by `SL.Bm25`/`SL.Quant`) for each of the
//! three strategies against the implementation, plus the model-side monitors (`bounds_ok` on
//! hook-free queries, `seg_ok_*`: the premise of `search_pruned_eq_bm25`, `refines_*`: cursor loop =
//! decision rule).
use crate::idx;
use crate::proto::Driver;
use crate::rng::Rng;
use crate::summary::Summary;
use crate::util::scratch;
use crate::{Prop, Tier};
use searchlite_core::Schema;
use serde_json::{json, Map, Value};

pub struct C09;
pub static P: C09 = C09;

pub const TEXT_FIELDS: [&str; 2] = ["body", "title"];
const WORDS: [&str; 10] = ["ta", "tb", "tc", "td", "te", "tf", "tg", "th", "ti", "tj"];
const TAGS: [&str; 6] = ["alpha", "Beta", "gamma", "delta", "Epsilon", "zeta"];

pub fn schema_json() -> Value {
  json!({
    "doc_id_field": "_id",
    "analyzers": [{"name": "ws", "tokenizer": "whitespace", "filters": []}],
    "text_fields": [
      {"name": "body", "analyzer": "ws", "stored": false, "indexed": true},
      {"name": "title", "analyzer": "ws", "stored": false, "indexed": true}
    ],
    "keyword_fields": [{"name": "tag", "stored": false, "indexed": true, "fast": true},
                       {"name": "cat", "stored": false, "indexed": true, "fast": true}],
    "numeric_fields": [{"name": "n", "i64": true, "fast": true, "stored": false},
                       {"name": "m", "i64": true, "fast": true, "stored": false},
                       {"name": "p", "i64": false, "fast": true, "stored": false}]
  })
}

// ---------------------------------------------------------------- shared with C10

/// `[(id, score)]` of a response
pub type Ranking = Vec<(String, f64)>;

/// documents that tie exactly (bit-equal scores) in BOTH lists must appear in the same relative
/// order in both: exact ties are resolved by segment and document order, deterministically
pub fn tie_order_consistent(a: &Ranking, b: &Ranking) -> bool {
  use std::collections::HashMap;
  let sb: HashMap<&String, u64> = b.iter().map(|h| (&h.0, h.1.to_bits())).collect();
  let sa: HashMap<&String, u64> = a.iter().map(|h| (&h.0, h.1.to_bits())).collect();
  let mut ga: HashMap<(u64, u64), Vec<&String>> = HashMap::new();
  for h in a.iter() {
    if let Some(y) = sb.get(&h.0) {
      ga.entry((h.1.to_bits(), *y)).or_default().push(&h.0);
    }
  }
  let mut gb: HashMap<(u64, u64), Vec<&String>> = HashMap::new();
  for h in b.iter() {
    if let Some(x) = sa.get(&h.0) {
      gb.entry((*x, h.1.to_bits())).or_default().push(&h.0);
    }
  }
  ga.iter().all(|(k, v)| gb.get(k).map(|w| w == v).unwrap_or(false))
}

/// the comparison rule of DESIGN §3.5: same length, scores pairwise within `rel`, and within
/// each run of near-equal scores the same set of ids (the last run may be cut by the limit, in
/// which case its members may differ).  Exact ties are not rounding noise:
/// * `strict` (two runs of the IMPLEMENTATION, whose per-document scores are bit-identical
///   across strategies: every leaf sums at most two terms): a run that is bit-equal in both
///   lists with the same score must agree position by position, also when cut by the limit;
/// * otherwise (model in f64 vs implementation in f32): documents tying exactly in both lists
///   must keep their relative order (`tie_order_consistent`).
pub fn same_ranking_mode(a: &Ranking, b: &Ranking, limit: usize, rel: f64, strict: bool) -> bool {
  if a.len() != b.len() {
    return false;
  }
  for i in 0..a.len() {
    if !idx::close(a[i].1, b[i].1, rel) {
      return false;
    }
  }
  let mut s = 0;
  while s < a.len() {
    let mut e = s + 1;
    while e < a.len() && idx::close(a[e - 1].1, a[e].1, rel) {
      e += 1;
    }
    let cut = e == a.len() && a.len() >= limit;
    let exact = strict && a[s].1 == b[s].1 && a[s..e].iter().all(|h| h.1 == a[s].1) && b[s..e].iter().all(|h| h.1 == b[s].1);
    if exact {
      if (s..e).any(|i| a[i].0 != b[i].0) {
        return false;
      }
    } else if !cut {
      let mut x: Vec<&String> = a[s..e].iter().map(|h| &h.0).collect();
      let mut y: Vec<&String> = b[s..e].iter().map(|h| &h.0).collect();
      x.sort();
      y.sort();
      if x != y {
        return false;
      }
    }
    s = e;
  }
  strict || tie_order_consistent(a, b)
}

/// model vs implementation
pub fn same_ranking(a: &Ranking, b: &Ranking, limit: usize, rel: f64) -> bool {
  same_ranking_mode(a, b, limit, rel, false)
}

pub fn ranking_json(r: &Ranking) -> Value {
  Value::Array(r.iter().map(|(i, s)| json!([i, s])).collect())
}

/// score of a model hit: the exact double (`bits`), so that equal model scores mean bit-equal
pub fn model_score(h: &Value) -> f64 {
  match h["bits"].as_u64() {
    Some(b) => f64::from_bits(b),
    None => h["score"].as_f64().unwrap_or(f64::NAN),
  }
}

pub fn model_ranking(v: &Value) -> Ranking {
  v.as_array()
    .map(|a| a.iter().map(|h| (h["id"].as_str().unwrap_or("?").to_string(), model_score(h))).collect())
    .unwrap_or_default()
}

/// analysed view of the corpus for the model: token texts from the REAL index analyzer
pub fn analysed_segments(schema: &Schema, segments: &[Value], deletes: &[String]) -> Result<Value, String> {
  let an = schema.build_analyzers().map_err(|e| e.to_string())?;
  let mut out = Vec::new();
  for seg in segments {
    let mut docs = Vec::new();
    for d in seg.as_array().cloned().unwrap_or_default() {
      let id = d["_id"].as_str().unwrap_or("").to_string();
      let mut text = Map::new();
      for f in TEXT_FIELDS {
        if let Some(v) = d.get(f) {
          let a = an.index_analyzer(f).ok_or("no analyzer")?;
          let mut toks: Vec<Value> = Vec::new();
          let vals: Vec<String> = match v {
            Value::String(s) => vec![s.clone()],
            Value::Array(xs) => xs.iter().filter_map(|x| x.as_str().map(|s| s.to_string())).collect(),
            _ => vec![],
          };
          for s in vals {
            for t in a.analyze(&s) {
              toks.push(json!(t.text));
            }
          }
          text.insert(f.to_string(), Value::Array(toks));
        }
      }
      let list = |v: Option<&Value>| -> Value {
        match v {
          None | Some(Value::Null) => json!([]),
          Some(Value::Array(xs)) => Value::Array(xs.clone()),
          Some(x) => json!([x]),
        }
      };
      let mut kw = Map::new();
      for f in ["tag", "cat"] {
        if d.get(f).is_some() {
          kw.insert(f.to_string(), list(d.get(f)));
        }
      }
      let mut i64s = Map::new();
      for f in ["n", "m"] {
        if d.get(f).is_some() {
          i64s.insert(f.to_string(), list(d.get(f)));
        }
      }
      let mut f64s = Map::new();
      if d.get("p").is_some() {
        f64s.insert("p".to_string(), list(d.get("p")));
      }
      docs.push(json!({"id": id, "deleted": deletes.contains(&id), "text": text, "kw": kw, "i64": i64s, "f64": f64s}));
    }
    out.push(json!({"docs": docs}));
  }
  Ok(Value::Array(out))
}

/// script expression tree → (infix text for the repository, RPN for the model)
pub fn render_expr(e: &Value, infix: &mut String, rpn: &mut Vec<Value>) {
  if let Some(n) = e.as_f64() {
    infix.push_str(&format!("{}", n));
    rpn.push(json!(n));
  } else if let Some(s) = e.as_str() {
    infix.push_str(s);
    rpn.push(json!(s));
  } else if let Some(a) = e.as_array() {
    // [op, lhs, rhs]
    let op = a[0].as_str().unwrap_or("+");
    infix.push('(');
    render_expr(&a[1], infix, rpn);
    infix.push_str(&format!(" {} ", op));
    render_expr(&a[2], infix, rpn);
    infix.push(')');
    rpn.push(json!(op));
  }
}

/// case query tree → (repository query JSON, model query JSON)
pub fn split_query(q: &Value) -> (Value, Value) {
  match q {
    Value::Object(m) => {
      let mut repo = Map::new();
      let mut model = Map::new();
      for (k, v) in m {
        if k == "expr" {
          let mut infix = String::new();
          let mut rpn = Vec::new();
          render_expr(v, &mut infix, &mut rpn);
          repo.insert("script".into(), json!(infix));
          model.insert("rpn".into(), Value::Array(rpn));
        } else {
          let (r, mo) = split_query(v);
          repo.insert(k.clone(), r);
          model.insert(k.clone(), mo);
        }
      }
      (Value::Object(repo), Value::Object(model))
    }
    Value::Array(a) => {
      let (r, m): (Vec<Value>, Vec<Value>) = a.iter().map(split_query).unzip();
      (Value::Array(r), Value::Array(m))
    }
    x => (x.clone(), x.clone()),
  }
}

/// does the query score the same word in two places (two `term` clauses or twice in a query string)?
pub fn repeated_term(q: &Value) -> bool {
  fn words(q: &Value, out: &mut Vec<String>) {
    match q {
      Value::Object(m) => {
        match m.get("type").and_then(|t| t.as_str()) {
          Some("term") => out.push(format!("{}:{}", m.get("field").and_then(|f| f.as_str()).unwrap_or(""), m.get("value").and_then(|f| f.as_str()).unwrap_or(""))),
          Some("query_string") => {
            for w in m.get("query").and_then(|f| f.as_str()).unwrap_or("").split_whitespace() {
              out.push(format!("qs:{w}"));
            }
          }
          _ => {}
        }
        for v in m.values() {
          words(v, out);
        }
      }
      Value::Array(a) => a.iter().for_each(|v| words(v, out)),
      _ => {}
    }
  }
  let mut ws = Vec::new();
  words(q, &mut ws);
  let n = ws.len();
  ws.sort();
  ws.dedup();
  ws.len() < n
}

pub fn has_hook(q: &Value) -> bool {
  match q {
    Value::Object(m) => {
      matches!(m.get("type").and_then(|t| t.as_str()), Some("function_score") | Some("script_score") | Some("rank_feature"))
        || m.values().any(has_hook)
    }
    Value::Array(a) => a.iter().any(has_hook),
    _ => false,
  }
}

/// build the index of a case (one commit per segment, then the deletes)
pub fn build_index(dir: &std::path::Path, segments: &[Value], deletes: &[String]) -> Result<searchlite_core::api::Index, String> {
  let index = idx::create(dir, &schema_json(), true)?;
  for seg in segments {
    let docs = seg.as_array().cloned().unwrap_or_default();
    idx::add_commit(&index, &docs)?;
  }
  if !deletes.is_empty() {
    idx::delete_commit(&index, deletes)?;
  }
  Ok(index)
}

// ---------------------------------------------------------------- generators

fn heavy_tf(rng: &mut Rng) -> usize {
  // heavy-tailed term frequency: 1 mostly, sometimes large
  match rng.below(10) {
    0 => 4 + rng.below(12),
    1 | 2 => 2 + rng.below(3),
    _ => 1,
  }
}

pub fn gen_doc(rng: &mut Rng, id: String, vocab: usize, dense: bool) -> Value {
  let mut body: Vec<&str> = Vec::new();
  for w in 0..vocab {
    let present = if dense { w < 2 && rng.chance(9, 10) || rng.chance(1, 4) } else { rng.chance(3, 5) };
    if present {
      for _ in 0..heavy_tf(rng) {
        body.push(WORDS[w]);
      }
    }
  }
  // filler tokens change the document length
  for _ in 0..rng.below(6) {
    body.push("zz");
  }
  rng.shuffle(&mut body);
  let mut d = Map::new();
  d.insert("_id".into(), json!(id));
  d.insert("body".into(), json!(body.join(" ")));
  if rng.chance(1, 2) {
    let n = 1 + rng.below(3);
    let t: Vec<&str> = (0..n).map(|_| WORDS[rng.below(vocab)]).collect();
    d.insert("title".into(), json!(t.join(" ")));
  }
  if rng.chance(4, 5) {
    d.insert("n".into(), json!(rng.below(60) as i64));
  }
  if rng.chance(4, 5) {
    d.insert("p".into(), json!((rng.below(400) as f64) / 8.0));
  }
  if rng.chance(4, 5) {
    // small divisor for scripts: 0 (and missing) make `x / m` yield no value
    d.insert("m".into(), json!(rng.below(3) as i64));
  }
  if rng.chance(1, 2) {
    d.insert("tag".into(), json!(TAGS[rng.below(TAGS.len())]));
  }
  Value::Object(d)
}

fn boost(rng: &mut Rng) -> Option<f64> {
  match rng.below(4) {
    0 => Some(2.0),
    1 => Some(0.5),
    _ => None,
  }
}

fn with_boost(mut v: Value, b: Option<f64>) -> Value {
  if let Some(b) = b {
    v["boost"] = json!(b);
  }
  v
}

fn term_q(rng: &mut Rng, w: &str, boosted: bool) -> Value {
  let f = if rng.chance(1, 5) { "title" } else { "body" };
  with_boost(json!({"type": "term", "field": f, "value": w}), if boosted { boost(rng) } else { None })
}

/// a hook-free scored query over distinct words
fn plain_q(rng: &mut Rng, vocab: usize, boosted: bool, dis_max: bool) -> Value {
  let mut ws: Vec<&str> = WORDS[..vocab].to_vec();
  rng.shuffle(&mut ws);
  let n = (if rng.chance(1, 6) { 1 } else { 2 + rng.below(2) }).min(ws.len());
  // the same term scored by two clauses (one scored term per (term key, leaf) since 458e503)
  if n >= 2 && rng.chance(1, 4) {
    let j = 1 + rng.below(n - 1);
    ws[j] = ws[0];
  }
  if dis_max {
    let kids: Vec<Value> = ws[..n].iter().map(|w| term_q(rng, w, true)).collect();
    let tie = *rng.pick(&[0.0, 0.3, 1.0]);
    return with_boost(json!({"type": "dis_max", "queries": kids, "tie_breaker": tie}), boost(rng));
  }
  match rng.below(3) {
    0 if !boosted => json!({"type": "query_string", "query": ws[..n].join(" ")}),
    0 => {
      let fields = if rng.chance(1, 2) { json!([{"field": "body", "boost": 2.0}, {"field": "title"}]) } else { json!(["body"]) };
      with_boost(json!({"type": "query_string", "query": ws[..n].join(" "), "fields": fields}), boost(rng))
    }
    1 => {
      let kids: Vec<Value> = ws[..n].iter().map(|w| term_q(rng, w, boosted)).collect();
      with_boost(json!({"type": "bool", "should": kids}), if boosted { boost(rng) } else { None })
    }
    _ => {
      // must + should (+ must_not on a further word)
      let must = vec![term_q(rng, ws[0], boosted)];
      let should: Vec<Value> = ws[1..n].iter().map(|w| term_q(rng, w, boosted)).collect();
      let mut q = json!({"type": "bool", "must": must, "should": should});
      if ws.len() > n && rng.chance(1, 3) {
        q["must_not"] = json!([{"type": "term", "field": "body", "value": ws[n]}]);
      }
      q
    }
  }
}

fn gen_expr(rng: &mut Rng, depth: usize) -> Value {
  if depth == 0 || rng.chance(1, 3) {
    return match rng.below(4) {
      0 => json!("_score"),
      1 => json!("n"),
      2 => json!("p"),
      _ => json!(*rng.pick(&[0.5, 1.0, 2.0, 3.0])),
    };
  }
  let op = *rng.pick(&["+", "*"]);
  json!([op, gen_expr(rng, depth - 1), gen_expr(rng, depth - 1)])
}

fn hook_q(rng: &mut Rng, kind: &str, vocab: usize) -> Value {
  let boosted = rng.chance(1, 2);
  let inner = plain_q(rng, vocab, boosted, false);
  match kind {
    "function_score" => {
      let mut fns = Vec::new();
      let nf = 1 + rng.below(2);
      for _ in 0..nf {
        if rng.chance(3, 4) {
          let mut f = json!({"type": "field_value_factor", "field": *rng.pick(&["n", "p"]), "factor": *rng.pick(&[1.0, 0.5, 2.0])});
          if rng.chance(1, 2) {
            f["modifier"] = json!(*rng.pick(&["none", "log1p", "sqrt", "log2p"]));
          }
          if rng.chance(1, 2) {
            f["missing"] = json!(1.0);
          }
          fns.push(f);
        } else {
          fns.push(json!({"type": "weight", "weight": *rng.pick(&[0.5, 1.5, 3.0])}));
        }
      }
      let mut q = json!({"type": "function_score", "query": inner, "functions": fns});
      if rng.chance(1, 2) {
        q["boost_mode"] = json!(*rng.pick(&["multiply", "sum", "replace", "max", "min"]));
      }
      if rng.chance(1, 3) {
        q["score_mode"] = json!(*rng.pick(&["sum", "multiply", "max", "min", "avg"]));
      }
      if rng.chance(1, 5) {
        q["max_boost"] = json!(20.0);
      }
      if rng.chance(1, 2) {
        // a threshold inside the score range: part of the candidates is dropped by the hook
        q["min_score"] = json!(*rng.pick(&[0.5, 2.0, 4.0, 8.0, 16.0]));
      }
      with_boost(q, boost(rng))
    }
    "script_score" => {
      let e = json!(["*", "_score", gen_expr(rng, 2)]);
      let e = if rng.chance(1, 2) { e } else { json!(["+", e, gen_expr(rng, 1)]) };
      // division by a field that is 0 or missing for some documents: the script yields no value
      let e = if rng.chance(1, 3) { json!(["/", e, "m"]) } else { e };
      with_boost(json!({"type": "script_score", "query": inner, "expr": e}), boost(rng))
    }
    _ => {
      // rank_feature next to scored terms
      let mut rf = json!({"type": "rank_feature", "field": *rng.pick(&["n", "p"])});
      if rng.chance(1, 2) {
        rf["modifier"] = json!(*rng.pick(&["log1p", "sqrt", "none"]));
      }
      if rng.chance(1, 2) {
        rf["missing"] = json!(0.5);
      }
      let rf = with_boost(rf, boost(rng));
      json!({"type": "bool", "should": [inner, rf]})
    }
  }
}

/// "blocky": one long posting list per query word (every document of the segment contains the
/// word, so posting index = document ordinal), term frequency 1 except for a few spikes placed at
/// block starts (`j*B`), block ends (`j*B - 1`) and random positions of the effective block size
/// `B` (`bmw_block_size`, or 128 = the block size of the metadata stored in the index when the
/// request does not set one); all documents have the same length; small limits
pub fn gen_blocky(rng: &mut Rng, i: usize) -> Value {
  let kind = ["plain", "boosted", "dis_max", "plain"][(i / 10) % 4];
  let bs: Value = if rng.chance(1, 2) { Value::Null } else { json!(*rng.pick(&[2, 3, 8, 16, 32, 64, 100])) };
  let b = bs.as_u64().unwrap_or(128) as usize;
  let nblocks = 2 + rng.below(4);
  let n = (b * nblocks + rng.below(b)).clamp(40, 700);
  let total = 24usize;
  let mut tf_a = vec![1usize; n];
  let mut tf_b: Vec<usize> = (0..n).map(|_| rng.below(2)).collect();
  let nspikes = 3 + rng.below(6);
  let mut height = 2 + rng.below(3);
  for _ in 0..nspikes {
    let j = 1 + rng.below(n / b);
    let pos = match rng.below(4) {
      0 | 1 => j * b,
      2 => j * b - 1,
      _ => rng.below(n),
    }
    .min(n - 1);
    // mostly increasing heights: later spikes have to beat a heap that is already full
    height = (height + rng.below(4)).min(18);
    if rng.chance(1, 4) {
      tf_b[pos] = (height / 2).max(1);
    }
    tf_a[pos] = height;
  }
  // early good documents so that the heap is full before the first block boundary
  for k in 0..1 + rng.below(3) {
    tf_a[k.min(n - 1)] = 2 + rng.below(2);
  }
  let docs: Vec<Value> = (0..n)
    .map(|d| {
      let mut body: Vec<&str> = Vec::new();
      body.extend(std::iter::repeat("ta").take(tf_a[d]));
      body.extend(std::iter::repeat("tb").take(tf_b[d].min(total - tf_a[d])));
      while body.len() < total {
        body.push("zz");
      }
      json!({"_id": format!("s0d{d:04}"), "body": body.join(" ")})
    })
    .collect();
  let mut segments = vec![Value::Array(docs)];
  if rng.chance(1, 3) {
    let extra: Vec<Value> = (0..5 + rng.below(20)).map(|d| gen_doc(rng, format!("s1d{d:04}"), 3, false)).collect();
    segments.push(Value::Array(extra));
  }
  let term = |w: &str| json!({"type": "term", "field": "body", "value": w});
  let query = match kind {
    "dis_max" => json!({"type": "dis_max", "queries": [term("ta"), term("tb")], "tie_breaker": *rng.pick(&[0.0, 0.3, 1.0])}),
    "boosted" => json!({"type": "bool", "should": [{"type": "term", "field": "body", "value": "ta", "boost": 2.0}, term("tb")]}),
    _ => {
      if rng.chance(1, 2) {
        term("ta")
      } else {
        json!({"type": "query_string", "query": "ta tb", "fields": ["body"]})
      }
    }
  };
  json!({"class": "blocky", "kind": kind, "segments": segments, "deletes": [], "query": query, "limit": 1 + rng.below(3), "bmw_block_size": bs})
}

pub const KINDS: [&str; 6] = ["plain", "boosted", "dis_max", "function_score", "script_score", "rank_feature"];

fn observed(imp: &[(&str, Option<Ranking>)]) -> Value {
  let mut m = Map::new();
  for (k, r) in imp {
    m.insert(k.to_string(), r.as_ref().map(ranking_json).unwrap_or(Value::Null));
  }
  Value::Object(m)
}

impl Prop for C09 {
  fn id(&self) -> &'static str {
    "C09"
  }
  fn rule(&self) -> &'static str {
    "case = (1-3 segments of random documents over a 3-8 word vocabulary with heavy-tailed term frequencies, optional deletes, one scored query of kind plain|boosted|dis_max|function_score|script_score|rank_feature (in a quarter of the multi-term queries the same term is scored by two clauses), limit 1..50, bmw_block_size 1..300 or default); size classes tiny (8-60 docs, block size 1-3, limit 1-5 or above the corpus size), ties (copies of 2-4 template documents: many exactly equal scores), blocky (one posting list of 40-700 entries with tf spikes at block starts/ends of the effective block size, default or explicit bmw_block_size, limit 1-3), medium (60-250 docs), long (posting lists of 400-1200 entries); every case runs execution=bm25, wand and bmw on one reader; non-trivial = some segment has more accepted candidates than limit+1 (the heap fills and pruning decisions are taken), or the limit exceeds the corpus and a score hook is active (strategies must agree exactly); distinct = distinct case JSON"
  }
  fn count(&self, tier: Tier) -> usize {
    tier.pick(300, 20000)
  }
  fn gen(&self, rng: &mut Rng, _tier: Tier, i: usize) -> Value {
    let class = match i % 10 {
      0 => "long",
      1 | 2 | 3 => "medium",
      4 => "ties",
      5 => "blocky",
      _ => "tiny",
    };
    if class == "blocky" {
      return gen_blocky(rng, i);
    }
    let kind = KINDS[(i / 2) % KINDS.len()];
    let (nseg, ndocs, vocab) = match class {
      "long" => (1 + rng.below(2), 400 + rng.below(801), 4 + rng.below(3)),
      "medium" => (1 + rng.below(3), 60 + rng.below(190), 4 + rng.below(5)),
      _ => (1 + rng.below(2), 8 + rng.below(53), 3 + rng.below(3)),
    };
    let mut segments = Vec::new();
    let mut ids = Vec::new();
    for s in 0..nseg {
      let n = if s + 1 == nseg { ndocs - (ndocs / nseg) * s } else { ndocs / nseg };
      let mut docs = Vec::new();
      // "ties": the documents of a segment are copies of a few templates, so that many
      // documents have exactly the same score (more than fit into the limit+1 heap)
      let templates: Vec<Value> = if class == "ties" { (0..2 + rng.below(3)).map(|_| gen_doc(rng, String::new(), vocab, false)).collect() } else { Vec::new() };
      for d in 0..n.max(1) {
        let id = format!("s{s}d{d:04}");
        ids.push(id.clone());
        if class == "ties" {
          let mut t = rng.pick(&templates).clone();
          t["_id"] = json!(id);
          docs.push(t);
        } else {
          docs.push(gen_doc(rng, id, vocab, class == "long"));
        }
      }
      segments.push(Value::Array(docs));
    }
    let mut deletes: Vec<String> = Vec::new();
    if rng.chance(1, 4) {
      let nd = 1 + rng.below((ids.len() / 6).max(1));
      for _ in 0..nd {
        let id = rng.pick(&ids).clone();
        if !deletes.contains(&id) {
          deletes.push(id);
        }
      }
    }
    let query = match kind {
      "plain" => plain_q(rng, vocab, false, false),
      "boosted" => plain_q(rng, vocab, true, false),
      "dis_max" => plain_q(rng, vocab, true, true),
      k => hook_q(rng, k, vocab),
    };
    let (limit, bs) = match class {
      // every fourth small case has a limit above the corpus size: the heap never fills, no
      // pruning decision is taken, and the strategies must agree whatever the score hook does
      "tiny" | "ties" if rng.chance(1, 4) => (*rng.pick(&[64, 100, 200]), if rng.chance(1, 3) { Value::Null } else { json!(1 + rng.below(3)) }),
      "tiny" | "ties" => (*rng.pick(&[1, 1, 2, 2, 3, 4, 5]), if class == "ties" && rng.chance(1, 3) { Value::Null } else { json!(1 + rng.below(3)) }),
      _ => (1 + rng.below(50), if rng.chance(1, 6) { Value::Null } else { json!(1 + rng.below(300)) }),
    };
    json!({"class": class, "kind": kind, "segments": segments, "deletes": deletes, "query": query, "limit": limit, "bmw_block_size": bs})
  }

  fn run_case(&self, drv: &mut Driver, case: &Value, s: &mut Summary) {
    let segments = case["segments"].as_array().cloned().unwrap_or_default();
    let deletes: Vec<String> = case["deletes"].as_array().map(|a| a.iter().filter_map(|x| x.as_str().map(|s| s.to_string())).collect()).unwrap_or_default();
    let limit = case["limit"].as_u64().unwrap_or(5) as usize;
    let bs = case["bmw_block_size"].clone();
    let (repo_q, model_q) = split_query(&case["query"]);
    let hook = has_hook(&case["query"]);
    let dir = scratch();
    let index = match build_index(dir.path(), &segments, &deletes) {
      Ok(i) => i,
      Err(e) => {
        s.case(case, false);
        s.disagree("setup", case, json!({"error": e}), json!(null));
        return;
      }
    };
    let reader = match index.reader() {
      Ok(r) => r,
      Err(e) => {
        s.case(case, false);
        s.disagree("setup", case, json!({"error": e.to_string()}), json!(null));
        return;
      }
    };
    s.count(&format!("kind.{}", case["kind"].as_str().unwrap_or("?")));
    s.count(&format!("class.{}", case["class"].as_str().unwrap_or("?")));
    if !deletes.is_empty() {
      s.count("with_deletes");
    }
    if repeated_term(&case["query"]) {
      s.count("term_scored_by_two_clauses");
    }
    // ---- run the implementation three times
    let mut imp: Vec<(&str, Option<Ranking>)> = Vec::new();
    let mut errs = Vec::new();
    for ex in ["bm25", "wand", "bmw"] {
      let mut req = json!({"query": repo_q, "limit": limit, "execution": ex, "return_stored": false});
      if !bs.is_null() {
        req["bmw_block_size"] = bs.clone();
      }
      match idx::search(&reader, &req) {
        idx::Outcome::Ok(v) => imp.push((ex, Some(idx::hit_scores(&v)))),
        o => {
          errs.push(json!({"execution": ex, "outcome": o.to_json()}));
          imp.push((ex, None));
        }
      }
    }
    if !errs.is_empty() {
      s.case(case, false);
      // an error/panic on a well-formed request of the modelled fragment: the strategies cannot agree
      s.fail("search.error", "search returned an error or panicked for some execution strategy", case, json!(errs));
      return;
    }
    let get = |k: &str| imp.iter().find(|(e, _)| *e == k).and_then(|(_, r)| r.clone()).unwrap_or_default();
    let (b, w, m) = (get("bm25"), get("wand"), get("bmw"));

    // ---- model
    let schema = idx::schema(&schema_json()).unwrap();
    let model = match analysed_segments(&schema, &segments, &deletes) {
      Ok(segs) => drv.call(
        "C09",
        json!({"op": "search", "k1": 1.2, "b": 0.75, "text_fields": TEXT_FIELDS, "segments": segs, "query": model_q, "limit": limit, "bmw_block_size": bs}),
      ),
      Err(e) => json!({"ok": false, "error": e}),
    };
    let all_docs: usize = segments.iter().map(|sg| sg.as_array().map(|a| a.len()).unwrap_or(0)).sum();
    let nontrivial = (model["candidates"].as_u64().unwrap_or(0) as usize > limit + 1 && b.len() >= limit.min(2)) || (limit >= all_docs && hook && b.len() >= 2);
    s.case(case, nontrivial);
    if model["max_postings"].as_u64().unwrap_or(0) >= 400 {
      s.count("posting_list_ge_400");
    }
    s.count(&format!("limit.{}", if limit <= 5 { "1-5" } else if limit <= 20 { "6-20" } else { "21-50" }));
    s.count(&format!("block.{}", match bs.as_u64() { None => "default", Some(x) if x <= 3 => "1-3", Some(x) if x <= 32 => "4-32", _ => "33-300" }));

    // ---- finder: implementation against itself (no model involved)
    let wand_ok = same_ranking_mode(&w, &b, limit, 2e-5, true);
    let bmw_ok = same_ranking_mode(&m, &b, limit, 2e-5, true);
    let total_docs: usize = segments.iter().map(|sg| sg.as_array().map(|a| a.len()).unwrap_or(0)).sum();
    if limit >= total_docs {
      s.count("limit_ge_corpus");
    }
    if !wand_ok || !bmw_ok {
      let obs = observed(&imp);
      if limit >= total_docs {
        // the per-segment heap (limit+1) can never fill: the threshold stays 0, nothing may be pruned
        s.fail("prune.heap-never-full", "wand/bmw differ from bm25 although the limit exceeds the number of documents (no pruning decision can be taken)", case, obs);
      } else if hook {
        s.fail("prune.score-hook", "wand/bmw differ from bm25 for a query whose score is changed by function_score/script_score/rank_feature (pruning must be off while a score hook is active)", case, obs);
      } else if wand_ok && !bmw_ok {
        s.fail("bmw.block-bound", "bmw differs from bm25 on a hook-free query while wand agrees (block maxima used as a bound for documents they do not cover)", case, obs);
      } else {
        s.fail("wand.differs", "wand differs from bm25 on a hook-free query", case, obs);
      }
    }

    // ---- correspondence: model vs implementation, per strategy
    if model["ok"] != json!(true) {
      s.disagree("model.error", case, observed(&imp), model);
      return;
    }
    if model["negative"] == json!(true) {
      s.count("negative_scores_not_compared");
      return;
    }
    if model["hook"].as_bool() != Some(hook) {
      s.disagree("hook.flag", case, json!(hook), model["hook"].clone());
    }
    if !hook && model["bounds_ok"] != json!(true) {
      s.disagree("monitor.bounds_ok", case, json!("hook-free query"), json!({"bounds_ok": model["bounds_ok"]}));
    }
    // the decidable premise of `search_pruned_eq_bm25` must hold on every case, for both strategies
    for key in ["wf", "valid_bounds", "valid_block_bounds", "blocks_ok", "seg_ok_wand", "seg_ok_bmw", "refines_wand", "refines_bmw"] {
      if model[key] != json!(true) {
        s.disagree(&format!("monitor.{key}"), case, json!(null), json!({key: model[key]}));
      }
    }
    if model["bounds_ok"] == json!(true) {
      s.count("bounds_ok");
    }
    for (ex, r) in [("bm25", &b), ("wand", &w), ("bmw", &m)] {
      let mr = model_ranking(&model[ex]);
      if same_ranking(&mr, r, limit, 2e-5) {
        continue;
      }
      s.disagree(&format!("topk.{ex}"), case, ranking_json(r), ranking_json(&mr));
    }
    if !same_ranking(&model_ranking(&model["wand"]), &model_ranking(&model["bm25"]), limit, 2e-5) {
      s.count("model.wand_ne_bm25");
    }
    if !same_ranking(&model_ranking(&model["bmw"]), &model_ranking(&model["bm25"]), limit, 2e-5) {
      s.count("model.bmw_ne_bm25");
    }
  }
  fn finish(&self, _tier: Tier, s: &mut Summary) {
    s.notes.push("finder compares execution=wand|bmw with execution=bm25 on the same reader; correspondence compares each strategy with the Lean model (SL.TK.search) and checks the monitors bounds_ok / seg_ok / refines".into());
  }
}
