//! C10 — hit order and scores follow the sort spec and BM25.
//!
//! Finder (implementation alone): (a) the hits of a request are the `limit`-prefix of the hits
//! of the same request with a limit that covers all matches; (b) consecutive hits are ordered by
//! the statement's comparator, recomputed here from the documents' values (minimum for
//! ascending, maximum for descending on multi-valued fields, missing last in both directions,
//! `_score` from the returned score, ties by segment then document ordinal).
//! Correspondence: ids in order and scores (rel 2e-5) against the Lean model
//! (`SL.Sort.search` over keys built by `SL.Sort.buildKey`, scores from `SL.Bm25`).
use super::c09::{analysed_segments, build_index, gen_blocky, gen_doc, has_hook, model_ranking, model_score, tie_order_consistent, repeated_term, same_ranking, schema_json, split_query, Ranking, TEXT_FIELDS};
use crate::idx;
use crate::proto::Driver;
use crate::rng::Rng;
use crate::summary::Summary;
use crate::util::scratch;
use crate::{Prop, Tier};
use serde_json::{json, Value};
use std::cmp::Ordering;
use std::collections::HashMap;

pub struct C10;
pub static P: C10 = C10;

const WORDS: [&str; 6] = ["ta", "tb", "tc", "td", "te", "tf"];
const TAGS: [&str; 8] = ["alpha", "Beta", "gamma", "delta", "Epsilon", "zeta", "al", "alphabet"];
const SORT_FIELDS: [&str; 6] = ["_score", "tag", "cat", "n", "m", "p"];

fn kinds() -> Value {
  json!({"tag": "kw", "cat": "kw", "n": "i64", "m": "i64", "p": "f64"})
}

#[derive(Clone, Debug, PartialEq)]
enum V {
  S(String),
  I(i64),
  F(f64),
}

fn cmp_v(a: &V, b: &V) -> Ordering {
  match (a, b) {
    (V::S(x), V::S(y)) => x.as_bytes().cmp(y.as_bytes()),
    (V::I(x), V::I(y)) => x.cmp(y),
    (V::F(x), V::F(y)) => x.total_cmp(y),
    _ => Ordering::Equal,
  }
}

/// the value the statement selects for one sort key: min for asc, max for desc, None = missing
fn select(doc: &Value, field: &str, desc: bool, score: f64) -> Option<V> {
  if field == "_score" {
    return Some(V::F(score));
  }
  let raw: Vec<Value> = match doc.get(field) {
    None | Some(Value::Null) => vec![],
    Some(Value::Array(a)) => a.clone(),
    Some(x) => vec![x.clone()],
  };
  let vals: Vec<V> = raw
    .iter()
    .filter_map(|x| match field {
      "tag" | "cat" => x.as_str().map(|s| V::S(s.to_string())),
      "n" | "m" => x.as_i64().map(V::I),
      _ => x.as_f64().map(V::F),
    })
    .collect();
  let mut it = vals.into_iter();
  let first = it.next()?;
  Some(it.fold(first, |best, v| {
    let o = cmp_v(&v, &best);
    if (desc && o == Ordering::Greater) || (!desc && o == Ordering::Less) {
      v
    } else {
      best
    }
  }))
}

/// comparator of the statement on two hits
fn cmp_hits(plan: &[(String, bool)], a: &(Value, f64, usize, usize), b: &(Value, f64, usize, usize)) -> Ordering {
  for (f, desc) in plan {
    let x = select(&a.0, f, *desc, a.1);
    let y = select(&b.0, f, *desc, b.1);
    let o = match (&x, &y) {
      (None, None) => Ordering::Equal,
      (None, Some(_)) => Ordering::Greater,
      (Some(_), None) => Ordering::Less,
      (Some(x), Some(y)) => {
        let o = cmp_v(x, y);
        if *desc {
          o.reverse()
        } else {
          o
        }
      }
    };
    if o != Ordering::Equal {
      return o;
    }
  }
  a.2.cmp(&b.2).then(a.3.cmp(&b.3))
}

fn resolve_plan(sort: &[Value]) -> Vec<(String, bool)> {
  if sort.is_empty() {
    return vec![("_score".to_string(), true)];
  }
  sort
    .iter()
    .map(|s| {
      let f = s["field"].as_str().unwrap_or("_score").to_string();
      let desc = match s["order"].as_str() {
        Some("desc") => true,
        Some("asc") => false,
        _ => f == "_score",
      };
      (f, desc)
    })
    .collect()
}

fn gen_sort_doc(rng: &mut Rng, id: String, vocab: usize) -> Value {
  let mut d = gen_doc(rng, id, vocab, false);
  // keyword fields: missing / single / multi-valued
  for f in ["tag", "cat"] {
    match rng.below(4) {
      0 => {
        d.as_object_mut().unwrap().remove(f);
      }
      1 | 2 => {
        d[f] = json!(TAGS[rng.below(TAGS.len())]);
      }
      _ => {
        let n = 2 + rng.below(2);
        let vs: Vec<&str> = (0..n).map(|_| TAGS[rng.below(TAGS.len())]).collect();
        d[f] = json!(vs);
      }
    }
  }
  // m: i64 with negatives, sometimes multi-valued or missing; few distinct values → ties
  match rng.below(5) {
    0 => {}
    1 => {
      let vs: Vec<i64> = (0..2 + rng.below(2)).map(|_| rng.range(-4, 4)).collect();
      d["m"] = json!(vs);
    }
    _ => {
      d["m"] = json!(rng.range(-4, 4));
    }
  }
  // n, p (also read by score functions): sometimes multi-valued
  if rng.chance(1, 5) {
    let vs: Vec<i64> = (0..2 + rng.below(2)).map(|_| rng.below(60) as i64).collect();
    d["n"] = json!(vs);
  }
  if rng.chance(1, 5) {
    let vs: Vec<f64> = (0..2 + rng.below(2)).map(|_| rng.below(40) as f64 / 4.0).collect();
    d["p"] = json!(vs);
  }
  d
}

fn term(w: &str, boost: Option<f64>) -> Value {
  let mut t = json!({"type": "term", "field": "body", "value": w});
  if let Some(b) = boost {
    t["boost"] = json!(b);
  }
  t
}

fn gen_query(rng: &mut Rng, vocab: usize) -> (Value, &'static str) {
  let mut ws: Vec<&str> = WORDS[..vocab].to_vec();
  rng.shuffle(&mut ws);
  let n = (1 + rng.below(3)).min(ws.len());
  if n >= 2 && rng.chance(1, 4) {
    // the same term scored by two clauses
    let j = 1 + rng.below(n - 1);
    ws[j] = ws[0];
  }
  let bo = |rng: &mut Rng| match rng.below(3) {
    0 => Some(2.0),
    1 => Some(0.5),
    _ => None,
  };
  let plain = |rng: &mut Rng| -> Value {
    match rng.below(3) {
      0 => json!({"type": "query_string", "query": ws[..n].join(" ")}),
      1 => json!({"type": "bool", "should": ws[..n].iter().map(|w| term(w, bo(rng))).collect::<Vec<_>>()}),
      _ => json!({"type": "dis_max", "queries": ws[..n].iter().map(|w| term(w, bo(rng))).collect::<Vec<_>>(), "tie_breaker": *rng.pick(&[0.0, 0.4, 1.0])}),
    }
  };
  match rng.below(9) {
    0 => (json!({"type": "match_all"}), "match_all"),
    8 => (term(ws[0], bo(rng)), "single_term"),
    1 => {
      let inner = plain(rng);
      let f = json!({"type": "field_value_factor", "field": *rng.pick(&["n", "p"]), "factor": *rng.pick(&[1.0, 0.5]), "modifier": *rng.pick(&["none", "log1p", "sqrt"]), "missing": 1.0});
      (json!({"type": "function_score", "query": inner, "functions": [f], "boost_mode": *rng.pick(&["multiply", "sum", "replace"])}), "function_score")
    }
    2 => {
      let inner = plain(rng);
      (json!({"type": "script_score", "query": inner, "expr": ["+", ["*", "_score", *rng.pick(&[1.0, 2.0])], *rng.pick(&["n", "p"])]}), "script_score")
    }
    3 => (json!({"type": "rank_feature", "field": *rng.pick(&["n", "p"]), "modifier": *rng.pick(&["none", "log1p", "sqrt"]), "missing": 0.5}), "rank_feature"),
    4 => {
      let inner = plain(rng);
      (json!({"type": "bool", "should": [inner, {"type": "rank_feature", "field": "n", "modifier": "log1p"}]}), "rank_feature+terms")
    }
    _ => (plain(rng), "plain"),
  }
}

fn hits_of(resp: &Value) -> Ranking {
  idx::hit_scores(resp)
}

impl Prop for C10 {
  fn id(&self) -> &'static str {
    "C10"
  }
  fn rule(&self) -> &'static str {
    "case = (1-4 segments of 4-40 random documents with missing / single / multi-valued keyword (tag, cat), i64 (n, m) and f64 (p) fast fields, optional deletes, a scored query (match_all, term/bool/dis_max/query_string with boosts, function_score, script_score, rank_feature), a sort plan of 0-3 keys over _score/tag/cat/n/m/p with asc/desc/default order, limit 1..30, execution strategy); every eighth case is a 'ties' corpus (copies of 2-3 template documents, limit 1-4, mostly the default score sort), every eighth a 'blocky' corpus (posting list of 40-700 entries with tf spikes at block boundaries, default score sort, bmw/wand/bm25 with default or explicit block size, limit 1-3); every case is run with its limit and with a limit covering all matches; non-trivial = at least 3 matches and (a field key with a missing or multi-valued value among the matches, or a tie on the first key, or a pure score sort with >= 3 distinct scores); distinct = distinct case JSON"
  }
  fn count(&self, tier: Tier) -> usize {
    tier.pick(400, 20000)
  }
  fn gen(&self, rng: &mut Rng, _tier: Tier, i: usize) -> Value {
    if i % 8 == 1 {
      // long posting lists with tf spikes at block boundaries, default score sort, any strategy
      let mut c = gen_blocky(rng, i);
      c["class"] = json!("blocky");
      c["sort"] = if rng.chance(1, 2) { json!([]) } else { json!([{"field": "_score", "order": "desc"}]) };
      c["execution"] = json!(*rng.pick(&["bmw", "bmw", "wand", "bm25"]));
      return c;
    }
    let ties = i % 8 == 0;
    let nseg = 1 + rng.below(4);
    let vocab = 3 + rng.below(4);
    let mut segments = Vec::new();
    let mut ids = Vec::new();
    for s in 0..nseg {
      let n = 4 + rng.below(37) / nseg.max(1) * 2;
      let mut docs = Vec::new();
      // "ties": copies of a few templates, i.e. many documents with exactly equal scores and keys
      let templates: Vec<Value> = if ties { (0..2 + rng.below(2)).map(|_| gen_sort_doc(rng, String::new(), vocab)).collect() } else { Vec::new() };
      for d in 0..n {
        let id = format!("s{s}d{d:04}");
        ids.push(id.clone());
        if ties {
          let mut t = rng.pick(&templates).clone();
          t["_id"] = json!(id);
          docs.push(t);
        } else {
          docs.push(gen_sort_doc(rng, id, vocab));
        }
      }
      segments.push(Value::Array(docs));
    }
    let mut deletes: Vec<String> = Vec::new();
    if rng.chance(1, 3) {
      for _ in 0..1 + rng.below((ids.len() / 5).max(1)) {
        let id = rng.pick(&ids).clone();
        if !deletes.contains(&id) {
          deletes.push(id);
        }
      }
    }
    let (query, kind) = gen_query(rng, vocab);
    let nkeys = if ties { *rng.pick(&[0, 0, 1]) } else { *rng.pick(&[0, 1, 1, 2, 2, 3]) };
    let mut fields: Vec<&str> = SORT_FIELDS.to_vec();
    rng.shuffle(&mut fields);
    let sort: Vec<Value> = fields[..nkeys]
      .iter()
      .map(|f| match rng.below(3) {
        0 => json!({"field": f, "order": "asc"}),
        1 => json!({"field": f, "order": "desc"}),
        _ => json!({"field": f}),
      })
      .collect();
    let limit = if ties { 1 + rng.below(4) } else { 1 + rng.below(30) };
    let plan = resolve_plan(&sort);
    let fast = plan.len() == 1 && plan[0].0 == "_score" && plan[0].1;
    // every strategy on every path (the default score sort is the pruning path)
    let execution = if fast && ties { *rng.pick(&["bm25", "bm25", "wand", "bmw"]) } else { *rng.pick(&["bm25", "wand", "bmw"]) };
    json!({"class": if ties { "ties" } else { "random" }, "kind": kind, "segments": segments, "deletes": deletes, "query": query, "sort": sort, "limit": limit, "execution": execution})
  }

  fn run_case(&self, drv: &mut Driver, case: &Value, s: &mut Summary) {
    let segments = case["segments"].as_array().cloned().unwrap_or_default();
    let deletes: Vec<String> = case["deletes"].as_array().map(|a| a.iter().filter_map(|x| x.as_str().map(|s| s.to_string())).collect()).unwrap_or_default();
    let limit = case["limit"].as_u64().unwrap_or(5) as usize;
    let sort = case["sort"].as_array().cloned().unwrap_or_default();
    let plan = resolve_plan(&sort);
    let (repo_q, model_q) = split_query(&case["query"]);
    let dir = scratch();
    let index = match build_index(dir.path(), &segments, &deletes) {
      Ok(i) => i,
      Err(e) => {
        s.case(case, false);
        s.disagree("setup", case, json!({"error": e}), json!(null));
        return;
      }
    };
    let reader = match index.reader() {
      Ok(r) => r,
      Err(e) => {
        s.case(case, false);
        s.disagree("setup", case, json!({"error": e.to_string()}), json!(null));
        return;
      }
    };
    // document table: id → (doc, segment ordinal, doc ordinal)
    let mut table: HashMap<String, (Value, usize, usize)> = HashMap::new();
    let mut total_docs = 0usize;
    for (si, seg) in segments.iter().enumerate() {
      for (di, d) in seg.as_array().cloned().unwrap_or_default().into_iter().enumerate() {
        total_docs += 1;
        table.insert(d["_id"].as_str().unwrap_or("").to_string(), (d, si, di));
      }
    }
    let mk = |lim: usize| {
      let mut r = json!({"query": repo_q, "limit": lim, "sort": sort, "execution": case["execution"], "return_stored": false});
      if case.get("bmw_block_size").map(|b| !b.is_null()).unwrap_or(false) {
        r["bmw_block_size"] = case["bmw_block_size"].clone();
      }
      r
    };
    let (page, all) = match (idx::search(&reader, &mk(limit)), idx::search(&reader, &mk(total_docs + 5))) {
      (idx::Outcome::Ok(a), idx::Outcome::Ok(b)) => (hits_of(&a), hits_of(&b)),
      (a, b) => {
        s.case(case, false);
        s.fail("search.error", "search returned an error or panicked on a well-formed sorted request", case, json!({"limit": a.to_json(), "all": b.to_json()}));
        return;
      }
    };
    s.count(&format!("kind.{}", case["kind"].as_str().unwrap_or("?")));
    s.count(&format!("class.{}", case["class"].as_str().unwrap_or("random")));
    s.count(&format!("keys.{}", sort.len()));
    s.count(&format!("segments.{}", segments.len()));
    for (f, d) in &plan {
      s.count(&format!("key.{}.{}", f, if *d { "desc" } else { "asc" }));
    }
    if !deletes.is_empty() {
      s.count("with_deletes");
    }
    // ---- non-triviality
    let rows: Vec<(Value, f64, usize, usize)> = all
      .iter()
      .filter_map(|(id, sc)| table.get(id).map(|(d, si, di)| (d.clone(), *sc, *si, *di)))
      .collect();
    let mut interesting = false;
    if rows.len() >= 3 {
      let (f0, d0) = &plan[0];
      let firsts: Vec<Option<V>> = rows.iter().map(|r| select(&r.0, f0, *d0, r.1)).collect();
      let ties = (1..firsts.len()).any(|i| firsts[i] == firsts[i - 1]);
      let missing_or_multi = plan.iter().any(|(f, _)| f != "_score" && rows.iter().any(|r| matches!(r.0.get(f.as_str()), None | Some(Value::Array(_)))));
      let distinct_scores = {
        let mut v: Vec<u64> = rows.iter().map(|r| r.1.to_bits()).collect();
        v.sort();
        v.dedup();
        v.len()
      };
      interesting = ties || missing_or_multi || (f0 == "_score" && distinct_scores >= 3);
    }
    s.case(case, interesting);
    if rows.len() != all.len() {
      s.fail("sort.unknown-id", "a hit carries an id that was never indexed", case, json!({"all": all.len(), "known": rows.len()}));
      return;
    }
    // ---- finder (a): the page is the prefix of all matches
    let want: Vec<&String> = all.iter().take(limit).map(|h| &h.0).collect();
    let got: Vec<&String> = page.iter().map(|h| &h.0).collect();
    let fast = plan.len() == 1 && plan[0].0 == "_score" && plan[0].1;
    let execution = case["execution"].as_str().unwrap_or("bm25");
    let hook = has_hook(&case["query"]);
    // on the score fast path the page is produced by the pruning executor: ask the mechanism
    // model of C09 (`SL.TK.search`) for the page of this strategy
    let schema = idx::schema(&schema_json()).unwrap();
    let analysed = analysed_segments(&schema, &segments, &deletes);
    let tk = if fast {
      match &analysed {
        Ok(segs) => drv.call("C09", json!({"op": "search", "k1": 1.2, "b": 0.75, "text_fields": TEXT_FIELDS, "segments": segs, "query": model_q, "limit": limit, "bmw_block_size": case.get("bmw_block_size").cloned().unwrap_or(Value::Null)})),
        Err(e) => json!({"ok": false, "error": e}),
      }
    } else {
      Value::Null
    };
    if fast {
      s.count(&format!("fast_path.{execution}"));
    }
    if want != got {
      s.fail("sort.prefix", "the hits of the request are not the limit-prefix of all matches in the same order", case, json!({"page": got, "all_prefix": want, "execution": execution}));
    }
    // ---- finder (b): all matches are ordered by the statement's comparator
    for i in 1..rows.len() {
      if cmp_hits(&plan, &rows[i - 1], &rows[i]) == Ordering::Greater {
        let key = |r: &(Value, f64, usize, usize)| json!({"id": r.0["_id"], "score": r.1, "seg": r.2, "doc": r.3, "keys": plan.iter().map(|(f, d)| format!("{:?}", select(&r.0, f, *d, r.1))).collect::<Vec<_>>()});
        s.fail("sort.order", "two consecutive hits are not in the order of the sort spec (min for asc / max for desc, missing last, segment then document order on ties)", case, json!({"position": i, "a": key(&rows[i - 1]), "b": key(&rows[i]), "plan": plan.iter().map(|(f, d)| format!("{f}:{}", if *d { "desc" } else { "asc" })).collect::<Vec<_>>()}));
        break;
      }
    }
    // ---- finder (c): a bare rank_feature query scores every document with modifier(value),
    // value = the document's own (first) value of the field or `missing` — evaluated directly
    if case["query"]["type"] == json!("rank_feature") {
      let q = &case["query"];
      let f = q["field"].as_str().unwrap_or("n");
      let missing = q["missing"].as_f64().unwrap_or(0.0) as f32 as f64;
      let boost = q["boost"].as_f64().unwrap_or(1.0);
      for r in rows.iter() {
        let own: Option<f64> = match r.0.get(f) {
          Some(Value::Array(a)) => a.first().and_then(|x| x.as_f64()),
          Some(x) => x.as_f64(),
          None => None,
        };
        let raw = own.unwrap_or(missing);
        let m = match q["modifier"].as_str().unwrap_or("none") {
          "log1p" => if raw <= -1.0 { 0.0 } else { raw.ln_1p() },
          "sqrt" => if raw < 0.0 { 0.0 } else { raw.sqrt() },
          "log" => if raw <= 0.0 { 0.0 } else { raw.ln() },
          "reciprocal" => if raw == 0.0 { 0.0 } else { 1.0 / raw },
          _ => raw,
        };
        let want = (m as f32 as f64) * boost;
        if !idx::close(want, r.1, 2e-5) {
          let seg_has_list = segments[r.2].as_array().map(|a| a.iter().any(|d| matches!(d.get(f), Some(Value::Array(_))))).unwrap_or(false);
          let obs = json!({"id": r.0["_id"], "field": f, "own_value": own, "expected_score": want, "observed_score": r.1});
          if own.is_none() && seg_has_list {
            s.fail("score.list-column-missing", "a document without a value for the numeric field of rank_feature is scored with another document's value when the segment holds a multi-valued document for that field (single-value read of a list column ignores the empty range)", case, obs);
          } else {
            s.fail("score.rank-feature", "rank_feature score differs from modifier(value or missing) * boost", case, obs);
          }
          break;
        }
      }
    }
    // ---- finder (d): a single term query scores every hit with BM25 of the statement:
    // idf(N_live, df) * tf*(k1+1) / (tf + k1*(1-b+b*len/avgdl)) * boost, per segment — under
    // every sort plan (hits carry their score also under a field sort since /repo 8218789)
    if case["kind"] == json!("single_term") {
      let q = &case["query"];
      let w = q["value"].as_str().unwrap_or("");
      let boost = q["boost"].as_f64().unwrap_or(1.0);
      let (k1, b) = (1.2f64, 0.75f64);
      for r in rows.iter() {
        let seg = segments[r.2].as_array().cloned().unwrap_or_default();
        let toks = |d: &Value| -> Vec<String> { d["body"].as_str().unwrap_or("").split_whitespace().map(|x| x.to_string()).collect() };
        let n_live = seg.iter().filter(|d| !deletes.contains(&d["_id"].as_str().unwrap_or("").to_string())).count() as f64;
        let df = seg.iter().filter(|d| toks(d).iter().any(|t| t == w)).count() as f64;
        let total: usize = seg.iter().map(|d| toks(d).len()).sum();
        let avgdl = total as f64 / seg.len() as f64;
        let mine = toks(&r.0);
        let tf = mine.iter().filter(|t| *t == w).count() as f64;
        let len = mine.len() as f64;
        let idf = ((n_live - df + 0.5) / (df + 0.5)).ln().max(0.0) + 1.0;
        let want = idf * (tf * (k1 + 1.0)) / (tf + k1 * (1.0 - b + b * len / avgdl)) * boost;
        if !idx::close(want, r.1, 2e-5) {
          s.fail("score.bm25", "the score of a single term query differs from BM25 with the index k1/b and the segment's statistics (N = live docs, df, avgdl, field length) times the boost", case, json!({"id": r.0["_id"], "expected": want, "observed": r.1, "tf": tf, "len": len, "df": df, "n_live": n_live, "avgdl": avgdl}));
          break;
        }
      }
    }
    // deleted documents must not appear
    if let Some(h) = all.iter().find(|h| deletes.contains(&h.0)) {
      s.fail("sort.deleted-hit", "a deleted document is returned", case, json!({"id": h.0}));
    }

    // ---- correspondence
    let model = match analysed.clone() {
      Ok(segs) => drv.call(
        "C10",
        json!({"op": "search", "k1": 1.2, "b": 0.75, "text_fields": TEXT_FIELDS, "segments": segs, "query": model_q, "sort": sort, "kinds": kinds(), "limit": limit}),
      ),
      Err(e) => json!({"ok": false, "error": e}),
    };
    if model["ok"] != json!(true) {
      s.disagree("model.error", case, json!(null), model);
      return;
    }
    if model["eq_spec"] != json!(true) || model["shaped"] != json!(true) {
      s.disagree("monitor.search_sorted", case, json!(null), json!({"eq_spec": model["eq_spec"], "shaped": model["shaped"]}));
    }
    let mpage: Vec<String> = model["hits"].as_array().map(|a| a.iter().map(|h| h["id"].as_str().unwrap_or("?").to_string()).collect()).unwrap_or_default();
    let mh: Ranking = model["all"].as_array().map(|a| a.iter().map(|h| (h["id"].as_str().unwrap_or("?").to_string(), model_score(h))).collect()).unwrap_or_default();
    let uses_score = plan.iter().any(|(f, _)| f == "_score");
    let mut ok = mh.len() == all.len();
    if ok {
      for i in 0..mh.len() {
        if !idx::close(mh[i].1, all[i].1, 2e-5) {
          ok = false;
          break;
        }
        if mh[i].0 != all[i].0 {
          // a swap is only acceptable between hits whose scores are equal within tolerance and
          // only when the score takes part in the order
          let other = all.iter().find(|h| h.0 == mh[i].0).map(|h| h.1);
          if !(uses_score && other.map(|o| idx::close(o, all[i].1, 2e-5)).unwrap_or(false)) {
            ok = false;
            break;
          }
        }
      }
    }
    // exact ties (bit-equal in the model and in the implementation) keep segment/document order
    if ok && !tie_order_consistent(&mh, &all) {
      ok = false;
    }
    if !ok {
      s.disagree("sorted.hits", case, json!(all.iter().map(|h| json!([h.0, h.1])).collect::<Vec<_>>()), json!(mh.iter().map(|h| json!([h.0, h.1])).collect::<Vec<_>>()));
    }
    if hook {
      s.count("with_score_hook");
    }
    if repeated_term(&case["query"]) {
      s.count("term_scored_by_two_clauses");
    }
    // fast path: the page of the request against the mechanism model of the chosen strategy
    if fast {
      if tk["ok"] != json!(true) {
        s.disagree("model.error", case, json!(null), tk.clone());
      } else if tk["negative"] != json!(true) {
        let mr = model_ranking(&tk[execution]);
        if !same_ranking(&mr, &page, limit, 2e-5) {
          s.disagree(&format!("fastpath.page.{execution}"), case, json!(page.iter().map(|h| json!([h.0, h.1])).collect::<Vec<_>>()), json!(mr.iter().map(|h| json!([h.0, h.1])).collect::<Vec<_>>()));
        }
      }
    }
    // the model's page for the request's own limit (bounded heap / per-segment top-k + merge)
    let mall_prefix: Vec<String> = mh.iter().take(limit).map(|h| h.0.clone()).collect();
    if mpage != mall_prefix {
      s.disagree("model.page_prefix", case, json!(null), json!({"page": mpage, "all_prefix": mall_prefix}));
    }
  }
  fn finish(&self, _tier: Tier, s: &mut Summary) {
    s.notes.push("finder: prefix property and the statement's comparator recomputed from the documents; correspondence: order and scores of ALL matches against SL.Sort.search / SL.Bm25".into());
  }
}
