//! C11 — cursor pagination is complete, duplicate-free and safe.
//!
//! Finder (implementation alone): a full walk (follow `next_cursor` until absent) must return
//! exactly the hits of ONE request whose limit covers all matches — same ids, same order, same
//! score bits; `total_hits_estimate` ≤ true matches on every response and exact for
//! `execution: "bm25"`; a cursor replayed against a changed index (commit with adds,
//! delete-only commit, compaction) or against another sort plan must be rejected with an error.
//!
//! Correspondence (model `SL.Cursor`): page boundaries / tie order / `returned` / totals of the
//! model's `walkPages` vs the real pages; every real cursor parsed by the model, re-encoded by the
//! model byte for byte, plan hash (CRC-32) recomputed; index generations after commit /
//! delete-only commit / compaction vs the real manifest; decode outcome class (ok / error) on
//! ASCII-mutated cursors (hex level, field level, JSON level).
use crate::idx::{self};
use crate::proto::Driver;
use crate::rng::Rng;
use crate::summary::Summary;
use crate::util::{guarded, hex, scratch, unhex};
use crate::{Prop, Tier};
use searchlite_core::api::reader::IndexReader;
use searchlite_core::api::Index;
use serde_json::{json, Value};
use std::collections::{BTreeMap, BTreeSet};

pub struct C11;
pub static P: C11 = C11;

const WORDS: [&str; 6] = ["rust", "search", "engine", "fast", "lite", "index"];
/// keyword values: ≤ 7 bytes (rank encoding), including bytes that serde_json escapes and
/// multi-byte UTF-8 (inside the JSON payload only — the cursor string itself stays ASCII hex)
const TAGS: [&str; 9] = ["a", "b", "c", "ab", "zz", "A", "é", "q\"x", "t\tb"];
const I64S: [i64; 9] = [-2, -1, 0, 1, 2, 3, 7, i64::MIN, i64::MAX];
const F64S: [f64; 10] = [0.5, 1.5, 2.25, -3.0, 1e16, 0.1, 0.30000000000000004, 1.0e-7, 123456.789, 5e-324];

fn schema_json() -> Value {
  json!({
    "doc_id_field": "_id",
    "text_fields": [{"name": "body", "analyzer": "default", "stored": true, "indexed": true, "nullable": false}],
    "keyword_fields": [{"name": "tag", "stored": true, "indexed": true, "fast": true, "nullable": true}],
    "numeric_fields": [
      {"name": "n", "i64": true, "fast": true, "stored": true, "nullable": true},
      {"name": "x", "i64": false, "fast": true, "stored": true, "nullable": true}
    ]
  })
}

// ---------------------------------------------------------------------------------------------
// running requests

#[derive(Clone, Debug)]
struct Page {
  ids: Vec<String>,
  bits: Vec<u32>,
  total: u64,
  next: Option<String>,
}

#[derive(Clone, Debug)]
enum Out {
  Ok(Page),
  Err(String),
  Panic(String),
}

impl Out {
  fn class(&self) -> &'static str {
    match self {
      Out::Ok(_) => "ok",
      Out::Err(_) => "error",
      Out::Panic(_) => "panic",
    }
  }
  fn to_json(&self) -> Value {
    match self {
      Out::Ok(p) => json!({"ok": {"ids": p.ids, "bits": p.bits, "total": p.total, "next": p.next}}),
      Out::Err(e) => json!({"error": e}),
      Out::Panic(e) => json!({"panic": e}),
    }
  }
}

fn base_req(case: &Value, sort: &Value, limit: usize, cursor: Option<&str>) -> Value {
  let mut r = json!({
    "query": case["query"].clone(),
    "limit": limit,
    "sort": sort.clone(),
    "execution": case["execution"].clone(),
    "return_stored": false,
  });
  if let Some(c) = cursor {
    r["cursor"] = json!(c);
  }
  r
}

fn run(reader: &IndexReader, req: &Value) -> Out {
  let r = match idx::request(req) {
    Ok(r) => r,
    Err(e) => return Out::Err(e),
  };
  match guarded(|| reader.search(&r)) {
    Ok(Ok(res)) => Out::Ok(Page {
      ids: res.hits.iter().map(|h| h.doc_id.clone()).collect(),
      bits: res.hits.iter().map(|h| h.score.to_bits()).collect(),
      total: res.total_hits_estimate,
      next: res.next_cursor.clone(),
    }),
    Ok(Err(e)) => Out::Err(format!("{e:#}")),
    Err(p) => Out::Panic(p),
  }
}

// ---------------------------------------------------------------------------------------------
// sort plans and model keys

#[derive(Clone, Debug, PartialEq)]
struct PlanField {
  kind: u8, // 0 score, 1 keyword, 2 i64, 3 f64
  name: String,
  desc: bool,
}

fn plan_of(sort: &Value) -> Vec<PlanField> {
  let specs = sort.as_array().cloned().unwrap_or_default();
  if specs.is_empty() {
    return vec![PlanField { kind: 0, name: "_score".into(), desc: true }];
  }
  specs
    .iter()
    .map(|s| {
      let f = s["field"].as_str().unwrap_or("").to_string();
      let desc = match s["order"].as_str() {
        Some("desc") => true,
        Some("asc") => false,
        _ => f == "_score",
      };
      let kind = match f.as_str() {
        "_score" => 0,
        "tag" => 1,
        "n" => 2,
        _ => 3,
      };
      PlanField { kind, name: f, desc }
    })
    .collect()
}

fn plan_json(plan: &[PlanField]) -> Value {
  Value::Array(plan.iter().map(|f| json!({"kind": f.kind, "name": f.name, "desc": f.desc})).collect())
}

fn is_score_fast(plan: &[PlanField]) -> bool {
  plan.len() == 1 && plan[0].kind == 0 && plan[0].desc
}

/// order-preserving integer of an f32 under `total_cmp`
fn f32_rank(bits: u32) -> i64 {
  if bits >> 31 == 1 {
    -((bits & 0x7fff_ffff) as i64) - 1
  } else {
    bits as i64
  }
}

fn f64_rank(v: f64) -> i64 {
  let bits = v.to_bits();
  if bits >> 63 == 1 {
    -((bits & 0x7fff_ffff_ffff_ffff) as i64) - 1
  } else {
    bits as i64
  }
}

/// order-preserving integer of a byte string of at most 7 bytes (byte-wise lexicographic order)
fn str_rank(s: &[u8]) -> Option<i64> {
  if s.len() > 7 {
    return None;
  }
  let mut k: i64 = 0;
  for i in 0..7 {
    k = k * 257 + s.get(i).map(|b| *b as i64 + 1).unwrap_or(0);
  }
  Some(k)
}

fn values_of(v: &Value) -> Vec<Value> {
  match v {
    Value::Null => Vec::new(),
    Value::Array(a) => a.clone(),
    x => vec![x.clone()],
  }
}

/// the rank of the selected value (min for asc, max for desc) of one plan field; `Null` = Missing
fn part_rank(f: &PlanField, doc: &Value, score_bits: u32) -> Value {
  match f.kind {
    0 => json!(f32_rank(score_bits)),
    1 => {
      let ranks: Vec<i64> = values_of(&doc["tag"]).iter().filter_map(|v| v.as_str().and_then(|s| str_rank(s.as_bytes()))).collect();
      let sel = if f.desc { ranks.iter().max() } else { ranks.iter().min() };
      sel.map(|r| json!(r)).unwrap_or(Value::Null)
    }
    2 => {
      let vs: Vec<i64> = values_of(&doc["n"]).iter().filter_map(|v| v.as_i64()).collect();
      let sel = if f.desc { vs.iter().max() } else { vs.iter().min() };
      sel.map(|r| json!(r)).unwrap_or(Value::Null)
    }
    _ => {
      let vs: Vec<i64> = values_of(&doc["x"]).iter().filter_map(|v| v.as_f64()).map(f64_rank).collect();
      let sel = if f.desc { vs.iter().max() } else { vs.iter().min() };
      sel.map(|r| json!(r)).unwrap_or(Value::Null)
    }
  }
}

/// where the writer puts each document: segment ordinal = index of the commit batch, doc id =
/// rank of `_id` inside its batch (`pending_new` is a `BTreeMap<String, _>`)
fn addresses(commits: &[Vec<Value>]) -> BTreeMap<String, (u64, u64, Value)> {
  let mut out = BTreeMap::new();
  for (seg, batch) in commits.iter().enumerate() {
    let mut ids: Vec<(String, Value)> = batch.iter().map(|d| (d["_id"].as_str().unwrap_or("").to_string(), d.clone())).collect();
    ids.sort_by(|a, b| a.0.cmp(&b.0));
    for (k, (id, d)) in ids.into_iter().enumerate() {
      out.insert(id, (seg as u64, k as u64, d));
    }
  }
  out
}

/// model keys of the documents of `all` (ids with score bits), in (seg, doc) order
fn model_keys(plan: &[PlanField], addr: &BTreeMap<String, (u64, u64, Value)>, all: &Page) -> (Vec<Value>, BTreeMap<(u64, u64), String>) {
  let mut keys: Vec<(u64, u64, Value)> = Vec::new();
  let mut back = BTreeMap::new();
  for (id, bits) in all.ids.iter().zip(all.bits.iter()) {
    if let Some((seg, doc, d)) = addr.get(id) {
      let parts: Vec<Value> = plan.iter().map(|f| part_rank(f, d, *bits)).collect();
      keys.push((*seg, *doc, json!({"parts": parts, "seg": seg, "doc": doc})));
      back.insert((*seg, *doc), id.clone());
    }
  }
  keys.sort_by(|a, b| (a.0, a.1).cmp(&(b.0, b.1)));
  (keys.into_iter().map(|k| k.2).collect(), back)
}

/// plans that differ from `sort` in exactly one respect (label, sort spec list)
fn neighbour_plans(sort: &Value) -> Vec<(String, Value)> {
  // explicit form of the issuing plan
  let plan = plan_of(sort);
  let spec = |f: &PlanField, desc: bool| json!({"field": f.name, "order": if desc { "desc" } else { "asc" }});
  let explicit: Vec<Value> = plan.iter().map(|f| spec(f, f.desc)).collect();
  let mut out = Vec::new();
  for (i, f) in plan.iter().enumerate() {
    let mut v = explicit.clone();
    v[i] = spec(f, !f.desc);
    let kind = ["score", "kw", "i64", "f64"][f.kind as usize];
    out.push((format!("flip.{kind}.{}", if plan.len() == 1 { "single" } else { "multi" }), Value::Array(v)));
  }
  if plan.len() >= 2 {
    out.push(("drop_last".to_string(), Value::Array(explicit[..plan.len() - 1].to_vec())));
    let mut v = explicit.clone();
    v.swap(0, 1);
    out.push(("swap_first_two".to_string(), Value::Array(v)));
  }
  out
}

// ---------------------------------------------------------------------------------------------
// the harness's own reading of a real cursor (independent of the model)

#[derive(Clone, Debug, PartialEq)]
struct CurInfo {
  generation: u64,
  returned: u64,
  plan_hash: Option<u64>,
  seg: u64,
  doc: u64,
}

fn be32(b: &[u8]) -> u64 {
  ((b[0] as u64) << 24) | ((b[1] as u64) << 16) | ((b[2] as u64) << 8) | b[3] as u64
}

fn read_cursor(cur: &str, fast: bool) -> Option<CurInfo> {
  if !cur.is_ascii() || cur.len() % 2 != 0 {
    return None;
  }
  let bytes = unhex(cur);
  if fast {
    if bytes.len() != 21 {
      return None;
    }
    Some(CurInfo { generation: be32(&bytes[1..5]), returned: be32(&bytes[17..21]), plan_hash: None, seg: be32(&bytes[9..13]), doc: be32(&bytes[13..17]) })
  } else {
    let v: Value = serde_json::from_slice(&bytes).ok()?;
    Some(CurInfo {
      generation: v["generation"].as_u64()?,
      returned: v["returned"].as_u64()?,
      plan_hash: Some(v["plan_hash"].as_u64()?),
      seg: v["segment_ord"].as_u64()?,
      doc: v["doc_id"].as_u64()?,
    })
  }
}

// ---------------------------------------------------------------------------------------------
// cursor mutations (ASCII only)

fn num_edit(old: u64, spec: &str) -> String {
  if let Some(k) = spec.strip_prefix("add:") {
    let d: i64 = k.parse().unwrap_or(1);
    ((old as i64).wrapping_add(d)).to_string()
  } else if let Some(t) = spec.strip_prefix("lit:") {
    t.to_string()
  } else {
    spec.to_string()
  }
}

/// replace the number after `"key":` in a JSON text
fn json_set_num(text: &str, key: &str, spec: &str) -> Option<String> {
  let pat = format!("\"{key}\":");
  let at = text.find(&pat)? + pat.len();
  let rest = &text[at..];
  let end = rest.find(|c: char| !(c.is_ascii_digit() || c == '-')).unwrap_or(rest.len());
  let old: u64 = rest[..end].parse().ok()?;
  Some(format!("{}{}{}", &text[..at], num_edit(old, spec), &rest[end..]))
}

/// apply one mutation descriptor to a real cursor; `None` = not applicable to this cursor
fn mutate(cur: &str, fast: bool, m: &Value) -> Option<String> {
  let kind = m["m"].as_str()?;
  let chars: Vec<char> = cur.chars().collect();
  match kind {
    "same" => Some(cur.to_string()),
    "empty" => Some(String::new()),
    "upper" => Some(cur.to_ascii_uppercase()),
    "trunc" => {
      let n = (m["n"].as_u64()? as usize).min(chars.len());
      Some(chars[..chars.len() - n].iter().collect())
    }
    "append" => Some(format!("{cur}{}", m["s"].as_str()?)),
    "flip" => {
      if chars.is_empty() {
        return None;
      }
      let p = m["pos"].as_u64()? as usize % chars.len();
      let c = m["ch"].as_str()?.chars().next()?;
      if !c.is_ascii() {
        return None;
      }
      let mut cs = chars.clone();
      cs[p] = c;
      Some(cs.into_iter().collect())
    }
    "plus" => {
      // a byte whose high nibble is 0 written as "+d": the same byte for `u8::from_str_radix`
      let n = chars.len() / 2;
      if n == 0 {
        return None;
      }
      let start = m["pos"].as_u64()? as usize % n;
      for k in 0..n {
        let i = 2 * ((start + k) % n);
        if chars[i] == '0' {
          let mut cs = chars.clone();
          cs[i] = '+';
          return Some(cs.into_iter().collect());
        }
      }
      None
    }
    "u32" => {
      // score cursor fields, byte level
      if !fast || cur.len() != 42 {
        return None;
      }
      let mut b = unhex(cur);
      let (lo, hi) = match m["field"].as_str()? {
        "generation" => (1, 5),
        "score" => (5, 9),
        "seg" => (9, 13),
        "doc" => (13, 17),
        "returned" => (17, 21),
        _ => return None,
      };
      let old = be32(&b[lo..hi]);
      let new: u64 = num_edit(old, m["val"].as_str()?).parse::<i64>().ok()? as u64 & 0xffff_ffff;
      b[lo..hi].copy_from_slice(&(new as u32).to_be_bytes());
      Some(hex(&b))
    }
    "version" => {
      let v = m["val"].as_u64()? as u8;
      if fast {
        if cur.len() != 42 {
          return None;
        }
        let mut b = unhex(cur);
        b[0] = v;
        Some(hex(&b))
      } else {
        let text = String::from_utf8(unhex(cur)).ok()?;
        Some(hex(json_set_num(&text, "version", &format!("lit:{v}"))?.as_bytes()))
      }
    }
    _ => {
      // JSON-level edits of a sort cursor
      if fast {
        return None;
      }
      let text = String::from_utf8(unhex(cur)).ok()?;
      let out = match kind {
        "json_num" => json_set_num(&text, m["key"].as_str()?, m["val"].as_str()?)?,
        "json_ws" => {
          // whitespace around structural characters outside strings
          let mut o = String::new();
          let mut in_str = false;
          let mut esc = false;
          for c in text.chars() {
            if in_str {
              o.push(c);
              if esc {
                esc = false;
              } else if c == '\\' {
                esc = true;
              } else if c == '"' {
                in_str = false;
              }
            } else {
              match c {
                '"' => {
                  in_str = true;
                  o.push(c);
                }
                ':' | ',' | '{' | '}' | '[' | ']' => {
                  o.push(' ');
                  o.push(c);
                  o.push_str(" \n\t");
                }
                _ => o.push(c),
              }
            }
          }
          o
        }
        "json_reorder" => {
          // move the first member to the end
          let inner = text.strip_prefix('{')?.strip_suffix('}')?;
          let comma = inner.find(',')?;
          format!("{{{},{}}}", &inner[comma + 1..], &inner[..comma])
        }
        "json_append" => {
          // text inserted before the final `}` (duplicate key, unknown key …)
          let inner = text.strip_suffix('}')?;
          format!("{inner}{}}}", m["text"].as_str()?)
        }
        "json_drop" => {
          let key = m["key"].as_str()?;
          let pat = format!("\"{key}\":");
          let at = text.find(&pat)?;
          let rest = &text[at + pat.len()..];
          let end = rest.find(|c: char| !(c.is_ascii_digit() || c == '-'))?;
          let mut o = format!("{}{}", &text[..at], &rest[end..]);
          o = o.replace("{,", "{").replace(",,", ",");
          o
        }
        "json_sub" => {
          let from = m["from"].as_str()?;
          if !text.contains(from) {
            return None;
          }
          text.replacen(from, m["to"].as_str()?, 1)
        }
        "json_tail" => format!("{text}{}", m["text"].as_str()?),
        _ => return None,
      };
      if !out.is_ascii() && false {
        return None;
      }
      Some(hex(out.as_bytes()))
    }
  }
}

fn gen_mutation(rng: &mut Rng) -> Value {
  const CH: [&str; 14] = ["0", "7", "a", "f", "A", "F", "+", "-", "g", " ", "z", "x", "/", ":"];
  match rng.below(22) {
    0 => json!({"m": "empty"}),
    1 => json!({"m": "upper"}),
    2 => json!({"m": "trunc", "n": 1 + rng.below(3)}),
    3 => json!({"m": "append", "s": *rng.pick(&["0", "00", "+1", "zz", " "])}),
    4 | 5 | 6 => json!({"m": "flip", "pos": rng.below(4096), "ch": *rng.pick(&CH)}),
    7 => json!({"m": "plus", "pos": rng.below(4096)}),
    8 => json!({"m": "u32", "field": *rng.pick(&["generation", "score", "seg", "doc", "returned"]), "val": *rng.pick(&["add:1", "add:-1", "lit:0", "lit:50000", "lit:50001", "lit:4294967295"])}),
    9 => json!({"m": "version", "val": *rng.pick(&[0u64, 1, 2, 3, 255])}),
    10 | 11 => json!({"m": "json_num", "key": *rng.pick(&["generation", "plan_hash", "returned", "segment_ord", "doc_id", "version"]),
      "val": *rng.pick(&["add:1", "add:-1", "lit:0", "lit:50000", "lit:50001", "lit:4294967295", "lit:4294967296", "lit:-1", "lit:-0", "lit:1.0", "lit:1e0", "lit:01", "lit:256", "lit:\"1\"", "lit:null", "lit:18446744073709551616"])}),
    12 => json!({"m": "json_ws"}),
    13 => json!({"m": "json_reorder"}),
    14 => json!({"m": "json_append", "text": *rng.pick(&[",\"returned\":1", ",\"version\":2", ",\"zzz\":true", ",\"zzz\":null", ",\"zzz\":-1.5e3", ",\"zzz\":\"a\\u00e9\\n\"", ",\"zzz\":[1]", ",\"zzz\":{}", ",\"zzz\":tru", ",", ",\"values\":[]"])}),
    15 => json!({"m": "json_drop", "key": *rng.pick(&["generation", "plan_hash", "returned", "segment_ord", "doc_id", "version"])}),
    16 | 17 => {
      let subs: [(&str, &str); 14] = [
        ("\"t\":\"i64\"", "\"t\":\"f64\""),
        ("\"t\":\"f64\"", "\"t\":\"i64\""),
        ("\"t\":\"str\"", "\"t\":\"score\""),
        ("\"t\":\"score\"", "\"t\":\"i64\""),
        ("{\"t\":\"missing\"}", "{\"t\":\"missing\",\"v\":null}"),
        ("{\"t\":\"missing\"}", "{}"),
        ("{\"t\":\"missing\"}", "{\"t\":\"Missing\"}"),
        ("\"values\":[", "\"values\":[{\"t\":\"missing\"},"),
        ("\"values\":[{", "\"values\":[ {"),
        ("}]}", "}]} "),
        ("}]}", "}]}x"),
        ("}]}", "}}"),
        ("\"v\":", "\"v\" : "),
        ("{\"t\":", "{\"v\":1,\"t\":"),
      ];
      let (f, t) = *rng.pick(&subs);
      json!({"m": "json_sub", "from": f, "to": t})
    }
    18 => json!({"m": "json_tail", "text": *rng.pick(&[" ", "\n", "{}", "x", ","])}),
    19 => json!({"m": "same"}),
    _ => json!({"m": "flip", "pos": rng.below(4096), "ch": *rng.pick(&CH)}),
  }
}

// ---------------------------------------------------------------------------------------------
// case generation

fn gen_doc(rng: &mut Rng, id: String, vocab: usize) -> Value {
  let n = 1 + rng.below(4);
  let body: Vec<&str> = (0..n).map(|_| WORDS[rng.below(vocab)]).collect();
  let mut d = json!({"_id": id, "body": body.join(" ")});
  // tag: missing / single / multi
  match rng.below(6) {
    0 => {}
    1 => d["tag"] = json!([*rng.pick(&TAGS), *rng.pick(&TAGS)]),
    _ => {
      let k = 2 + rng.below(TAGS.len() - 1);
      d["tag"] = json!(*rng.pick(&TAGS[..k]))
    }
  }
  match rng.below(6) {
    0 => {}
    1 => d["n"] = json!([*rng.pick(&I64S), *rng.pick(&I64S[..6])]),
    _ => {
      let k = 2 + rng.below(I64S.len() - 1);
      d["n"] = json!(*rng.pick(&I64S[..k]))
    }
  }
  match rng.below(7) {
    0 => {}
    1 => d["x"] = json!([*rng.pick(&F64S), *rng.pick(&F64S)]),
    2 | 3 => d["x"] = json!((rng.f64() - 0.3) * 1000.0),
    _ => {
      let k = 2 + rng.below(F64S.len() - 1);
      d["x"] = json!(*rng.pick(&F64S[..k]))
    }
  }
  d
}

fn gen_sort(rng: &mut Rng) -> Value {
  let order = |rng: &mut Rng| -> Option<&'static str> {
    match rng.below(3) {
      0 => Some("asc"),
      1 => Some("desc"),
      _ => None,
    }
  };
  let spec = |f: &str, o: Option<&str>| -> Value {
    match o {
      Some(o) => json!({"field": f, "order": o}),
      None => json!({"field": f}),
    }
  };
  match rng.below(10) {
    0 | 1 | 2 => json!([]),
    3 => json!([spec("_score", order(rng))]),
    _ => {
      let mut fields = vec!["_score", "tag", "n", "x"];
      rng.shuffle(&mut fields);
      let k = 1 + rng.below(3);
      Value::Array(fields[..k].iter().map(|f| spec(f, order(rng))).collect())
    }
  }
}

fn gen_walk(rng: &mut Rng) -> Value {
  let nseg = 1 + rng.below(4);
  let vocab = 2 + rng.below(WORDS.len() - 1);
  let mut commits: Vec<Vec<Value>> = Vec::new();
  // segments with the same composition give equal BM25 statistics ⇒ score ties across segments
  let clone_segments = rng.chance(1, 2);
  let first: Vec<Value> = (0..(1 + rng.below(9))).map(|k| gen_doc(rng, format!("s0_{k:02}"), vocab)).collect();
  commits.push(first.clone());
  for s in 1..nseg {
    if clone_segments && rng.chance(2, 3) {
      let mut batch = Vec::new();
      for (k, d) in first.iter().enumerate() {
        let mut d = d.clone();
        d["_id"] = json!(format!("s{s}_{k:02}"));
        if rng.chance(1, 4) {
          // perturb one sort value, keep the body (score tie stays)
          d["n"] = json!(*rng.pick(&I64S[..6]));
        }
        batch.push(d);
      }
      commits.push(batch);
    } else {
      let m = 1 + rng.below(9);
      commits.push((0..m).map(|k| gen_doc(rng, format!("s{s}_{k:02}"), vocab)).collect());
    }
  }
  let all_ids: Vec<String> = commits.iter().flatten().map(|d| d["_id"].as_str().unwrap().to_string()).collect();
  let pre_delete: Vec<String> = if rng.chance(1, 3) { (0..(1 + rng.below(2))).map(|_| rng.pick(&all_ids).clone()).collect() } else { Vec::new() };
  let query = match rng.below(8) {
    0 | 1 => json!({"type": "match_all"}),
    2 => json!({"type": "term", "field": "body", "value": WORDS[rng.below(vocab)]}),
    3 => json!(WORDS[rng.below(vocab)]),
    _ => {
      // distinct words (a repeated word in a query string trips a debug assertion — C16's finding)
      let mut ws: Vec<&str> = WORDS[..vocab].to_vec();
      rng.shuffle(&mut ws);
      let k = (2 + rng.below(3)).min(ws.len());
      json!(ws[..k].join(" "))
    }
  };
  let sort = gen_sort(rng);
  let post = *rng.pick(&["delete_only", "delete_only", "commit_add", "compact", "other_sort", "other_sort", "reopen", "delete_cursor_doc"]);
  let other_sort = loop {
    let s = gen_sort(rng);
    if plan_of(&s) != plan_of(&sort) {
      break s;
    }
  };
  let nm = 6;
  let mut mutations: Vec<Value> = (0..nm).map(|_| gen_mutation(rng)).collect();
  // the advance cap on both encodings, in every case (the inapplicable one is skipped)
  let cap = *rng.pick(&["lit:50001", "lit:50000"]);
  mutations.push(json!({"m": "u32", "field": "returned", "val": cap}));
  mutations.push(json!({"m": "json_num", "key": "returned", "val": cap}));
  json!({
    "kind": "walk",
    "commits": commits,
    "pre_delete": pre_delete,
    "query": query,
    "sort": sort,
    "limit": 1 + rng.below(7),
    "execution": *rng.pick(&["wand", "wand", "bm25"]),
    "post": post,
    "post_pick": rng.below(1000),
    "other_sort": other_sort,
    "mutations": mutations,
    "repeat": 1,
  })
}

// ---------------------------------------------------------------------------------------------

fn build(case: &Value) -> Result<(tempfile::TempDir, Index), String> {
  let dir = scratch();
  let idx = idx::create(dir.path(), &schema_json(), false)?;
  for batch in case["commits"].as_array().cloned().unwrap_or_default() {
    let docs = batch.as_array().cloned().unwrap_or_default();
    idx::add_commit(&idx, &docs)?;
  }
  let pre: Vec<String> = case["pre_delete"].as_array().map(|a| a.iter().filter_map(|x| x.as_str().map(|s| s.to_string())).collect()).unwrap_or_default();
  if !pre.is_empty() {
    idx::delete_commit(&idx, &pre)?;
  }
  Ok((dir, idx))
}

/// segments of the real manifest as the model sees them
fn manifest_view(idx: &Index) -> (u64, Value) {
  let m = idx.manifest();
  // the generation cursors are bound to is the manifest revision (every effective commit and
  // compaction bumps it).  Read through the manifest's own serde form so that the harness also
  // builds against a tree without that field (then: the maximal segment generation, as before
  // fc973e1 — the model still expects the revision and the correspondence breaks).
  let g = serde_json::to_value(&m)
    .ok()
    .and_then(|v| v["revision"].as_u64())
    .unwrap_or_else(|| m.segments.iter().map(|s| s.generation as u64).max().unwrap_or(0));
  let segs: Vec<Value> = m
    .segments
    .iter()
    .map(|s| {
      let mut d: Vec<u64> = s.deleted_docs.iter().map(|x| *x as u64).collect();
      d.sort();
      d.dedup();
      json!({"generation": s.generation, "docs": s.doc_count, "deleted": d})
    })
    .collect();
  (g, Value::Array(segs))
}

fn canon_segs(v: &Value) -> Value {
  Value::Array(
    v.as_array()
      .cloned()
      .unwrap_or_default()
      .iter()
      .map(|s| {
        let mut d: Vec<u64> = s["deleted"].as_array().map(|a| a.iter().filter_map(|x| x.as_u64()).collect()).unwrap_or_default();
        d.sort();
        d.dedup();
        json!({"generation": s["generation"], "docs": s["docs"], "deleted": d})
      })
      .collect(),
  )
}

/// rank form of a value of a decoded cursor state (model JSON) for the model's `page`
fn state_part(v: &Value, kind: u8) -> Option<Value> {
  // a value whose type differs from the column's compares `Equal` in `SortKeyPart::cmp`; the rank
  // abstraction cannot express that, such cursors are not paged by the model
  let t = v["t"].as_str()?;
  let fits = matches!((t, kind), ("score", 0) | ("str", 1) | ("i64", 2) | ("f64", 3) | ("missing", _));
  if !fits {
    return None;
  }
  match t {
    "score" => Some(json!(f32_rank(v["v"].as_u64()? as u32))),
    "i64" => Some(json!(v["v"].as_i64()?)),
    "f64" => Some(json!(f64_rank(f64::from_bits(v["v"].as_u64()?)))),
    "str" => {
      let b = unhex(v["hex"].as_str()?);
      Some(json!(str_rank(&b)?))
    }
    "missing" => Some(Value::Null),
    _ => None,
  }
}

struct Walk {
  pages: Vec<Page>,
  error: Option<(usize, Out)>,
}

fn walk(reader: &IndexReader, case: &Value, sort: &Value, limit: usize, max_pages: usize) -> Walk {
  let mut pages = Vec::new();
  let mut cursor: Option<String> = None;
  loop {
    let out = run(reader, &base_req(case, sort, limit, cursor.as_deref()));
    match out {
      Out::Ok(p) => {
        cursor = p.next.clone();
        pages.push(p);
        if cursor.is_none() {
          return Walk { pages, error: None };
        }
        if pages.len() > max_pages {
          return Walk { pages, error: Some((max_pages, Out::Err("walk does not terminate".into()))) };
        }
      }
      o => {
        let at = pages.len();
        return Walk { pages, error: Some((at, o)) };
      }
    }
  }
}

impl C11 {
  fn run_walk(&self, drv: &mut Driver, case: &Value, s: &mut Summary) {
    let (_dir, idx) = match build(case) {
      Ok(x) => x,
      Err(e) => {
        s.count("build_failed");
        s.notes.push(format!("C11 build failed: {e}"));
        s.case(case, false);
        return;
      }
    };
    let commits: Vec<Vec<Value>> = case["commits"].as_array().cloned().unwrap_or_default().iter().map(|b| b.as_array().cloned().unwrap_or_default()).collect();
    let ndocs: usize = commits.iter().map(|b| b.len()).sum();
    let addr = addresses(&commits);
    let sort = case["sort"].clone();
    let plan = plan_of(&sort);
    let fast = is_score_fast(&plan);
    let limit = case["limit"].as_u64().unwrap_or(1).max(1) as usize;
    let exec = case["execution"].as_str().unwrap_or("wand").to_string();
    let exhaustive = exec == "bm25" || !fast;
    let reader = match idx.reader() {
      Ok(r) => r,
      Err(e) => {
        s.notes.push(format!("C11 reader failed: {e}"));
        s.case(case, false);
        return;
      }
    };
    s.count(&format!("plan.{}", if fast { "score_fast".to_string() } else { plan.iter().map(|f| format!("{}{}", ["score", "kw", "i64", "f64"][f.kind as usize], if f.desc { "-" } else { "+" })).collect::<Vec<_>>().join(",") }));
    s.count(&format!("exec.{exec}"));
    s.count(&format!("limit.{limit}"));
    s.count(&format!("segments.{}", commits.len()));

    // ---- reference: one request whose limit covers all matches; truth = exhaustive bm25 ----
    let all = match run(&reader, &base_req(case, &sort, ndocs + 5, None)) {
      Out::Ok(p) => p,
      o => {
        s.fail("all.request-failed", "the single request covering all matches failed", case, o.to_json());
        s.case(case, false);
        return;
      }
    };
    let mut truth_case = case.clone();
    truth_case["execution"] = json!("bm25");
    let truth = match run(&reader, &base_req(&truth_case, &sort, ndocs + 5, None)) {
      Out::Ok(p) => p.ids.len() as u64,
      _ => all.ids.len() as u64,
    };
    if all.next.is_some() {
      s.fail("all.has-next-cursor", "a request whose limit exceeds the number of documents returned a next_cursor", case, json!({"hits": all.ids.len()}));
    }
    if all.total > truth {
      s.fail("total.exceeds-matches", "total_hits_estimate exceeds the true number of matches", case, json!({"total": all.total, "truth": truth, "where": "single request"}));
    }
    if exec == "bm25" && all.total != truth {
      s.fail("total.inexact-bm25", "total_hits_estimate is not exact for execution bm25", case, json!({"total": all.total, "truth": truth, "where": "single request"}));
    }

    // ---- the walk (finder: implementation alone) ----
    let repeat = case["repeat"].as_u64().unwrap_or(1).max(1);
    let mut w = walk(&reader, case, &sort, limit, ndocs + 3);
    for _ in 1..repeat {
      if w.error.is_some() {
        break;
      }
      w = walk(&reader, case, &sort, limit, ndocs + 3);
    }
    let npages = w.pages.len();
    let walked_ids: Vec<String> = w.pages.iter().flat_map(|p| p.ids.iter().cloned()).collect();
    let walked_bits: Vec<u32> = w.pages.iter().flat_map(|p| p.bits.iter().cloned()).collect();
    // ties in the primary sort value among the matches
    let (keys, back) = model_keys(&plan, &addr, &all);
    let primary: Vec<String> = keys.iter().map(|k| k["parts"][0].to_string()).collect();
    let distinct_primary: BTreeSet<&String> = primary.iter().collect();
    let has_tie = distinct_primary.len() < primary.len();
    let nontrivial = npages >= 2 && has_tie;
    s.case(case, nontrivial);
    s.add("pages", npages as u64);
    s.add("hits_walked", walked_ids.len() as u64);
    if has_tie {
      s.count("walks_with_primary_ties");
    }
    if npages >= 2 {
      s.count("walks_with_2plus_pages");
    }
    if let Some((at, o)) = &w.error {
      // the cursor that was sent with the failing request
      let sent = if *at > 0 { w.pages[*at - 1].next.clone() } else { None };
      let sig = match o {
        Out::Panic(_) => "walk.page-panic",
        _ => "walk.page-error",
      };
      s.fail(sig, "a page of the walk failed although the index did not change", case, json!({"page": at, "outcome": o.to_json(), "cursor_sent": sent, "pages_before": w.pages.iter().map(|p| p.ids.clone()).collect::<Vec<_>>()}));
    } else {
      if walked_ids != all.ids {
        let mut seen = BTreeSet::new();
        let dup: Vec<&String> = walked_ids.iter().filter(|i| !seen.insert((*i).clone())).collect();
        let all_set: BTreeSet<&String> = all.ids.iter().collect();
        let missing: Vec<&String> = all.ids.iter().filter(|i| !seen.contains(*i)).collect();
        let extra: Vec<&String> = walked_ids.iter().filter(|i| !all_set.contains(*i)).collect();
        let sig = if !dup.is_empty() {
          "walk.duplicate"
        } else if !missing.is_empty() {
          "walk.missing"
        } else if !extra.is_empty() {
          "walk.extra"
        } else {
          "walk.order"
        };
        s.fail(sig, "the concatenated pages differ from the single request covering all matches", case, json!({"walk": w.pages.iter().map(|p| p.ids.clone()).collect::<Vec<_>>(), "all": all.ids, "dup": dup, "missing": missing, "extra": extra}));
      } else if walked_bits != all.bits {
        s.fail("walk.score-differs", "a hit has a different score in the walk than in the single request", case, json!({"walk": walked_bits, "all": all.bits}));
      }
      for (i, p) in w.pages.iter().enumerate() {
        if i + 1 < npages && p.ids.len() != limit {
          s.fail("walk.short-page", "a page that is not the last one has fewer hits than the limit", case, json!({"page": i, "hits": p.ids.len(), "limit": limit}));
        }
      }
    }
    for (i, p) in w.pages.iter().enumerate() {
      if p.total > truth {
        s.fail("total.exceeds-matches", "total_hits_estimate exceeds the true number of matches", case, json!({"total": p.total, "truth": truth, "page": i}));
      }
      if exec == "bm25" && p.total != truth {
        s.fail("total.inexact-bm25", "total_hits_estimate is not exact for execution bm25", case, json!({"total": p.total, "truth": truth, "page": i}));
      }
    }

    // ---- correspondence 1: the model's walk over the same keys ----
    let dirs: Vec<bool> = plan.iter().map(|f| f.desc).collect();
    let (real_gen, real_segs) = manifest_view(&idx);
    if w.error.is_none() {
      let m = drv.call("C11", json!({"op": "walk", "dirs": dirs, "keys": keys, "limit": limit}));
      let mut model_pages: Vec<Value> = Vec::new();
      let mut ok = m["ok"] == json!(true) && m["failed"] == json!(false);
      if ok {
        for (i, mp) in m["pages"].as_array().cloned().unwrap_or_default().iter().enumerate() {
          let ids: Vec<String> = mp["hits"].as_array().cloned().unwrap_or_default().iter().map(|h| back.get(&(h[0].as_u64().unwrap_or(0), h[1].as_u64().unwrap_or(0))).cloned().unwrap_or_default()).collect();
          let rp = w.pages.get(i);
          let info = rp.and_then(|p| p.next.as_deref()).and_then(|c| read_cursor(c, fast));
          let real_next = match (&info, rp.map(|p| p.next.is_some())) {
            (Some(ci), _) => json!({"seg": ci.seg, "doc": ci.doc, "returned": ci.returned}),
            (None, Some(true)) => json!("unreadable"),
            _ => Value::Null,
          };
          let real_total = rp.map(|p| p.total);
          let same = rp.map(|p| p.ids == ids).unwrap_or(false) && real_next == mp["next"] && (!exhaustive || real_total == mp["total"].as_u64());
          if !same {
            ok = false;
          }
          model_pages.push(json!({"ids": ids, "next": mp["next"], "total": mp["total"]}));
        }
        if model_pages.len() != npages {
          ok = false;
        }
      }
      if !ok {
        let real: Vec<Value> = w.pages.iter().map(|p| json!({"ids": p.ids, "next": p.next.as_deref().and_then(|c| read_cursor(c, fast)).map(|ci| json!({"seg": ci.seg, "doc": ci.doc, "returned": ci.returned})), "total": p.total})).collect();
        s.disagree("walk.pages", case, json!(real), if model_pages.is_empty() { m } else { json!(model_pages) });
      }
    }

    // ---- correspondence 2: plan hash, generations, codec on every real cursor ----
    let ph = drv.call("C11", json!({"op": "plan_hash", "fields": plan_json(&plan)}));
    if ph["score_fast"] != json!(fast) {
      s.disagree("plan.score_fast", case, json!(fast), ph.clone());
    }
    let hist = {
      // the model's history: one commit per batch, then the optional delete-only commit
      let mut ops: Vec<Value> = commits.iter().map(|b| json!({"op": "commit", "dels": [], "adds": b.len()})).collect();
      let pre: Vec<String> = case["pre_delete"].as_array().map(|a| a.iter().filter_map(|x| x.as_str().map(|s| s.to_string())).collect()).unwrap_or_default();
      if !pre.is_empty() {
        let dels: Vec<Value> = pre.iter().filter_map(|id| addr.get(id)).map(|(sg, d, _)| json!([sg, d])).collect();
        ops.push(json!({"op": "commit", "dels": dels, "adds": 0}));
      }
      ops
    };
    let mg = drv.call("C11", json!({"op": "gen", "segs": [], "ops": hist}));
    let last = mg["states"].as_array().and_then(|a| a.last().cloned()).unwrap_or(Value::Null);
    if last["generation"].as_u64() != Some(real_gen) || canon_segs(&last["segs"]) != real_segs {
      s.disagree("index.generations", case, json!({"generation": real_gen, "segs": real_segs}), last.clone());
    }
    let req_model = json!({"generation": real_gen, "plan_hash": ph["hash"], "plan_len": plan.len(), "score_fast": fast});
    let mut n_cursors = 0u64;
    for p in w.pages.iter() {
      let Some(cur) = p.next.as_deref() else { continue };
      n_cursors += 1;
      let info = read_cursor(cur, fast);
      let d = drv.call("C11", json!({"op": "decode", "raw": cur, "req": req_model}));
      let e = if d["class"] == json!("ok") { drv.call("C11", json!({"op": "encode", "score": fast, "state": d["state"]})) } else { Value::Null };
      let agree = d["class"] == json!("ok")
        && e["cursor"].as_str() == Some(cur)
        && info.as_ref().map(|ci| d["state"]["generation"].as_u64() == Some(ci.generation) && d["state"]["returned"].as_u64() == Some(ci.returned) && d["state"]["segment_ord"].as_u64() == Some(ci.seg) && d["state"]["doc_id"].as_u64() == Some(ci.doc) && (fast || d["state"]["plan_hash"].as_u64() == ci.plan_hash)).unwrap_or(false)
        && info.as_ref().map(|ci| ci.generation == real_gen && (fast || ci.plan_hash == ph["hash"].as_u64())).unwrap_or(false);
      if !agree {
        s.disagree("cursor.codec", case, json!({"cursor": cur, "read": format!("{info:?}"), "generation": real_gen}), json!({"decode": d, "encode": e, "plan_hash": ph}));
      }
    }
    s.add("real_cursors_decoded_and_reencoded", n_cursors);

    if w.error.is_some() {
      s.count("walk_failed.mutations_and_replays_skipped");
      return;
    }
    // ---- page 2 material ----
    let Some(c1) = w.pages.first().and_then(|p| p.next.clone()) else {
      s.count("single_page_walk");
      return;
    };
    let page2 = w.pages.get(1).cloned();

    // ---- correspondence 3: mutated cursors (ASCII only) ----
    let d0 = drv.call("C11", json!({"op": "decode", "raw": c1, "req": req_model}));
    for m in case["mutations"].as_array().cloned().unwrap_or_default() {
      let Some(mc) = mutate(&c1, fast, &m) else {
        s.count("mutation.not_applicable");
        continue;
      };
      if !mc.is_ascii() {
        s.count("mutation.non_ascii_skipped");
        continue;
      }
      let sub = json!({"mutation": m, "cursor": mc, "of": c1});
      let real = run(&reader, &base_req(case, &sort, limit, Some(&mc)));
      if let Out::Panic(msg) = &real {
        s.fail("cursor.panic-on-ascii-cursor", "search panicked on an ASCII cursor string", case, json!({"cursor": mc, "panic": msg}));
        continue;
      }
      let md = drv.call("C11", json!({"op": "decode", "raw": mc, "req": req_model}));
      let mclass = md["class"].as_str().unwrap_or("?").to_string();
      s.count(&format!("mutation.model_{mclass}"));
      match mclass.as_str() {
        "unmodelled" => {}
        "error" => {
          if real.class() != "error" {
            s.disagree("cursor.decode-class", case, json!({"sub": sub, "real": real.to_json()}), md.clone());
          }
        }
        "ok" => {
          let st = &md["state"];
          let same_key = st["values"] == d0["state"]["values"] && st["segment_ord"] == d0["state"]["segment_ord"] && st["doc_id"] == d0["state"]["doc_id"];
          if same_key {
            // only `returned`, spelling or member order changed: the same page must come back
            let okk = match (&real, &page2) {
              (Out::Ok(p), Some(p2)) => p.ids == p2.ids,
              _ => false,
            };
            if !okk {
              s.disagree("cursor.equivalent-spelling", case, json!({"sub": sub, "real": real.to_json()}), md.clone());
            }
          } else {
            // another key: ask the model's page function
            let parts: Option<Vec<Value>> = st["values"].as_array().filter(|a| a.len() == plan.len()).map(|a| a.iter().zip(plan.iter()).map(|(v, f)| state_part(v, f.kind)).collect()).unwrap_or(None);
            match parts {
              Some(parts) if parts.len() == plan.len() => {
                let mp = drv.call("C11", json!({"op": "page", "dirs": dirs, "keys": keys, "limit": limit,
                  "cursor": {"key": {"parts": parts, "seg": st["segment_ord"], "doc": st["doc_id"]}, "returned": st["returned"]}}));
                let agree = match (&real, mp["class"].as_str()) {
                  (Out::Ok(p), Some("ok")) => {
                    let ids: Vec<String> = mp["resp"]["hits"].as_array().cloned().unwrap_or_default().iter().map(|h| back.get(&(h[0].as_u64().unwrap_or(0), h[1].as_u64().unwrap_or(0))).cloned().unwrap_or_default()).collect();
                    ids == p.ids && (!exhaustive || mp["resp"]["total"].as_u64() == Some(p.total))
                  }
                  (Out::Err(_), Some("error")) => true,
                  _ => false,
                };
                s.count("mutation.other_key_paged");
                if !agree {
                  s.disagree("cursor.other-key-page", case, json!({"sub": sub, "real": real.to_json()}), json!({"decode": md, "page": mp}));
                }
              }
              _ => s.count("mutation.other_key_not_rankable"),
            }
          }
        }
        _ => s.disagree("cursor.decode-class", case, json!({"sub": sub}), md.clone()),
      }
    }

    // ---- neighbouring plans: the same cursor against every plan that differs from the issuing
    // plan in exactly one respect (one key's direction flipped — including a `_score` key inside
    // a multi-key plan —, the last key dropped, the first two keys swapped).  Every one is
    // another sort order and must reject the cursor (finder); the model's decode under the
    // neighbour's plan hash is compared as well (correspondence). ----
    for (what, nsort) in neighbour_plans(&sort) {
      let nplan = plan_of(&nsort);
      if nplan == plan {
        continue;
      }
      s.count(&format!("neighbour_plan.{what}"));
      let real = run(&reader, &base_req(case, &nsort, limit, Some(&c1)));
      match &real {
        Out::Panic(msg) => {
          s.fail("cursor.panic-on-ascii-cursor", "search panicked on a replayed cursor", case, json!({"cursor": c1, "sort": nsort, "panic": msg}));
          continue;
        }
        Out::Ok(_) => {
          s.fail("cursor.accepted-by-other-sort-plan", "a cursor was accepted although the index or the sort plan changed", case, json!({"post": format!("neighbour plan: {what}"), "issued_under": sort, "replayed_under": nsort, "cursor": c1, "response": real.to_json()}));
        }
        Out::Err(_) => {}
      }
      let nph = drv.call("C11", json!({"op": "plan_hash", "fields": plan_json(&nplan)}));
      let nreq = json!({"generation": real_gen, "plan_hash": nph["hash"], "plan_len": nplan.len(), "score_fast": is_score_fast(&nplan)});
      let md = drv.call("C11", json!({"op": "decode", "raw": c1, "req": nreq}));
      if md["class"] != json!("error") || real.class() != "error" {
        // the model must reject too (distinct plan bytes ⇒ distinct CRC for these short strings);
        // anything else is a disagreement between model and implementation or a CRC collision
        if md["class"].as_str() != Some(real.class()) {
          s.disagree("cursor.neighbour-plan-decode", case, json!({"sort": nsort, "real": real.to_json()}), md.clone());
        }
      }
    }

    // ---- stale cursors: the index changes (or the plan does), the page-1 cursor is replayed ----
    let post = case["post"].as_str().unwrap_or("none").to_string();
    let pick = case["post_pick"].as_u64().unwrap_or(0) as usize;
    s.count(&format!("post.{post}"));
    let cursor_id = w.pages[0].ids.last().cloned().unwrap_or_default();
    let live_ids: Vec<String> = all.ids.clone();
    let mut ops_after: Vec<Value> = Vec::new();
    let mut expect_reject = true;
    let mut sig = "";
    let mut new_sort = sort.clone();
    let mut commits_after = commits.clone();
    match post.as_str() {
      "commit_add" => {
        let d = json!({"_id": "zz_new", "body": WORDS.join(" "), "tag": "a", "n": 0, "x": 0.5});
        if let Err(e) = idx::add_commit(&idx, &[d.clone()]) {
          s.notes.push(format!("C11 post commit failed: {e}"));
          return;
        }
        commits_after.push(vec![d]);
        ops_after.push(json!({"op": "commit", "dels": [], "adds": 1}));
        sig = "cursor.accepted-after-commit";
      }
      "delete_only" | "delete_cursor_doc" => {
        let victim = if post == "delete_cursor_doc" {
          cursor_id.clone()
        } else {
          let others: Vec<&String> = live_ids.iter().filter(|i| **i != cursor_id).collect();
          if others.is_empty() {
            s.count("post.skipped_no_other_doc");
            return;
          }
          others[pick % others.len()].clone()
        };
        if let Err(e) = idx::delete_commit(&idx, &[victim.clone()]) {
          s.notes.push(format!("C11 post delete failed: {e}"));
          return;
        }
        let (sg, dc, _) = addr.get(&victim).cloned().unwrap_or((0, 0, Value::Null));
        ops_after.push(json!({"op": "commit", "dels": [[sg, dc]], "adds": 0}));
        sig = if post == "delete_cursor_doc" { "cursor.accepted-after-deleting-the-cursor-document" } else { "cursor.accepted-after-delete-only-commit" };
      }
      "compact" => {
        if let Err(e) = idx.compact() {
          s.notes.push(format!("C11 post compact failed: {e}"));
          return;
        }
        ops_after.push(json!({"op": "compact"}));
        if commits.len() <= 1 {
          expect_reject = false; // `compact` does nothing with one segment: the index is unchanged
          s.count("post.compact_noop");
        }
        sig = "cursor.accepted-after-compaction";
      }
      "other_sort" => {
        new_sort = case["other_sort"].clone();
        sig = "cursor.accepted-by-other-sort-plan";
      }
      "reopen" => {
        expect_reject = false;
      }
      _ => return,
    }
    let reopened: Option<Index> = if post == "reopen" {
      match idx::open(_dir.path()) {
        Ok(i) => Some(i),
        Err(e) => {
          s.notes.push(format!("C11 reopen failed: {e}"));
          return;
        }
      }
    } else {
      None
    };
    let idx2: &Index = reopened.as_ref().unwrap_or(&idx);
    let reader2 = match idx2.reader() {
      Ok(r) => r,
      Err(e) => {
        s.notes.push(format!("C11 reader2 failed: {e}"));
        return;
      }
    };
    let real = run(&reader2, &base_req(case, &new_sort, limit, Some(&c1)));
    if let Out::Panic(msg) = &real {
      s.fail("cursor.panic-on-ascii-cursor", "search panicked on a replayed cursor", case, json!({"cursor": c1, "panic": msg}));
      return;
    }
    s.count(&format!("post.{post}.real_{}", real.class()));
    // finder: a changed index / another plan must reject
    if expect_reject && real.class() == "ok" {
      s.fail(sig, "a cursor was accepted although the index or the sort plan changed", case, json!({"post": post, "cursor": c1, "response": real.to_json()}));
    }
    // correspondence: generations after the operation, decode class under the new request
    let (gen2, segs2) = manifest_view(idx2);
    let mut hist2 = hist.clone();
    hist2.extend(ops_after.iter().cloned());
    let mg2 = drv.call("C11", json!({"op": "gen", "segs": [], "ops": hist2}));
    let last2 = mg2["states"].as_array().and_then(|a| a.last().cloned()).unwrap_or(Value::Null);
    if last2["generation"].as_u64() != Some(gen2) || canon_segs(&last2["segs"]) != segs2 {
      s.disagree("index.generations-after", case, json!({"post": post, "generation": gen2, "segs": segs2}), last2.clone());
    }
    let plan2 = plan_of(&new_sort);
    let ph2 = drv.call("C11", json!({"op": "plan_hash", "fields": plan_json(&plan2)}));
    let req2 = json!({"generation": last2["generation"], "plan_hash": ph2["hash"], "plan_len": plan2.len(), "score_fast": is_score_fast(&plan2)});
    let md = drv.call("C11", json!({"op": "decode", "raw": c1, "req": req2}));
    match md["class"].as_str() {
      Some("error") => {
        if real.class() != "error" {
          s.disagree("cursor.stale-decode", case, json!({"post": post, "real": real.to_json()}), md.clone());
        }
      }
      Some("ok") => {
        // the model accepts too (same generation and plan hash): compare the page it predicts on the
        // new contents (scores are inputs: taken from a fresh covering request)
        let addr2 = if post == "compact" && commits.len() > 1 { None } else { Some(addresses(&commits_after)) };
        if let (Some(addr2), Out::Ok(all2)) = (addr2, run(&reader2, &base_req(case, &new_sort, ndocs + 6, None))) {
          let (keys2, back2) = model_keys(&plan2, &addr2, &all2);
          let st = &md["state"];
          let parts: Option<Vec<Value>> = st["values"].as_array().filter(|a| a.len() == plan2.len()).map(|a| a.iter().zip(plan2.iter()).map(|(v, f)| state_part(v, f.kind)).collect()).unwrap_or(None);
          if let Some(parts) = parts {
            let dirs2: Vec<bool> = plan2.iter().map(|f| f.desc).collect();
            let mp = drv.call("C11", json!({"op": "page", "dirs": dirs2, "keys": keys2, "limit": limit,
              "cursor": {"key": {"parts": parts, "seg": st["segment_ord"], "doc": st["doc_id"]}, "returned": st["returned"]}}));
            let agree = match (&real, mp["class"].as_str()) {
              (Out::Ok(p), Some("ok")) => {
                let ids: Vec<String> = mp["resp"]["hits"].as_array().cloned().unwrap_or_default().iter().map(|h| back2.get(&(h[0].as_u64().unwrap_or(0), h[1].as_u64().unwrap_or(0))).cloned().unwrap_or_default()).collect();
                ids == p.ids
              }
              (Out::Err(_), Some("error")) => true,
              _ => false,
            };
            if !agree {
              s.disagree("cursor.stale-page", case, json!({"post": post, "real": real.to_json()}), json!({"decode": md, "page": mp}));
            }
          }
        }
      }
      _ => s.disagree("cursor.stale-decode", case, json!({"post": post, "real": real.to_json()}), md.clone()),
    }
  }

  /// one request whose limit covers all matches must return all of them, also for large limits
  fn run_big(&self, drv: &mut Driver, case: &Value, s: &mut Summary) {
    let n = case["docs"].as_u64().unwrap_or(0) as usize;
    let dir = scratch();
    let idx = match idx::create(dir.path(), &schema_json(), false) {
      Ok(i) => i,
      Err(e) => {
        s.notes.push(format!("C11 big: create failed: {e}"));
        return;
      }
    };
    let docs: Vec<Value> = (0..n).map(|k| json!({"_id": format!("b{k:06}"), "body": "rust", "n": (k % 7) as i64})).collect();
    if let Err(e) = idx::add_commit(&idx, &docs) {
      s.notes.push(format!("C11 big: commit failed: {e}"));
      return;
    }
    let reader = match idx.reader() {
      Ok(r) => r,
      Err(_) => return,
    };
    let c = json!({"query": case["query"].clone(), "execution": "bm25"});
    let out = run(&reader, &base_req(&c, &case["sort"], n + 5, None));
    s.case(case, true);
    s.count("big_limit_case");
    // correspondence: the model's single page over the same keys (given in ascending order so
    // that the model's insertion sort is linear; one segment, doc id = rank of the id)
    if let Out::Ok(p) = &out {
      let mut ks: Vec<(i64, u64)> = (0..n as u64).map(|k| ((k % 7) as i64, k)).collect();
      ks.sort();
      let keys: Vec<Value> = ks.iter().map(|(v, k)| json!({"parts": [v], "seg": 0, "doc": k})).collect();
      let mp = drv.call("C11", json!({"op": "page", "dirs": [false], "keys": keys, "limit": n + 5, "cursor": null}));
      let mids: Vec<String> = mp["resp"]["hits"].as_array().cloned().unwrap_or_default().iter().map(|h| format!("b{:06}", h[1].as_u64().unwrap_or(0))).collect();
      if mp["class"] != json!("ok") || mids != p.ids || mp["resp"]["next"].is_null() != p.next.is_none() || mp["resp"]["total"].as_u64() != Some(p.total) {
        s.disagree("page.large-limit", case, json!({"hits": p.ids.len(), "first": p.ids.first(), "last": p.ids.last(), "next": p.next, "total": p.total}),
          json!({"class": mp["class"], "hits": mids.len(), "first": mids.first(), "last": mids.last(), "next": mp["resp"]["next"], "total": mp["resp"]["total"]}));
      }
    }
    match out {
      Out::Ok(p) => {
        if p.ids.len() != n && p.next.is_none() {
          s.fail("all.silently-truncated-large-limit", "a single request with limit >= matches returned fewer hits than matches and no next_cursor", case, json!({"matches": n, "hits": p.ids.len(), "total_hits_estimate": p.total, "next_cursor": p.next}));
        } else if p.ids.len() != n {
          // served in pages (reader.rs since 7ad6649): follow the cursor; the concatenation must
          // be every match in key order (n % 7 ascending, then document order)
          let mut got: Vec<String> = p.ids.clone();
          let mut cur = p.next.clone();
          let mut guard = 0;
          while let Some(cu) = cur {
            guard += 1;
            if guard > 10 {
              break;
            }
            match run(&reader, &base_req(&c, &case["sort"], n + 5, Some(&cu))) {
              Out::Ok(q) => {
                got.extend(q.ids.iter().cloned());
                cur = q.next.clone();
                if q.total != n as u64 {
                  s.fail("total.inexact-bm25", "total_hits_estimate is not exact for execution bm25", case, json!({"total": q.total, "truth": n, "page": guard}));
                }
              }
              o => {
                s.fail("walk.page-error", "a page of the walk failed although the index did not change", case, o.to_json());
                return;
              }
            }
          }
          let mut ks: Vec<(i64, u64)> = (0..n as u64).map(|k| ((k % 7) as i64, k)).collect();
          ks.sort();
          let want: Vec<String> = ks.iter().map(|(_, k)| format!("b{k:06}")).collect();
          if got.len() != n {
            s.fail("walk.missing", "the concatenated pages differ from the number of matches", case, json!({"matches": n, "hits": got.len()}));
          } else if got != want {
            s.fail("walk.order", "the concatenated pages differ from the single request covering all matches", case, json!({"first_difference": got.iter().zip(want.iter()).position(|(a, b)| a != b)}));
          }
        }
        if p.total != n as u64 {
          s.fail("total.inexact-bm25", "total_hits_estimate is not exact for execution bm25", case, json!({"total": p.total, "truth": n}));
        }
      }
      o => s.fail("all.request-failed", "the single request covering all matches failed", case, o.to_json()),
    }
  }
}

impl Prop for C11 {
  fn id(&self) -> &'static str {
    "C11"
  }
  fn rule(&self) -> &'static str {
    "case = (1-4 commit batches = segments over a schema with text body, fast keyword tag, fast i64 n, fast f64 x; missing / single / multi values from small domains, cloned batches for score ties across segments, optional delete-only commit; query match_all | term | 1-4 words; sort plan default | _score asc/desc | 1-3 of {_score,tag,n,x} with asc/desc/default; page size 1..7; execution wand|bm25; one post operation commit_add | delete_only | delete_cursor_doc | compact | other_sort | reopen; the page-1 cursor is also replayed against every neighbouring plan (one key direction flipped incl. _score inside multi-key plans, last key dropped, first two keys swapped); 6 random ASCII cursor mutations + the advance cap 50000/50001). Non-trivial = the walk has >= 2 pages AND at least two matches tie on the primary sort value; distinct = distinct case JSON. The corpus adds one case per finding, among them a single request with limit > 20000 over 20011 matches."
  }
  fn count(&self, tier: Tier) -> usize {
    tier.pick(201, 6001)
  }
  fn gen(&self, rng: &mut Rng, _tier: Tier, i: usize) -> Value {
    // the `big` kind (one request with limit > MAX_CANDIDATE_SIZE over 20011 matches) runs from
    // corpus/C11/large-limit.json on every check; in the thorough tier a second size is generated
    if i == 0 && _tier == Tier::Thorough {
      return json!({"kind": "big", "docs": 20002 + rng.below(40), "query": {"type": "match_all"}, "sort": [{"field": "n", "order": "asc"}]});
    }
    gen_walk(rng)
  }
  fn run_case(&self, drv: &mut Driver, case: &Value, s: &mut Summary) {
    match case["kind"].as_str() {
      Some("big") => self.run_big(drv, case, s),
      _ => self.run_walk(drv, case, s),
    }
  }
  fn finish(&self, _tier: Tier, s: &mut Summary) {
    s.exhaustive = false;
    s.notes.push("execution bmw is not generated here (its pruning is C09's subject); non-ASCII cursor strings are C16's".into());
  }
}
