//! C12 — aggregations are exact and independent of segmentation.
//!
//! One case = a corpus, 3–5 segment layouts of that corpus (one segment … one document per
//! segment, with stale versions / deleted ghosts mixed in), a query and an aggregation tree.
//!
//! * finder (implementation only): the aggregation response of every layout equals an
//!   independent computation in Rust over the matched live documents (`oracle`), hence the
//!   layouts equal each other.  Each mismatch is attributed to the shallowest aggregation node
//!   whose own data differ and classified by a predicate checked on the failing case.
//! * correspondence: `SL.Aggs.run` (collect per segment → merge → finalize) vs the
//!   implementation for every layout; `SL.Aggs.Spec.agg` vs the Rust oracle.
use crate::idx;
use crate::proto::Driver;
use crate::rng::Rng;
use crate::summary::Summary;
use crate::util::scratch;
use crate::{Prop, Tier};
use serde_json::{json, Map, Value};
use std::collections::{BTreeMap, BTreeSet};

pub struct C12;
pub static P: C12 = C12;

pub const KW_FIELDS: [&str; 2] = ["k1", "k2"];
pub const I64_FIELDS: [&str; 3] = ["i1", "i2", "t1"];
pub const DATE_BASE: i64 = 1_609_459_200_000; // 2021-01-01T00:00:00Z
pub const F64_FIELDS: [&str; 2] = ["f1", "f2"];
pub const KW_VALUES: [&str; 6] = ["a", "b", "c", "d", "e", "f"];
const REL: f64 = 1e-9;

pub fn schema_json() -> Value {
  let kw: Vec<Value> = KW_FIELDS.iter().map(|n| json!({"name": n, "stored": true, "indexed": true, "fast": true, "nullable": false})).collect();
  let mut num: Vec<Value> = Vec::new();
  for n in I64_FIELDS {
    num.push(json!({"name": n, "i64": true, "fast": true, "stored": true, "nullable": false}));
  }
  for n in F64_FIELDS {
    num.push(json!({"name": n, "i64": false, "fast": true, "stored": true, "nullable": false}));
  }
  json!({"doc_id_field": "_id", "text_fields": [], "keyword_fields": kw, "numeric_fields": num})
}

pub fn field_kinds() -> Value {
  let mut m = Map::new();
  for f in KW_FIELDS {
    m.insert(f.to_string(), json!("kw"));
  }
  for f in I64_FIELDS {
    m.insert(f.to_string(), json!("i64"));
  }
  for f in F64_FIELDS {
    m.insert(f.to_string(), json!("f64"));
  }
  Value::Object(m)
}

pub fn is_i64(f: &str) -> bool {
  I64_FIELDS.contains(&f)
}
pub fn is_kw(f: &str) -> bool {
  KW_FIELDS.contains(&f)
}

// ------------------------------------------------------------------ documents

#[derive(Clone, Debug)]
pub struct Doc {
  pub id: String,
  pub kw: BTreeMap<String, Vec<String>>,
  pub num: BTreeMap<String, Vec<f64>>,
}

pub fn parse_doc(v: &Value) -> Doc {
  let mut d = Doc { id: v["_id"].as_str().unwrap_or("").to_string(), kw: BTreeMap::new(), num: BTreeMap::new() };
  for f in KW_FIELDS {
    let vals: Vec<String> = match &v[f] {
      Value::String(s) => vec![s.clone()],
      Value::Array(a) => a.iter().filter_map(|x| x.as_str().map(|s| s.to_string())).collect(),
      _ => vec![],
    };
    d.kw.insert(f.to_string(), vals);
  }
  for f in I64_FIELDS.iter().chain(F64_FIELDS.iter()) {
    let vals: Vec<f64> = match &v[*f] {
      Value::Number(n) => vec![n.as_f64().unwrap_or(0.0)],
      Value::Array(a) => a.iter().filter_map(|x| x.as_f64()).collect(),
      _ => vec![],
    };
    d.num.insert(f.to_string(), vals);
  }
  d
}

impl Doc {
  pub fn kws(&self, f: &str) -> &[String] {
    self.kw.get(f).map(|v| v.as_slice()).unwrap_or(&[])
  }
  pub fn nums(&self, f: &str) -> &[f64] {
    self.num.get(f).map(|v| v.as_slice()).unwrap_or(&[])
  }
  pub fn nums_or(&self, f: &str, missing: Option<f64>) -> Vec<f64> {
    let v = self.nums(f);
    if v.is_empty() {
      missing.into_iter().collect()
    } else {
      v.to_vec()
    }
  }
  /// the model's view of the document
  pub fn model_json(&self, ord: usize) -> Value {
    json!({"id": ord, "kw": self.kw, "num": self.num})
  }
}

fn quarter(rng: &mut Rng, lo: i64, hi: i64) -> f64 {
  rng.range(lo * 4, hi * 4) as f64 / 4.0
}

pub fn gen_doc(rng: &mut Rng, id: String) -> Value {
  let mut m = Map::new();
  m.insert("_id".into(), json!(id));
  // skewed keyword choice so that some keys are frequent and some rare
  let kwv = |rng: &mut Rng| -> String {
    let r = rng.below(12);
    KW_VALUES[match r {
      0..=3 => 0,
      4..=6 => 1,
      7..=8 => 2,
      9 => 3,
      10 => 4,
      _ => 5,
    }]
    .to_string()
  };
  if !rng.chance(1, 5) {
    m.insert("k1".into(), json!(kwv(rng)));
  }
  match rng.below(5) {
    0 => {}
    1 => {
      m.insert("k2".into(), json!(kwv(rng)));
    }
    _ => {
      let n = 1 + rng.below(3);
      let vs: Vec<String> = (0..n).map(|_| kwv(rng)).collect();
      m.insert("k2".into(), json!(vs));
    }
  }
  if !rng.chance(1, 6) {
    m.insert("i1".into(), json!(rng.range(-4, 20)));
  }
  match rng.below(4) {
    0 => {}
    1 => {
      m.insert("i2".into(), json!(rng.range(-4, 20)));
    }
    _ => {
      let n = 1 + rng.below(3);
      let vs: Vec<i64> = (0..n).map(|_| rng.range(-4, 20)).collect();
      m.insert("i2".into(), json!(vs));
    }
  }
  // dates: epoch milliseconds around 2021/2022, a few before 1970
  let date = |rng: &mut Rng| -> i64 {
    if rng.chance(1, 12) {
      -(rng.range(0, 800) * 86_400_000 + rng.range(0, 23) * 3_600_000)
    } else if rng.chance(1, 25) {
      // the 31st of May 2021 (day 150 of the year): no "31st of April" to truncate a quarter to
      DATE_BASE + 150 * 86_400_000 + rng.range(0, 23) * 3_600_000
    } else {
      DATE_BASE + rng.range(0, 500) * 86_400_000 + rng.range(0, 23) * 3_600_000 + rng.range(0, 3) * 900_000
    }
  };
  match rng.below(6) {
    0 => {}
    1 => {
      let vs: Vec<i64> = (0..2).map(|_| date(rng)).collect();
      m.insert("t1".into(), json!(vs));
    }
    _ => {
      m.insert("t1".into(), json!(date(rng)));
    }
  }
  if !rng.chance(1, 6) {
    m.insert("f1".into(), json!(quarter(rng, -3, 12)));
  }
  match rng.below(4) {
    0 => {}
    1 => {
      m.insert("f2".into(), json!(quarter(rng, -3, 12)));
    }
    _ => {
      let n = 1 + rng.below(3);
      let vs: Vec<f64> = (0..n).map(|_| quarter(rng, -3, 12)).collect();
      m.insert("f2".into(), json!(vs));
    }
  }
  Value::Object(m)
}

// ------------------------------------------------------------------ aggregation generator

fn pick_num_field(rng: &mut Rng) -> &'static str {
  *rng.pick(&["i1", "i2", "f1", "f2"])
}
fn pick_kw_field(rng: &mut Rng) -> &'static str {
  *rng.pick(&KW_FIELDS)
}

fn num_missing(rng: &mut Rng, f: &str) -> Value {
  if rng.chance(1, 4) {
    if is_i64(f) {
      json!(rng.range(-2, 9))
    } else {
      json!(quarter(rng, -2, 9))
    }
  } else {
    Value::Null
  }
}

fn gen_filter(rng: &mut Rng, depth: usize) -> Value {
  match rng.below(if depth == 0 { 3 } else { 6 }) {
    0 => json!({"KeywordEq": {"field": pick_kw_field(rng), "value": *rng.pick(&KW_VALUES)}}),
    1 => {
      let f = *rng.pick(&["i1", "i2"]);
      let lo = rng.range(-4, 12);
      json!({"I64Range": {"field": f, "min": lo, "max": lo + rng.range(0, 12)}})
    }
    2 => {
      let f = *rng.pick(&F64_FIELDS);
      let lo = quarter(rng, -3, 8);
      json!({"F64Range": {"field": f, "min": lo, "max": lo + quarter(rng, 0, 8)}})
    }
    3 => json!({"And": [gen_filter(rng, depth - 1), gen_filter(rng, depth - 1)]}),
    4 => json!({"Or": [gen_filter(rng, depth - 1), gen_filter(rng, depth - 1)]}),
    _ => json!({"Not": gen_filter(rng, depth - 1)}),
  }
}

fn with_subs(rng: &mut Rng, mut agg: Value, depth: usize, risky: bool) -> Value {
  if depth < 3 && rng.chance(3, 5) {
    let n = 1 + rng.below(2);
    let mut m = Map::new();
    for i in 0..n {
      m.insert(format!("s{i}"), gen_agg(rng, depth + 1, risky));
    }
    agg["aggs"] = Value::Object(m);
  }
  agg
}

/// `risky`: the one request class of the still open finding (date_histogram with calendar
/// interval + offset + bounds) may be generated; everything else is generated always
pub fn gen_agg(rng: &mut Rng, depth: usize, risky: bool) -> Value {
  // leaves are more likely deeper in the tree
  let leaf = depth >= 3 || rng.chance(if depth == 1 { 2 } else { 5 }, 10);
  if leaf {
    return match rng.below(7) {
      0 => {
        let f = pick_num_field(rng);
        json!({"type": "stats", "field": f, "missing": num_missing(rng, f)})
      }
      1 => {
        let f = pick_num_field(rng);
        json!({"type": "extended_stats", "field": f, "missing": num_missing(rng, f)})
      }
      2 => {
        let f = pick_num_field(rng);
        json!({"type": "value_count", "field": f, "missing": num_missing(rng, f)})
      }
      3 => {
        if rng.chance(1, 2) {
          let f = pick_kw_field(rng);
          let m = if rng.chance(1, 4) { json!(*rng.pick(&["a", "zz"])) } else { Value::Null };
          json!({"type": "cardinality", "field": f, "missing": m})
        } else {
          let f = pick_num_field(rng);
          json!({"type": "cardinality", "field": f, "missing": num_missing(rng, f)})
        }
      }
      4 => {
        let f = pick_num_field(rng);
        let mut a = json!({"type": "percentiles", "field": f, "missing": num_missing(rng, f)});
        if rng.chance(2, 3) {
          let n = 1 + rng.below(4);
          let ps: Vec<f64> = (0..n).map(|_| *rng.pick(&[0.0, 1.0, 10.0, 25.0, 50.0, 75.0, 90.0, 99.0, 100.0, 33.5])).collect();
          a["percents"] = json!(ps);
        }
        a
      }
      5 => {
        let f = pick_num_field(rng);
        let n = 1 + rng.below(3);
        let ts: Vec<f64> = (0..n).map(|_| quarter(rng, -4, 14)).collect();
        json!({"type": "percentile_ranks", "field": f, "values": ts, "missing": num_missing(rng, f)})
      }
      _ => {
        // top_hits sorted by numeric fields (ties: index order)
        let n = 1 + rng.below(2);
        let sort: Vec<Value> = (0..n).map(|_| json!({"field": pick_num_field(rng), "order": *rng.pick(&["asc", "desc"])})).collect();
        let from = if rng.chance(1, 2) { 1 + rng.below(3) } else { 0 };
        json!({"type": "top_hits", "size": rng.below(4), "from": from, "sort": sort})
      }
    };
  }
  match rng.below(10) {
    7 => {
      // date_histogram over the date field
      let mut a = json!({"type": "date_histogram", "field": "t1"});
      let calendar = rng.chance(1, 2);
      if calendar {
        a["calendar_interval"] = json!(*rng.pick(&["day", "week", "month", "quarter", "year", "1w", "1M", "1q"]));
      } else {
        a["fixed_interval"] = json!(*rng.pick(&["1d", "12h", "7d", "36h", "30d", "2w"]));
      }
      let bounds = rng.below(5);
      // calendar interval + offset + bounds: the class of the former finding
      // date_histogram.calendar-offset-fill (fixed by 0b763bf)
      let fill_risk = rng.chance(1, 3);
      if (rng.chance(1, 3) && !(calendar && bounds <= 1)) || (fill_risk && calendar && bounds <= 1) {
        a["offset"] = json!(*rng.pick(&["1h", "30m", "0.5d", "6h"]));
      }
      let day = |rng: &mut Rng| -> String { rfc3339(DATE_BASE + rng.range(-20, 420) * 86_400_000 + rng.range(0, 23) * 3_600_000) };
      match bounds {
        0 => {
          let (x, y) = (day(rng), day(rng));
          let (lo, hi) = if x <= y { (x, y) } else { (y, x) };
          a["extended_bounds"] = json!({"min": lo, "max": hi});
        }
        1 => {
          let (x, y) = (day(rng), day(rng));
          let (lo, hi) = if x <= y { (x, y) } else { (y, x) };
          a["hard_bounds"] = json!({"min": lo, "max": hi});
        }
        _ => {}
      }
      if rng.chance(1, 4) {
        a["missing"] = if rng.chance(1, 2) { json!(day(rng)) } else { json!(format!("{}", DATE_BASE + rng.range(0, 300) * 86_400_000)) };
      }
      if rng.chance(1, 3) {
        a["min_doc_count"] = json!(rng.below(2));
      }
      if rng.chance(1, 3) && !(fill_risk && calendar && bounds <= 1) {
        a["min_doc_count"] = json!(2);
      }
      with_subs(rng, a, depth, risky)
    }
    8 => {
      // date_range over the date field: RFC 3339 or numeric-string bounds
      let n = 1 + rng.below(3);
      let mut ranges: Vec<Value> = Vec::new();
      let mut seen = BTreeSet::new();
      for i in 0..n {
        let lo = DATE_BASE + rng.range(-30, 400) * 86_400_000;
        let hi = lo + rng.range(0, 200) * 86_400_000;
        let fmt = |rng: &mut Rng, v: i64| -> Value { if rng.chance(1, 2) { json!(rfc3339(v)) } else { json!(format!("{v}")) } };
        let mut r = match rng.below(5) {
          0 => json!({"to": fmt(rng, hi)}),
          1 => json!({"from": fmt(rng, lo)}),
          _ => json!({"from": fmt(rng, lo), "to": fmt(rng, hi)}),
        };
        if rng.chance(1, 2) {
          r["key"] = json!(format!("r{i}"));
        }
        if seen.insert(date_range_key(&r).to_string()) {
          ranges.push(r);
        }
      }
      let mut a = json!({"type": "date_range", "field": "t1", "keyed": false, "ranges": ranges});
      if rng.chance(1, 4) {
        a["missing"] = json!(rfc3339(DATE_BASE + rng.range(0, 300) * 86_400_000));
      }
      with_subs(rng, a, depth, risky)
    }
    0 | 1 => {
      let f = pick_kw_field(rng);
      let mut a = json!({"type": "terms", "field": f});
      if rng.chance(1, 3) {
        a["missing"] = json!(*rng.pick(&["none", "a", "zz"]));
      }
      if rng.chance(1, 4) {
        a["min_doc_count"] = json!(rng.below(2)); // 0 or 1: harmless
      }
      if rng.chance(1, 2) {
        if rng.chance(1, 2) {
          a["min_doc_count"] = json!(2 + rng.below(2));
        } else {
          a["size"] = json!(1 + rng.below(3));
        }
      }
      with_subs(rng, a, depth, risky)
    }
    2 => {
      let f = pick_num_field(rng);
      let n = 1 + rng.below(4);
      let mut ranges: Vec<Value> = Vec::new();
      let mut seen = BTreeSet::new();
      for i in 0..n {
        let lo = quarter(rng, -4, 10);
        let hi = lo + quarter(rng, 0, 8);
        let (from, to) = match rng.below(6) {
          0 => (Value::Null, json!(hi)),
          1 => (json!(lo), Value::Null),
          _ => (json!(lo), json!(hi)),
        };
        let mut r = json!({"from": from, "to": to});
        if rng.chance(1, 2) {
          r["key"] = json!(format!("r{i}"));
        }
        // bucket keys must be distinct (the merge is by key string); duplicates are skipped
        let ks = range_key(&r).to_string();
        if seen.insert(ks) {
          ranges.push(r);
        }
      }
      let a = json!({"type": "range", "field": f, "keyed": rng.chance(1, 4), "ranges": ranges, "missing": num_missing(rng, f)});
      with_subs(rng, a, depth, risky)
    }
    3 => {
      let f = pick_num_field(rng);
      let interval = *rng.pick(&[0.5, 1.0, 2.0, 2.5, 5.0, 10.0]);
      let mut a = json!({"type": "histogram", "field": f, "interval": interval, "missing": num_missing(rng, f)});
      if rng.chance(1, 3) {
        a["offset"] = json!(*rng.pick(&[0.25, 0.5, 1.0, -0.5]));
      }
      match rng.below(6) {
        0 => {
          let lo = quarter(rng, -6, 6);
          a["extended_bounds"] = json!({"min": lo, "max": lo + quarter(rng, 0, 12)});
        }
        1 => {
          let lo = quarter(rng, -3, 6);
          a["hard_bounds"] = json!({"min": lo, "max": lo + quarter(rng, 0, 10)});
        }
        2 => {
          let lo = quarter(rng, -3, 3);
          let hi = lo + quarter(rng, 4, 12);
          a["hard_bounds"] = json!({"min": lo, "max": hi});
          a["extended_bounds"] = json!({"min": lo + 1.0, "max": hi - 1.0});
        }
        _ => {}
      }
      if rng.chance(1, 4) {
        a["min_doc_count"] = json!(rng.below(2));
      }
      if rng.chance(1, 3) {
        a["min_doc_count"] = json!(2 + rng.below(2));
      }
      with_subs(rng, a, depth, risky)
    }
    4 => {
      let a = json!({"type": "filter", "filter": gen_filter(rng, 2)});
      with_subs(rng, a, depth, risky)
    }
    5 | 6 => {
      let n = 1 + rng.below(2);
      let mut sources: Vec<Value> = Vec::new();
      for i in 0..n {
        if rng.chance(1, 2) {
          sources.push(json!({"type": "terms", "name": format!("c{i}"), "field": pick_kw_field(rng)}));
        } else {
          let f = pick_num_field(rng);
          sources.push(json!({"type": "histogram", "name": format!("c{i}"), "field": f, "interval": *rng.pick(&[0.5, 1.0, 2.5, 5.0])}));
        }
      }
      let a = json!({"type": "composite", "sources": sources, "size": if rng.chance(1, 3) { 1 + rng.below(4) } else { 50 }});
      with_subs(rng, a, depth, risky)
    }
    _ => {
      let f = pick_kw_field(rng);
      let mut a = json!({"type": "rare_terms", "field": f});
      if rng.chance(1, 2) {
        a["max_doc_count"] = json!(1 + rng.below(3));
      }
      if rng.chance(1, 4) {
        a["size"] = json!(1 + rng.below(3));
      }
      with_subs(rng, a, depth, risky)
    }
  }
}

// ------------------------------------------------------------------ dates (own arithmetic)

pub fn days_from_civil(y: i64, m: i64, d: i64) -> i64 {
  let y = if m <= 2 { y - 1 } else { y };
  let era = y.div_euclid(400);
  let yoe = y - era * 400;
  let mp = (m + 9) % 12;
  let doy = (153 * mp + 2) / 5 + d - 1;
  let doe = yoe * 365 + yoe / 4 - yoe / 100 + doy;
  era * 146097 + doe - 719468
}

pub fn civil_from_days(z: i64) -> (i64, i64, i64) {
  let z = z + 719468;
  let era = z.div_euclid(146097);
  let doe = z - era * 146097;
  let yoe = (doe - doe / 1460 + doe / 36524 - doe / 146096) / 365;
  let y = yoe + era * 400;
  let doy = doe - (365 * yoe + yoe / 4 - yoe / 100);
  let mp = (5 * doy + 2) / 153;
  let d = doy - (153 * mp + 2) / 5 + 1;
  let m = if mp < 10 { mp + 3 } else { mp - 9 };
  (if m <= 2 { y + 1 } else { y }, m, d)
}

pub fn rfc3339(ms: i64) -> String {
  let days = ms.div_euclid(86_400_000);
  let rem = ms.rem_euclid(86_400_000) / 1000;
  let (y, m, d) = civil_from_days(days);
  format!("{:04}-{:02}-{:02}T{:02}:{:02}:{:02}Z", y, m, d, rem / 3600, (rem / 60) % 60, rem % 60)
}

/// `parse_date`: `YYYY-MM-DDTHH:MM:SSZ` or a number, in epoch milliseconds
pub fn parse_date_str(s: &str) -> Option<f64> {
  let b = s.as_bytes();
  if b.len() == 20 && b[4] == b'-' && b[10] == b'T' && b[19] == b'Z' {
    let n = |r: std::ops::Range<usize>| -> Option<i64> { s.get(r)?.parse().ok() };
    let days = days_from_civil(n(0..4)?, n(5..7)?, n(8..10)?);
    return Some(((days * 86_400 + n(11..13)? * 3600 + n(14..16)? * 60 + n(17..19)?) * 1000) as f64);
  }
  s.parse().ok()
}

fn date_loose(v: &Value) -> Option<f64> {
  match v {
    Value::String(s) => parse_date_str(s),
    Value::Number(n) => n.as_f64(),
    _ => None,
  }
}

/// seconds of `1d`, `12h`, `90m`, `0.5d`, …
fn interval_seconds(spec: &str) -> Option<f64> {
  let idx = spec.find(|c: char| !(c.is_ascii_digit() || c == '.')).unwrap_or(spec.len());
  if idx == 0 {
    return None;
  }
  let v: f64 = spec[..idx].parse().ok()?;
  let mult = match &spec[idx..] {
    "" | "s" => 1.0,
    "ms" => 0.001,
    "m" => 60.0,
    "h" => 3600.0,
    "d" => 86_400.0,
    "w" => 604_800.0,
    _ => return None,
  };
  Some(v * mult)
}

#[derive(Clone, Copy)]
enum DateIv {
  Fixed(i64),
  Day,
  Week,
  Month,
  Quarter,
  Year,
}

fn date_interval(agg: &Value) -> DateIv {
  if let Some(c) = agg.get("calendar_interval").and_then(|c| c.as_str()) {
    match c.to_ascii_lowercase().as_str() {
      "day" | "1d" => return DateIv::Day,
      "week" | "1w" => return DateIv::Week,
      "month" | "1m" => return DateIv::Month,
      "quarter" | "1q" => return DateIv::Quarter,
      "year" | "1y" => return DateIv::Year,
      _ => {}
    }
  }
  let secs = agg.get("fixed_interval").and_then(|c| c.as_str()).and_then(interval_seconds).unwrap_or(86_400.0);
  DateIv::Fixed((secs * 1000.0) as i64)
}

/// start (in days) of the calendar unit containing day `days`
fn unit_start(days: i64, iv: DateIv) -> i64 {
  let (y, m, _) = civil_from_days(days);
  match iv {
    DateIv::Day | DateIv::Fixed(_) => days,
    DateIv::Week => days - (days + 3).rem_euclid(7), // 1970-01-01 was a Thursday
    DateIv::Month => days_from_civil(y, m, 1),
    DateIv::Quarter => days_from_civil(y, (m - 1) / 3 * 3 + 1, 1),
    DateIv::Year => days_from_civil(y, 1, 1),
  }
}

/// key of the bucket of value `v`.  Fixed intervals: the next multiple of the step at or above
/// the value (pinned by the repository's own test
/// `date_histogram_fixed_interval_respects_offset_and_missing`); calendar: start of the unit.
fn date_bucket(iv: DateIv, off: i64, v: i64) -> i64 {
  match iv {
    DateIv::Fixed(step) => {
      let x = (v - off) as i128;
      let st = step as i128;
      let q = -((-x).div_euclid(st));
      (q * st) as i64 + off
    }
    _ => unit_start((v - off).div_euclid(86_400_000), iv) * 86_400_000 + off,
  }
}

/// the bucket after `cur` (aligned like `cur`)
fn date_next(iv: DateIv, off: i64, cur: i64) -> i64 {
  match iv {
    DateIv::Fixed(step) => cur + step,
    DateIv::Day => cur + 86_400_000,
    DateIv::Week => cur + 7 * 86_400_000,
    _ => {
      let days = (cur - off).div_euclid(86_400_000);
      let (y, m, _) = civil_from_days(days);
      let add = match iv {
        DateIv::Month => 1,
        DateIv::Quarter => 3,
        _ => 12,
      };
      let (ny, nm) = if m + add > 12 { (y + 1, m + add - 12) } else { (y, m + add) };
      days_from_civil(ny, nm, 1) * 86_400_000 + off
    }
  }
}

// ------------------------------------------------------------------ oracle

pub fn range_key(r: &Value) -> Value {
  match r.get("key").and_then(|k| k.as_str()) {
    Some(k) => json!(k),
    None => json!({"from": r.get("from").cloned().unwrap_or(Value::Null), "to": r.get("to").cloned().unwrap_or(Value::Null)}),
  }
}

fn f64_loose(v: &Value) -> Option<f64> {
  v.as_f64().or_else(|| v.as_str().and_then(|s| s.parse().ok()))
}

fn subs_of(agg: &Value) -> Vec<(String, Value)> {
  agg.get("aggs").and_then(|a| a.as_object()).map(|m| m.iter().map(|(k, v)| (k.clone(), v.clone())).collect()).unwrap_or_default()
}

fn eval_filter(f: &Value, d: &Doc) -> bool {
  let (k, b) = match f.as_object().and_then(|m| m.iter().next()) {
    Some(x) => x,
    None => return false,
  };
  match k.as_str() {
    "KeywordEq" => {
      let v = b["value"].as_str().unwrap_or("");
      d.kws(b["field"].as_str().unwrap_or("")).iter().any(|x| x.eq_ignore_ascii_case(v))
    }
    "I64Range" | "F64Range" => {
      let (lo, hi) = (b["min"].as_f64().unwrap_or(0.0), b["max"].as_f64().unwrap_or(0.0));
      d.nums(b["field"].as_str().unwrap_or("")).iter().any(|x| *x >= lo && *x <= hi)
    }
    "And" => b.as_array().map(|a| a.iter().all(|x| eval_filter(x, d))).unwrap_or(false),
    "Or" => b.as_array().map(|a| a.iter().any(|x| eval_filter(x, d))).unwrap_or(false),
    "Not" => !eval_filter(b, d),
    _ => false,
  }
}

fn oracle_subs(agg: &Value, docs: &[&Doc]) -> Value {
  let mut m = Map::new();
  for (name, sub) in subs_of(agg) {
    m.insert(name, oracle(&sub, docs));
  }
  Value::Object(m)
}

fn bucket_view(key: Value, agg: &Value, docs: &[&Doc]) -> Value {
  // a histogram bucket no document fell into (it exists because of the bounds) has no child
  // aggregations in the response; range buckets always carry theirs
  let eager = matches!(agg["type"].as_str(), Some("range") | Some("date_range"));
  let subs = if docs.is_empty() && !eager { json!({}) } else { oracle_subs(agg, docs) };
  json!({"key": key, "count": docs.len(), "subs": subs})
}

fn num(x: f64) -> Value {
  json!(x)
}

/// composite key order: strings bytewise, numbers numerically
fn cmp_part(a: &Value, b: &Value) -> std::cmp::Ordering {
  match (a, b) {
    (Value::String(x), Value::String(y)) => x.as_bytes().cmp(y.as_bytes()),
    (Value::Number(x), Value::Number(y)) => x.as_f64().unwrap().total_cmp(&y.as_f64().unwrap()),
    (Value::String(_), _) => std::cmp::Ordering::Less,
    (_, Value::String(_)) => std::cmp::Ordering::Greater,
    _ => std::cmp::Ordering::Equal,
  }
}
pub fn cmp_parts(a: &[Value], b: &[Value]) -> std::cmp::Ordering {
  for (x, y) in a.iter().zip(b.iter()) {
    let o = cmp_part(x, y);
    if o != std::cmp::Ordering::Equal {
      return o;
    }
  }
  a.len().cmp(&b.len())
}

/// all composite buckets of `docs` in key order: (parts, docs of the bucket)
pub fn composite_buckets<'a>(agg: &Value, docs: &[&'a Doc]) -> Vec<(Vec<Value>, Vec<&'a Doc>)> {
  let sources = agg["sources"].as_array().cloned().unwrap_or_default();
  let mut out: Vec<(Vec<Value>, Vec<&Doc>)> = Vec::new();
  for d in docs {
    let mut per: Vec<Vec<Value>> = Vec::new();
    for s in &sources {
      let f = s["field"].as_str().unwrap_or("");
      let vals: Vec<Value> = if s["type"] == "terms" {
        d.kws(f).iter().map(|x| json!(x)).collect()
      } else {
        let iv = s["interval"].as_f64().unwrap_or(1.0);
        d.nums(f).iter().map(|v| num((v / iv).floor() * iv)).collect()
      };
      per.push(vals);
    }
    if per.iter().any(|v| v.is_empty()) {
      continue;
    }
    let mut combos: Vec<Vec<Value>> = vec![vec![]];
    for vals in &per {
      let mut next = Vec::new();
      for c in &combos {
        for v in vals {
          let mut c2 = c.clone();
          c2.push(v.clone());
          next.push(c2);
        }
      }
      combos = next;
    }
    let mut seen: Vec<Vec<Value>> = Vec::new();
    for c in combos {
      if seen.iter().any(|s| cmp_parts(s, &c) == std::cmp::Ordering::Equal) {
        continue;
      }
      seen.push(c.clone());
      match out.iter_mut().find(|(k, _)| cmp_parts(k, &c) == std::cmp::Ordering::Equal) {
        Some((_, ds)) => ds.push(*d),
        None => out.push((c, vec![*d])),
      }
    }
  }
  out.sort_by(|a, b| cmp_parts(&a.0, &b.0));
  out
}

pub fn composite_key_json(agg: &Value, parts: &[Value]) -> Value {
  let mut m = Map::new();
  for (s, p) in agg["sources"].as_array().cloned().unwrap_or_default().iter().zip(parts.iter()) {
    m.insert(s["name"].as_str().unwrap_or("").to_string(), p.clone());
  }
  Value::Object(m)
}

pub fn composite_parts_of_key(agg: &Value, key: &Value) -> Option<Vec<Value>> {
  let mut out = Vec::new();
  for s in agg["sources"].as_array()? {
    out.push(key.get(s["name"].as_str()?)?.clone());
  }
  Some(out)
}

/// Independent computation of the response over all matched live documents; every limit and
/// threshold is applied once, to the global counts.  Returns the canonical view.
pub fn oracle(agg: &Value, docs: &[&Doc]) -> Value {
  let ty = agg["type"].as_str().unwrap_or("");
  let field = agg["field"].as_str().unwrap_or("");
  let missing_num = agg.get("missing").and_then(f64_loose);
  match ty {
    "stats" | "extended_stats" => {
      let vals: Vec<f64> = docs.iter().flat_map(|d| d.nums_or(field, missing_num)).collect();
      let n = vals.len();
      if n == 0 {
        let mut v = json!({"k": ty, "count": 0, "min": 0.0, "max": 0.0, "sum": 0.0, "avg": 0.0});
        if ty == "extended_stats" {
          v["variance"] = num(0.0);
          v["std_deviation"] = num(0.0);
        }
        return v;
      }
      let sum: f64 = vals.iter().sum();
      let mean = sum / n as f64;
      let mn = vals.iter().cloned().fold(f64::INFINITY, f64::min);
      let mx = vals.iter().cloned().fold(f64::NEG_INFINITY, f64::max);
      let mut v = json!({"k": ty, "count": n, "min": mn, "max": mx, "sum": sum, "avg": mean});
      if ty == "extended_stats" {
        let var: f64 = vals.iter().map(|x| (x - mean) * (x - mean)).sum::<f64>() / n as f64;
        v["variance"] = num(var);
        v["std_deviation"] = num(var.sqrt());
      }
      v
    }
    "value_count" => {
      let n: usize = docs.iter().map(|d| d.nums_or(field, missing_num).len()).sum();
      json!({"k": "value", "value": n})
    }
    "cardinality" => {
      let mut set: BTreeSet<String> = BTreeSet::new();
      for d in docs {
        if is_kw(field) {
          let vs = d.kws(field);
          if vs.is_empty() {
            if let Some(m) = agg.get("missing").and_then(|m| m.as_str()) {
              set.insert(m.to_string());
            }
          } else {
            for v in vs {
              set.insert(v.clone());
            }
          }
        } else {
          let m = if is_i64(field) { agg.get("missing").and_then(|m| m.as_i64()).map(|x| x as f64) } else { missing_num };
          for v in d.nums_or(field, m) {
            set.insert(format!("{:?}", v.to_bits()));
          }
        }
      }
      json!({"k": "value", "value": set.len()})
    }
    "percentiles" => {
      let mut vals: Vec<f64> = docs.iter().flat_map(|d| d.nums_or(field, missing_num)).collect();
      vals.sort_by(|a, b| a.total_cmp(b));
      let ps: Vec<f64> = match agg.get("percents").and_then(|p| p.as_array()) {
        Some(a) => a.iter().filter_map(|x| x.as_f64()).collect(),
        None => vec![1.0, 5.0, 25.0, 50.0, 75.0, 95.0, 99.0],
      };
      let mut m = Map::new();
      for p in ps {
        let v = if vals.is_empty() {
          0.0
        } else {
          // linear interpolation between closest ranks
          let pos = p.clamp(0.0, 100.0) / 100.0 * (vals.len() - 1) as f64;
          let lo = pos.floor() as usize;
          let hi = pos.ceil() as usize;
          if lo == hi {
            vals[lo]
          } else {
            vals[lo] + (vals[hi] - vals[lo]) * (pos - lo as f64)
          }
        };
        m.insert(format!("{p}"), num(v));
      }
      json!({"k": "table", "values": m})
    }
    "percentile_ranks" => {
      let vals: Vec<f64> = docs.iter().flat_map(|d| d.nums_or(field, missing_num)).collect();
      let mut m = Map::new();
      for t in agg["values"].as_array().cloned().unwrap_or_default() {
        let t = t.as_f64().unwrap_or(0.0);
        let v = if vals.is_empty() { 0.0 } else { vals.iter().filter(|x| **x <= t).count() as f64 / vals.len() as f64 * 100.0 };
        m.insert(format!("{t}"), num(v));
      }
      json!({"k": "table", "values": m})
    }
    "terms" | "rare_terms" => {
      let missing = if ty == "terms" { agg.get("missing").and_then(|m| m.as_str()) } else { None };
      let mut keys: BTreeMap<String, Vec<&Doc>> = BTreeMap::new();
      for d in docs {
        let vs = d.kws(field);
        let mut mine: BTreeSet<String> = vs.iter().cloned().collect();
        if vs.is_empty() {
          if let Some(m) = missing {
            mine.insert(m.to_string());
          }
        }
        for k in mine {
          keys.entry(k).or_default().push(*d);
        }
      }
      let mut bs: Vec<(String, Vec<&Doc>)> = keys.into_iter().collect();
      if ty == "terms" {
        let mdc = agg.get("min_doc_count").and_then(|m| m.as_u64()).unwrap_or(1) as usize;
        bs.retain(|(_, ds)| ds.len() >= mdc);
        bs.sort_by(|a, b| b.1.len().cmp(&a.1.len()).then_with(|| a.0.as_bytes().cmp(b.0.as_bytes())));
      } else {
        let mx = agg.get("max_doc_count").and_then(|m| m.as_u64()).unwrap_or(1) as usize;
        bs.retain(|(_, ds)| !ds.is_empty() && ds.len() <= mx);
        bs.sort_by(|a, b| a.1.len().cmp(&b.1.len()).then_with(|| a.0.as_bytes().cmp(b.0.as_bytes())));
      }
      if let Some(sz) = agg.get("size").and_then(|s| s.as_u64()) {
        bs.truncate(sz as usize);
      }
      let buckets: Vec<Value> = bs.iter().map(|(k, ds)| bucket_view(json!(k), agg, ds)).collect();
      json!({"k": ty, "buckets": buckets})
    }
    "top_hits" => {
      let sort = agg["sort"].as_array().cloned().unwrap_or_default();
      let key = |d: &Doc| -> Vec<Option<f64>> {
        sort
          .iter()
          .map(|sp| {
            let vs = d.nums(sp["field"].as_str().unwrap_or(""));
            if vs.is_empty() {
              None
            } else if sp["order"] == "desc" {
              Some(vs.iter().cloned().fold(f64::NEG_INFINITY, f64::max))
            } else {
              Some(vs.iter().cloned().fold(f64::INFINITY, f64::min))
            }
          })
          .collect()
      };
      // `docs` is in index order; a stable sort keeps it for ties
      let mut ranked: Vec<(Vec<Option<f64>>, &Doc)> = docs.iter().map(|d| (key(d), *d)).collect();
      ranked.sort_by(|a, b| {
        for (i, sp) in sort.iter().enumerate() {
          let o = match (a.0[i], b.0[i]) {
            (None, None) => std::cmp::Ordering::Equal,
            (None, _) => std::cmp::Ordering::Greater,
            (_, None) => std::cmp::Ordering::Less,
            (Some(x), Some(y)) => {
              if sp["order"] == "desc" {
                y.total_cmp(&x)
              } else {
                x.total_cmp(&y)
              }
            }
          };
          if o != std::cmp::Ordering::Equal {
            return o;
          }
        }
        std::cmp::Ordering::Equal
      });
      let from = agg.get("from").and_then(|f| f.as_u64()).unwrap_or(0) as usize;
      let size = agg["size"].as_u64().unwrap_or(0) as usize;
      let hits: Vec<String> = ranked.iter().skip(from).take(size).map(|(_, d)| d.id.clone()).collect();
      json!({"k": "top_hits", "total": docs.len(), "hits": hits})
    }
    "date_histogram" => {
      let iv = date_interval(agg);
      let off = agg.get("offset").and_then(|o| o.as_str()).and_then(interval_seconds).map(|s| (s * 1000.0) as i64).unwrap_or(0);
      let bounds = |k: &str| -> Option<(i64, i64)> {
        let b = agg.get(k).filter(|b| !b.is_null())?;
        Some((parse_date_str(b["min"].as_str()?)? as i64, parse_date_str(b["max"].as_str()?)? as i64))
      };
      let ext = bounds("extended_bounds");
      let hard = bounds("hard_bounds");
      let missing = agg.get("missing").and_then(|m| m.as_str()).and_then(parse_date_str).map(|v| v as i64);
      let mdc = agg.get("min_doc_count").and_then(|m| m.as_u64()).unwrap_or(0) as usize;
      let mut map: BTreeMap<i64, Vec<&Doc>> = BTreeMap::new();
      if let Some((lo, hi)) = ext.or(hard) {
        let (mut a, mut b) = (date_bucket(iv, off, lo), date_bucket(iv, off, hi));
        if a > b {
          std::mem::swap(&mut a, &mut b);
        }
        let mut cur = a;
        while cur <= b {
          map.entry(cur).or_default();
          cur = date_next(iv, off, cur);
        }
      }
      for d in docs {
        let mut mine = BTreeSet::new();
        for v in d.nums_or(field, missing.map(|m| m as f64)) {
          let v = v as i64;
          if let Some((lo, hi)) = hard {
            if v < lo || v > hi {
              continue;
            }
          }
          mine.insert(date_bucket(iv, off, v));
        }
        for b in mine {
          map.entry(b).or_default().push(*d);
        }
      }
      let buckets: Vec<Value> = map.iter().filter(|(_, ds)| ds.len() >= mdc).map(|(b, ds)| bucket_view(json!(*b), agg, ds)).collect();
      json!({"k": ty, "buckets": buckets})
    }
    "range" | "date_range" => {
      let missing_num = if ty == "date_range" { agg.get("missing").and_then(date_loose) } else { missing_num };
      let mut buckets = Vec::new();
      for r in agg["ranges"].as_array().cloned().unwrap_or_default() {
        let (from, to) = if ty == "date_range" {
          (r.get("from").and_then(date_loose), r.get("to").and_then(date_loose))
        } else {
          (r.get("from").and_then(f64_loose), r.get("to").and_then(f64_loose))
        };
        let ds: Vec<&Doc> = docs
          .iter()
          .filter(|d| d.nums_or(field, missing_num).iter().any(|v| from.map(|f| *v >= f).unwrap_or(true) && to.map(|t| *v <= t).unwrap_or(true)))
          .cloned()
          .collect();
        let key = if ty == "range" { range_key(&r) } else { date_range_key(&r) };
        buckets.push(bucket_view(key, agg, &ds));
      }
      json!({"k": ty, "buckets": buckets})
    }
    "histogram" => {
      let interval = agg["interval"].as_f64().unwrap_or(1.0);
      let offset = agg.get("offset").and_then(|o| o.as_f64()).unwrap_or(0.0);
      let bounds = |k: &str| agg.get(k).filter(|b| !b.is_null()).map(|b| (b["min"].as_f64().unwrap_or(0.0), b["max"].as_f64().unwrap_or(0.0)));
      let ext = bounds("extended_bounds");
      let hard = bounds("hard_bounds");
      let mdc = agg.get("min_doc_count").and_then(|m| m.as_u64()).unwrap_or(if ext.is_some() || hard.is_some() { 0 } else { 1 }) as usize;
      let id = |v: f64| ((v - offset) / interval).floor() as i64;
      let mut map: BTreeMap<i64, Vec<&Doc>> = BTreeMap::new();
      if let Some((lo, hi)) = ext.or(hard) {
        let mut b = id(lo);
        while b <= id(hi) {
          map.entry(b).or_default();
          b += 1;
        }
      }
      for d in docs {
        let mut mine = BTreeSet::new();
        for v in d.nums_or(field, missing_num) {
          if let Some((lo, hi)) = hard {
            if v < lo || v > hi {
              continue;
            }
          }
          mine.insert(id(v));
        }
        for b in mine {
          map.entry(b).or_default().push(*d);
        }
      }
      let buckets: Vec<Value> = map.iter().filter(|(_, ds)| ds.len() >= mdc).map(|(b, ds)| bucket_view(num(*b as f64 * interval + offset), agg, ds)).collect();
      json!({"k": ty, "buckets": buckets})
    }
    "filter" => {
      let ds: Vec<&Doc> = docs.iter().filter(|d| eval_filter(&agg["filter"], d)).cloned().collect();
      // the filter bucket always carries its child aggregations
      json!({"k": "filter", "buckets": [{"key": Value::Null, "count": ds.len(), "subs": oracle_subs(agg, &ds)}]})
    }
    "composite" => {
      let all = composite_buckets(agg, docs);
      let after = agg.get("after").filter(|a| !a.is_null()).and_then(|a| composite_parts_of_key(agg, a));
      let rest: Vec<&(Vec<Value>, Vec<&Doc>)> = all.iter().filter(|(k, _)| after.as_ref().map(|a| cmp_parts(k, a) == std::cmp::Ordering::Greater).unwrap_or(true)).collect();
      let size = agg["size"].as_u64().unwrap_or(10) as usize;
      let page: Vec<&(Vec<Value>, Vec<&Doc>)> = rest.iter().take(size).cloned().collect();
      let after_key = if rest.len() > size { page.last().map(|(k, _)| composite_key_json(agg, k)).unwrap_or(Value::Null) } else { Value::Null };
      let buckets: Vec<Value> = page.iter().map(|(k, ds)| bucket_view(composite_key_json(agg, k), agg, ds)).collect();
      json!({"k": ty, "buckets": buckets, "after_key": after_key})
    }
    _ => json!({"k": "unsupported", "type": ty}),
  }
}

fn date_range_key(r: &Value) -> Value {
  // DateRangeCollector builds RangeBound{key, from: parse_date(from), to: parse_date(to)}
  match r.get("key").and_then(|k| k.as_str()) {
    Some(k) => json!(k),
    None => json!({"from": r.get("from").and_then(date_loose), "to": r.get("to").and_then(date_loose)}),
  }
}

// ------------------------------------------------------------------ canonical views

/// implementation response (`AggregationResponse` serde JSON) → canonical view
pub fn canon_impl(resp: &Value) -> Value {
  let ty = resp["type"].as_str().unwrap_or("");
  let subs_of_resp = |b: &Value| -> Value {
    let mut m = Map::new();
    if let Some(a) = b.get("aggregations").and_then(|a| a.as_object()) {
      for (k, v) in a {
        m.insert(k.clone(), canon_impl(v));
      }
    }
    Value::Object(m)
  };
  match ty {
    "stats" => json!({"k": ty, "count": resp["count"], "min": resp["min"], "max": resp["max"], "sum": resp["sum"], "avg": resp["avg"]}),
    "extended_stats" => json!({"k": ty, "count": resp["count"], "min": resp["min"], "max": resp["max"], "sum": resp["sum"], "avg": resp["avg"],
      "variance": resp["variance"], "std_deviation": resp["std_deviation"]}),
    "value_count" | "cardinality" => json!({"k": "value", "value": resp["value"]}),
    "percentiles" | "percentile_ranks" => json!({"k": "table", "values": resp["values"]}),
    "top_hits" => {
      let hits: Vec<Value> = resp["hits"].as_array().cloned().unwrap_or_default().iter().map(|h| h["doc_id"].clone()).collect();
      json!({"k": "top_hits", "total": resp["total"], "hits": hits})
    }
    "filter" => json!({"k": "filter", "buckets": [{"key": Value::Null, "count": resp["doc_count"], "subs": subs_of_resp(resp)}]}),
    "terms" | "rare_terms" | "range" | "date_range" | "histogram" | "date_histogram" | "composite" => {
      let buckets: Vec<Value> = resp["buckets"]
        .as_array()
        .cloned()
        .unwrap_or_default()
        .iter()
        .map(|b| json!({"key": b["key"], "count": b["doc_count"], "subs": subs_of_resp(b)}))
        .collect();
      let mut v = json!({"k": ty, "buckets": buckets});
      if ty == "composite" {
        v["after_key"] = resp.get("after_key").cloned().unwrap_or(Value::Null);
      }
      v
    }
    _ => json!({"k": "unsupported", "type": ty}),
  }
}

fn rat(v: &Value) -> f64 {
  let s = v.as_str().unwrap_or("0/1");
  let mut it = s.split('/');
  let n: f64 = it.next().unwrap_or("0").parse().unwrap_or(f64::NAN);
  let d: f64 = it.next().unwrap_or("1").parse().unwrap_or(1.0);
  n / d
}

/// model node (`nodeToJson`) → canonical view, using the request to name children and keys
pub fn canon_model(node: &Value, agg: &Value, rank_ids: &[String]) -> Value {
  let ty = agg["type"].as_str().unwrap_or("");
  match node["t"].as_str().unwrap_or("") {
    "stats" => {
      let mut v = json!({"k": ty, "count": node["count"], "min": rat(&node["min"]), "max": rat(&node["max"]), "sum": rat(&node["sum"]), "avg": rat(&node["avg"])});
      if ty == "extended_stats" {
        let var = rat(&node["variance"]);
        v["variance"] = num(var);
        v["std_deviation"] = num(var.sqrt());
      }
      v
    }
    "count" => json!({"k": "value", "value": node["n"]}),
    "hits" => {
      let hits: Vec<Value> = node["hits"].as_array().cloned().unwrap_or_default().iter().map(|o| json!(rank_ids.get(o.as_u64().unwrap_or(0) as usize).cloned().unwrap_or_default())).collect();
      json!({"k": "top_hits", "total": node["total"], "hits": hits})
    }
    "table" => {
      let mut m = Map::new();
      for r in node["rows"].as_array().cloned().unwrap_or_default() {
        m.insert(format!("{}", rat(&r[0])), num(rat(&r[1])));
      }
      json!({"k": "table", "values": m})
    }
    "buckets" => {
      let names: Vec<(String, Value)> = subs_of(agg); // serde_json maps are sorted by name
      let interval = agg.get("interval").and_then(|x| x.as_f64()).unwrap_or(1.0);
      let offset = agg.get("offset").and_then(|x| x.as_f64()).unwrap_or(0.0);
      let ranges = agg.get("ranges").and_then(|r| r.as_array()).cloned().unwrap_or_default();
      let key_json = |k: &Value| -> Value {
        if let Some(s) = k.get("s") {
          return s.clone();
        }
        if let Some(i) = k.get("i").and_then(|i| i.as_i64()) {
          return match ty {
            "histogram" => num(i as f64 * interval + offset),
            "range" => ranges.get(i as usize).map(range_key).unwrap_or(Value::Null),
            "date_range" => ranges.get(i as usize).map(date_range_key).unwrap_or(Value::Null),
            _ => json!(i),
          };
        }
        if let Some(ps) = k.get("p").and_then(|p| p.as_array()) {
          let parts: Vec<Value> = ps.iter().map(|p| if let Some(s) = p.get("s") { s.clone() } else { num(rat(&p["q"])) }).collect();
          return composite_key_json(agg, &parts);
        }
        Value::Null
      };
      let buckets: Vec<Value> = node["buckets"]
        .as_array()
        .cloned()
        .unwrap_or_default()
        .iter()
        .map(|b| {
          let mut m = Map::new();
          for (child, (name, sub)) in b["subs"].as_array().cloned().unwrap_or_default().iter().zip(names.iter()) {
            m.insert(name.clone(), canon_model(child, sub, rank_ids));
          }
          json!({"key": key_json(&b["key"]), "count": b["count"], "subs": m})
        })
        .collect();
      let k = if ty == "filter" { "filter" } else { ty };
      let mut v = json!({"k": k, "buckets": buckets});
      if ty == "composite" {
        v["after_key"] = if node["after"].is_null() { Value::Null } else { key_json(&node["after"]) };
      }
      v
    }
    other => json!({"k": "unsupported", "t": other}),
  }
}

/// sort key of a document for a top_hits request
fn hit_key(agg: &Value, d: &Doc) -> Value {
  let ks: Vec<Value> = agg["sort"]
    .as_array()
    .cloned()
    .unwrap_or_default()
    .iter()
    .map(|sp| {
      let vs = d.nums(sp["field"].as_str().unwrap_or(""));
      if vs.is_empty() {
        Value::Null
      } else if sp["order"] == "desc" {
        json!(vs.iter().cloned().fold(f64::NEG_INFINITY, f64::max))
      } else {
        json!(vs.iter().cloned().fold(f64::INFINITY, f64::min))
      }
    })
    .collect();
  json!(ks)
}

/// The property does not fix the order of hits with equal sort keys (the code breaks ties by
/// segment and position in the segment, which depends on the layout): replace the hit ids of
/// every top_hits view by their sort keys.  Duplicate or unknown ids are kept as they are, so
/// that they still show up as a difference.
pub fn hits_modulo_ties(view: &mut Value, agg: &Value, by_id: &BTreeMap<String, &Doc>) {
  if agg["type"] == "top_hits" {
    let ids: Vec<String> = view["hits"].as_array().cloned().unwrap_or_default().iter().map(|h| h.as_str().unwrap_or("").to_string()).collect();
    let distinct: BTreeSet<&String> = ids.iter().collect();
    if distinct.len() == ids.len() && ids.iter().all(|i| by_id.contains_key(i)) {
      let keys: Vec<Value> = ids.iter().map(|i| hit_key(agg, by_id[i])).collect();
      view["hits"] = json!(keys);
    }
    return;
  }
  let subs = subs_of(agg);
  if subs.is_empty() {
    return;
  }
  if let Some(bs) = view.get_mut("buckets").and_then(|b| b.as_array_mut()) {
    for b in bs.iter_mut() {
      for (name, sub) in &subs {
        if let Some(v) = b["subs"].get_mut(name) {
          hits_modulo_ties(v, sub, by_id);
        }
      }
    }
  }
}

fn values_close(a: &Value, b: &Value) -> bool {
  match (a, b) {
    (Value::Number(x), Value::Number(y)) => {
      // relative 1e-9, with an absolute floor of 1e-9 (field values are multiples of 0.25, so a
      // result like 5.6e-17 from an interpolation that cancels to zero is a zero)
      let (p, q) = (x.as_f64().unwrap_or(f64::NAN), y.as_f64().unwrap_or(f64::NAN));
      idx::close(p, q, REL) || (p - q).abs() <= REL
    }
    (Value::Array(x), Value::Array(y)) => x.len() == y.len() && x.iter().zip(y.iter()).all(|(p, q)| values_close(p, q)),
    (Value::Object(x), Value::Object(y)) => x.len() == y.len() && x.iter().all(|(k, v)| y.get(k).map(|w| values_close(v, w)).unwrap_or(false)),
    _ => a == b,
  }
}

#[derive(Debug, Clone)]
pub struct Diff {
  /// names of the aggregations from the root to the blamed node
  pub path: Vec<String>,
  pub what: String,
}

/// first difference between two views of the aggregation `name`; the blamed node is the
/// shallowest one whose own data (keys, counts, metric values) differ
pub fn diff_view(name: &str, a: &Value, b: &Value) -> Option<Diff> {
  let here = |what: String| Some(Diff { path: vec![name.to_string()], what });
  if a["k"] != b["k"] {
    return here(format!("kind {} vs {}", a["k"], b["k"]));
  }
  if let (Some(ba), Some(bb)) = (a.get("buckets").and_then(|x| x.as_array()), b.get("buckets").and_then(|x| x.as_array())) {
    let shape = |bs: &Vec<Value>| -> Vec<Value> { bs.iter().map(|x| json!([x["key"], x["count"]])).collect() };
    let (sa, sb) = (shape(ba), shape(bb));
    if !values_close(&json!(sa), &json!(sb)) {
      return here(format!("buckets {} vs {}", json!(sa), json!(sb)));
    }
    if !values_close(a.get("after_key").unwrap_or(&Value::Null), b.get("after_key").unwrap_or(&Value::Null)) {
      return here(format!("after_key {} vs {}", a["after_key"], b["after_key"]));
    }
    for (x, y) in ba.iter().zip(bb.iter()) {
      let (mx, my) = (x["subs"].as_object().cloned().unwrap_or_default(), y["subs"].as_object().cloned().unwrap_or_default());
      let kx: Vec<&String> = mx.keys().collect();
      let ky: Vec<&String> = my.keys().collect();
      if kx != ky {
        return here(format!("children of bucket {}: {:?} vs {:?}", x["key"], kx, ky));
      }
      for (n, vx) in mx.iter() {
        if let Some(mut d) = diff_view(n, vx, &my[n]) {
          d.path.insert(0, name.to_string());
          return Some(d);
        }
      }
    }
    return None;
  }
  if !values_close(a, b) {
    return here(format!("{} vs {}", a, b));
  }
  None
}

// ------------------------------------------------------------------ request-tree surgery

fn node_at<'a>(aggs: &'a Value, path: &[String]) -> Option<&'a Value> {
  let mut cur = aggs.get(&path[0])?;
  for p in &path[1..] {
    cur = cur.get("aggs")?.get(p)?;
  }
  Some(cur)
}

fn node_at_mut<'a>(aggs: &'a mut Value, path: &[String]) -> Option<&'a mut Value> {
  let mut cur = aggs.get_mut(&path[0])?;
  for p in &path[1..] {
    cur = cur.get_mut("aggs")?.get_mut(p)?;
  }
  Some(cur)
}

fn remove_at(aggs: &mut Value, path: &[String]) {
  if path.len() == 1 {
    if let Some(m) = aggs.as_object_mut() {
      m.remove(&path[0]);
    }
    return;
  }
  if let Some(parent) = node_at_mut(aggs, &path[..path.len() - 1]) {
    if let Some(m) = parent.get_mut("aggs").and_then(|a| a.as_object_mut()) {
      m.remove(&path[path.len() - 1]);
    }
  }
}

// ------------------------------------------------------------------ running the implementation

pub struct Built {
  pub _dir: tempfile::TempDir,
  pub index: searchlite_core::api::Index,
  /// live corpus documents per segment, in segment order (indices into the corpus)
  pub segs: Vec<Vec<usize>>,
}

/// build one layout: `commits` is a list of commits, each a list of items
/// `{"doc": i}` | `{"ghost": <doc json>}` (deleted by a later commit) |
/// `{"stale": <doc json with the _id of a corpus doc added by a later commit>}`
pub fn build_layout(docs: &[Value], layout: &Value) -> Result<Built, String> {
  let dir = scratch();
  let index = idx::create(dir.path(), &schema_json(), true)?;
  let commits = layout["commits"].as_array().cloned().unwrap_or_default();
  let mut segs = Vec::new();
  let mut pending_delete: Vec<String> = Vec::new();
  for c in &commits {
    let mut w = index.writer().map_err(|e| e.to_string())?;
    if !pending_delete.is_empty() {
      w.delete_documents(&pending_delete).map_err(|e| format!("delete: {e}"))?;
      pending_delete.clear();
    }
    let mut live = Vec::new();
    for item in c.as_array().cloned().unwrap_or_default() {
      if let Some(i) = item.get("doc").and_then(|i| i.as_u64()) {
        w.add_document(&idx::doc(&docs[i as usize])).map_err(|e| format!("add: {e}"))?;
        live.push(i as usize);
      } else if let Some(g) = item.get("ghost") {
        w.add_document(&idx::doc(g)).map_err(|e| format!("add ghost: {e}"))?;
        pending_delete.push(g["_id"].as_str().unwrap_or("").to_string());
      } else if let Some(g) = item.get("stale") {
        w.add_document(&idx::doc(g)).map_err(|e| format!("add stale: {e}"))?;
      }
    }
    w.commit().map_err(|e| format!("commit: {e}"))?;
    // the writer collects a commit's documents in a BTreeMap keyed by id: within a segment the
    // document order (the tie-break of top_hits) is the byte order of the ids
    live.sort_by(|a, b| docs[*a]["_id"].as_str().unwrap_or("").as_bytes().cmp(docs[*b]["_id"].as_str().unwrap_or("").as_bytes()));
    segs.push(live);
  }
  if !pending_delete.is_empty() {
    idx::delete_commit(&index, &pending_delete)?;
  }
  Ok(Built { _dir: dir, index, segs })
}

pub fn gen_layouts(rng: &mut Rng, docs: &[Value], n_layouts: usize) -> Vec<Value> {
  let n = docs.len();
  let mut layouts = Vec::new();
  for li in 0..n_layouts {
    // cut points
    let cuts: Vec<usize> = match li {
      0 => vec![],                 // one segment
      1 => (1..n).collect(),       // one document per segment
      _ => {
        let k = 1 + rng.below(n.min(5).max(1));
        let mut c: BTreeSet<usize> = BTreeSet::new();
        for _ in 0..k {
          if n > 1 {
            c.insert(1 + rng.below(n - 1));
          }
        }
        c.into_iter().collect()
      }
    };
    let mut commits: Vec<Vec<Value>> = vec![vec![]];
    for i in 0..n {
      if cuts.contains(&i) {
        commits.push(vec![]);
      }
      commits.last_mut().unwrap().push(json!({"doc": i}));
    }
    // dead documents: never in the one-segment layout's way of checking the plain path
    if li >= 2 && rng.chance(1, 2) {
      let ncommits = commits.len();
      for g in 0..(1 + rng.below(2)) {
        let c = rng.below(ncommits);
        if c + 1 < ncommits && rng.chance(1, 2) {
          // stale version of a document that a later commit adds again
          let later: Vec<usize> = commits[c + 1..].iter().flatten().filter_map(|x| x.get("doc").and_then(|d| d.as_u64()).map(|d| d as usize)).collect();
          let target = later[rng.below(later.len())];
          let id = docs[target]["_id"].as_str().unwrap_or("").to_string();
          let already = commits[c].iter().any(|x| x.get("stale").map(|s| s["_id"] == json!(id)).unwrap_or(false));
          if !already {
            let stale = gen_doc(rng, id);
            let pos = rng.below(commits[c].len() + 1);
            commits[c].insert(pos, json!({"stale": stale}));
          }
        } else {
          let ghost = gen_doc(rng, format!("g{li}_{g}"));
          let pos = rng.below(commits[c].len() + 1);
          commits[c].insert(pos, json!({"ghost": ghost}));
        }
      }
    }
    layouts.push(json!({"commits": commits}));
  }
  layouts
}

pub fn matches_query(q: &Value, d: &Doc) -> bool {
  match q["type"].as_str().unwrap_or("") {
    "match_all" => true,
    "term" => d.kws(q["field"].as_str().unwrap_or("")).iter().any(|x| x.eq_ignore_ascii_case(q["value"].as_str().unwrap_or(""))),
    _ => false,
  }
}

fn impl_views(reader: &searchlite_core::api::IndexReader, query: &Value, aggs: &Value) -> Result<(BTreeMap<String, Value>, Vec<String>), String> {
  let req = json!({"query": query, "limit": 1000, "aggs": aggs});
  match idx::search(reader, &req) {
    idx::Outcome::Ok(v) => {
      let mut m = BTreeMap::new();
      if let Some(a) = v.get("aggregations").and_then(|a| a.as_object()) {
        for (k, r) in a {
          m.insert(k.clone(), canon_impl(r));
        }
      }
      Ok((m, idx::hit_ids(&v)))
    }
    idx::Outcome::Err(e) => Err(format!("error: {e}")),
    idx::Outcome::Panic(e) => Err(format!("panic: {e}")),
  }
}

/// switch off the per-segment thresholds of every node of a request (`aggs` map)
fn neutralize_all(aggs: &mut Value) {
  if let Some(m) = aggs.as_object_mut() {
    for (_, a) in m.iter_mut() {
      neutralize(a);
      if let Some(sub) = a.get_mut("aggs") {
        neutralize_all(sub);
      }
    }
  }
}

/// kinds occurring in an aggregation tree
fn kinds_of(agg: &Value, depth: usize, out: &mut Vec<(String, usize)>) {
  out.push((agg["type"].as_str().unwrap_or("").to_string(), depth));
  for (_, s) in subs_of(agg) {
    kinds_of(&s, depth + 1, out);
  }
}

fn nonempty_view(v: &Value) -> bool {
  if let Some(bs) = v.get("buckets").and_then(|b| b.as_array()) {
    return bs.iter().any(|b| b["count"].as_u64().unwrap_or(0) > 0);
  }
  v.get("total").and_then(|c| c.as_u64()).unwrap_or(0) > 0 || v.get("count").and_then(|c| c.as_u64()).unwrap_or(0) > 0 || v.get("value").and_then(|c| c.as_u64()).unwrap_or(0) > 0 || v.get("values").is_some()
}

/// candidate signatures for a blamed node, from the request alone (most specific first)
fn candidate_sigs(node: &Value) -> Vec<&'static str> {
  let mut out = Vec::new();
  match node["type"].as_str().unwrap_or("") {
    "terms" if node.get("min_doc_count").and_then(|m| m.as_u64()).unwrap_or(1) >= 2 || node.get("size").map(|s| !s.is_null()).unwrap_or(false) => {
      out.push("aggs.threshold-per-segment.terms")
    }
    "rare_terms" => out.push("aggs.threshold-per-segment.rare_terms"),
    "histogram" if node.get("min_doc_count").and_then(|m| m.as_u64()).unwrap_or(0) >= 2 => out.push("aggs.threshold-per-segment.histogram"),
    "date_histogram" => {
      if fill_quirk(node) {
        out.push("date_histogram.calendar-offset-fill");
      }
      if is_quarter(node) {
        out.push("date_histogram.quarter-day31");
      }
      if node.get("min_doc_count").and_then(|m| m.as_u64()).unwrap_or(0) >= 2 {
        out.push("aggs.threshold-per-segment.date_histogram");
      }
    }
    "top_hits" if node.get("from").and_then(|m| m.as_u64()).unwrap_or(0) >= 1 => out.push("top_hits.from-per-segment"),
    "composite" if node["sources"].as_array().map(|s| s.iter().any(|x| x["type"] == "histogram" && is_i64(x["field"].as_str().unwrap_or("")))).unwrap_or(false) => {
      out.push("composite.histogram-i64")
    }
    _ => {}
  }
  out
}

fn is_quarter(node: &Value) -> bool {
  matches!(node.get("calendar_interval").and_then(|c| c.as_str()).map(|c| c.to_ascii_lowercase()).as_deref(), Some("quarter") | Some("1q"))
}

/// some date the request looks at (document values, `missing`, bounds), shifted by the offset,
/// falls on a 31st of May
fn sees_may31(node: &Value, docs: &[Doc]) -> bool {
  let off = node.get("offset").and_then(|o| o.as_str()).and_then(interval_seconds).map(|s| (s * 1000.0) as i64).unwrap_or(0);
  let field = node["field"].as_str().unwrap_or("");
  let mut vals: Vec<i64> = docs.iter().flat_map(|d| d.nums(field).to_vec()).map(|v| v as i64).collect();
  if let Some(m) = node.get("missing").and_then(|m| m.as_str()).and_then(parse_date_str) {
    vals.push(m as i64);
  }
  for k in ["extended_bounds", "hard_bounds"] {
    if let Some(b) = node.get(k).filter(|b| !b.is_null()) {
      for e in ["min", "max"] {
        if let Some(v) = b[e].as_str().and_then(parse_date_str) {
          vals.push(v as i64);
        }
      }
    }
  }
  vals.iter().any(|v| {
    let (_, m, d) = civil_from_days((v - off).div_euclid(86_400_000));
    m == 5 && d == 31
  })
}

/// all instances (one per parent bucket) of the node at `path` in a view
fn instances_at(view: &Value, path: &[String]) -> Vec<Value> {
  let mut cur: Vec<Value> = vec![view.clone()];
  for p in &path[1..] {
    cur = cur.iter().flat_map(|c| c["buckets"].as_array().cloned().unwrap_or_default()).filter_map(|b| b["subs"].get(p).cloned()).collect();
  }
  cur
}

/// the two views agree on the buckets that hold documents, at every instance of the node
fn same_nonempty_buckets(a: &Value, b: &Value, path: &[String]) -> bool {
  let (ia, ib) = (instances_at(a, path), instances_at(b, path));
  let shape = |v: &Value| -> Vec<Value> {
    v["buckets"].as_array().cloned().unwrap_or_default().iter().filter(|x| x["count"].as_u64().unwrap_or(0) > 0).map(|x| json!([x["key"], x["count"]])).collect()
  };
  ia.len() == ib.len() && ia.iter().zip(ib.iter()).all(|(x, y)| values_close(&json!(shape(x)), &json!(shape(y))))
}

/// calendar interval + offset + (extended or hard) bounds
fn fill_quirk(node: &Value) -> bool {
  let has = |k: &str| node.get(k).map(|v| !v.is_null()).unwrap_or(false);
  has("calendar_interval") && has("offset") && (has("extended_bounds") || has("hard_bounds"))
}

/// the node with its per-segment thresholds removed (limits that are applied once, after the
/// merge, would give the same answer on the relaxed request)
fn neutralize(node: &mut Value) {
  match node["type"].as_str().unwrap_or("") {
    "terms" => {
      if let Some(m) = node.as_object_mut() {
        m.remove("min_doc_count");
        m.remove("size");
      }
    }
    "rare_terms" => {
      node["max_doc_count"] = json!(1_000_000);
      if let Some(m) = node.as_object_mut() {
        m.remove("size");
      }
    }
    "histogram" | "date_histogram" => {
      node["min_doc_count"] = json!(0);
      if fill_quirk(node) {
        if let Some(m) = node.as_object_mut() {
          m.remove("offset");
        }
      }
      if is_quarter(node) {
        node["calendar_interval"] = json!("month");
      }
    }
    "top_hits" => {
      node["from"] = json!(0);
    }
    _ => {}
  }
}

impl Prop for C12 {
  fn id(&self) -> &'static str {
    "C12"
  }
  fn rule(&self) -> &'static str {
    "case = (corpus of 1..24 docs over keyword/i64/f64/date single- and multi-valued fast fields, 3..5 segment layouts of it incl. one segment and one doc per segment, some with deleted ghosts / stale versions, match_all or term query, 1..2 aggregation trees to depth 3); every layout is searched and compared with the Rust oracle and with the Lean mechanism model; non-trivial = at least two matched documents, at least two layouts with different segment counts, and a non-empty expected response; distinct = distinct case JSON"
  }
  fn count(&self, tier: Tier) -> usize {
    tier.pick(220, 10000)
  }
  fn gen(&self, rng: &mut Rng, _tier: Tier, i: usize) -> Value {
    let big = rng.chance(1, 4);
    let n = 1 + rng.below(if big { 24 } else { 12 });
    let docs: Vec<Value> = (0..n).map(|d| gen_doc(rng, format!("d{d}"))).collect();
    let n_layouts = 3 + rng.below(3);
    let layouts = gen_layouts(rng, &docs, n_layouts);
    let query = if rng.chance(2, 3) {
      json!({"type": "match_all"})
    } else {
      json!({"type": "term", "field": pick_kw_field(rng), "value": *rng.pick(&KW_VALUES[..3])})
    };
    // two thirds of the cases stay away from the request class of the open finding
    let risky = i % 3 == 2;
    let mut aggs = Map::new();
    for a in 0..(1 + rng.below(2)) {
      aggs.insert(format!("a{a}"), gen_agg(rng, 1, risky));
    }
    json!({"docs": docs, "layouts": layouts, "query": query, "aggs": aggs})
  }

  fn run_case(&self, drv: &mut Driver, case: &Value, s: &mut Summary) {
    let docs_json = case["docs"].as_array().cloned().unwrap_or_default();
    let docs: Vec<Doc> = docs_json.iter().map(parse_doc).collect();
    let query = &case["query"];
    let aggs = &case["aggs"];
    let layouts = case["layouts"].as_array().cloned().unwrap_or_default();
    let matched: Vec<&Doc> = docs.iter().filter(|d| matches_query(query, d)).collect();
    let matched_ids: BTreeSet<String> = matched.iter().map(|d| d.id.clone()).collect();

    // expected views
    let agg_names: Vec<String> = aggs.as_object().map(|m| m.keys().cloned().collect()).unwrap_or_default();
    let expected = |aggs: &Value| -> BTreeMap<String, Value> { aggs.as_object().map(|m| m.iter().map(|(k, a)| (k.clone(), oracle(a, &matched))).collect()).unwrap_or_default() };
    let want = expected(aggs);

    // build every layout once
    let mut built: Vec<Built> = Vec::new();
    for l in &layouts {
      match build_layout(&docs_json, l) {
        Ok(b) => built.push(b),
        Err(e) => {
          s.case(case, false);
          s.count("skipped:layout-build-error");
          s.notes.push(format!("layout build error: {e}"));
          return;
        }
      }
    }
    let seg_counts: BTreeSet<usize> = built.iter().map(|b| b.segs.len()).collect();
    let nontrivial = matched.len() >= 2 && seg_counts.len() >= 2 && want.values().any(nonempty_view);
    s.case(case, nontrivial);
    let mut kinds = Vec::new();
    for (_, a) in aggs.as_object().cloned().unwrap_or_default() {
      kinds_of(&a, 1, &mut kinds);
    }
    for (k, d) in &kinds {
      s.count(&format!("kind:{k}"));
      s.count(&format!("depth:{d}"));
    }
    s.count(if query["type"] == "match_all" { "query:match_all" } else { "query:term" });
    s.add("layouts", built.len() as u64);
    s.add("segments", built.iter().map(|b| b.segs.len() as u64).sum());

    let mut readers = Vec::new();
    for b in &built {
      match b.index.reader() {
        Ok(r) => readers.push(r),
        Err(e) => {
          s.fail("aggs.reader-error", "reader() failed on a freshly built layout", case, json!(e.to_string()));
          return;
        }
      }
    }

    // ---- implementation runs
    let mut got: Vec<BTreeMap<String, Value>> = Vec::new();
    for (li, r) in readers.iter().enumerate() {
      match impl_views(r, query, aggs) {
        Ok((views, hits)) => {
          let hit_set: BTreeSet<String> = hits.into_iter().collect();
          if hit_set != matched_ids {
            // matching is C04/C07 territory; without the same matched set C12 says nothing
            s.count("skipped:matched-set-differs");
            s.notes.push(format!("layout {li}: matched ids differ from the expected set"));
            return;
          }
          got.push(views);
        }
        Err(e) => {
          s.fail("aggs.search-error", "search with a valid aggregation request failed", case, json!({"layout": li, "error": e}));
          return;
        }
      }
    }

    // ---- finder: every layout equals the independent computation
    let by_id: BTreeMap<String, &Doc> = docs.iter().map(|d| (d.id.clone(), d)).collect();
    let mt = |views: &BTreeMap<String, Value>, aggs: &Value| -> BTreeMap<String, Value> {
      views
        .iter()
        .map(|(k, v)| {
          let mut v = v.clone();
          hits_modulo_ties(&mut v, &aggs[k], &by_id);
          (k.clone(), v)
        })
        .collect()
    };
    let mut work = aggs.clone();
    let mut guard = 0;
    let mut first_round = true;
    loop {
      guard += 1;
      if guard > 8 {
        break;
      }
      let want_w = mt(&if first_round { want.clone() } else { expected(&work) }, &work);
      let mut found: Option<(usize, Diff, Value, Value)> = None;
      'outer: for (li, r) in readers.iter().enumerate() {
        let views = if first_round {
          mt(&got[li], &work)
        } else {
          match impl_views(r, query, &work) {
            Ok((v, _)) => mt(&v, &work),
            Err(e) => {
              s.fail("aggs.search-error", "search with a valid aggregation request failed", case, json!({"layout": li, "error": e, "aggs": work}));
              return;
            }
          }
        };
        for (name, w) in want_w.iter() {
          let g = views.get(name).cloned().unwrap_or(Value::Null);
          if let Some(d) = diff_view(name, &g, w) {
            found = Some((li, d, g, w.clone()));
            break 'outer;
          }
        }
      }
      first_round = false;
      let Some((li, d, g, w)) = found else { break };
      let node = node_at(&work, &d.path).cloned().unwrap_or(Value::Null);
      let kind = node["type"].as_str().unwrap_or("?").to_string();
      let observed = json!({"layout": li, "segments": built[li].segs.len(), "path": d.path, "node": node, "diff": d.what, "impl": g, "expected": w});
      let mut sig = format!("aggs.mismatch.{kind}");
      let mut what = format!("aggregation `{kind}` differs from the computation over all matched live documents");
      for cand in candidate_sigs(&node) {
        if !sig.starts_with("aggs.mismatch") {
          break;
        }
        // predicate of the candidate signature, checked on this case
        let ok = if cand == "composite.histogram-i64" {
          // no buckets at all in every layout although documents carry values
          // every instance of the node (one per parent bucket) in every layout
          let mut n_inst = 0usize;
          let mut all_empty = true;
          for r in readers.iter() {
            match impl_views(r, query, &work) {
              Ok((v, _)) => {
                let mut cur: Vec<Value> = v.get(&d.path[0]).cloned().into_iter().collect();
                for p in &d.path[1..] {
                  cur = cur.iter().flat_map(|c| c["buckets"].as_array().cloned().unwrap_or_default()).filter_map(|b| b["subs"].get(p).cloned()).collect();
                }
                for c in cur {
                  n_inst += 1;
                  if !c["buckets"].as_array().map(|b| b.is_empty()).unwrap_or(false) {
                    all_empty = false;
                  }
                }
              }
              Err(_) => all_empty = false,
            }
          }
          n_inst > 0 && all_empty
        } else {
          // the one-segment layout is right, and without this node's thresholds every layout is
          // every per-segment threshold of the tree switched off / only this node's left on
          let mut relaxed = work.clone();
          neutralize_all(&mut relaxed);
          let mut only_this = relaxed.clone();
          if let Some(n) = node_at_mut(&mut only_this, &d.path) {
            *n = node.clone();
            if let (Some(src), Some(dst)) = (node_at(&relaxed, &d.path).and_then(|x| x.get("aggs")).cloned(), node_at_mut(&mut only_this, &d.path)) {
              dst["aggs"] = src;
            }
          }
          let want_o = mt(&expected(&only_this), &only_this);
          let want_r = mt(&expected(&relaxed), &relaxed);
          let path_ok = |views: &BTreeMap<String, Value>, want: &BTreeMap<String, Value>| -> bool {
            want.iter().all(|(name, w)| match diff_view(name, views.get(name).unwrap_or(&Value::Null), w) {
              Some(d2) => !(d2.path.len() <= d.path.len() && d.path.starts_with(&d2.path)),
              None => true,
            })
          };
          let single_ok = built.iter().zip(readers.iter()).filter(|(b, _)| b.segs.len() == 1).all(|(_, r)| impl_views(r, query, &only_this).map(|(v, _)| path_ok(&mt(&v, &only_this), &want_o)).unwrap_or(false));
          let relaxed_ok = readers.iter().all(|r| impl_views(r, query, &relaxed).map(|(v, _)| path_ok(&mt(&v, &relaxed), &want_r)).unwrap_or(false));
          if cand == "date_histogram.calendar-offset-fill" {
            // independent of the layout: without the offset every layout is right, and only
            // buckets without documents differ
            relaxed_ok && same_nonempty_buckets(&g, &w, &d.path)
          } else if cand == "date_histogram.quarter-day31" {
            // independent of the layout: a 31st of May is involved, and by month all is right
            // (a per-segment threshold would leave the one-segment layout right)
            relaxed_ok && !single_ok && sees_may31(&node, &docs)
          } else {
            single_ok && relaxed_ok && built[li].segs.len() > 1
          }
        };
        if ok {
          sig = cand.to_string();
          what = match cand {
            "composite.histogram-i64" => "composite aggregation with a histogram source over an i64 field returns no buckets".to_string(),
            "date_histogram.calendar-offset-fill" => "date_histogram with calendar interval, offset and bounds: the empty buckets created from the bounds lose the offset after the first step (add_calendar drops the time of day)".to_string(),
            "date_histogram.quarter-day31" => "date_histogram by calendar quarter drops values dated 31 May (and the bounds fill when a bound is): truncate_calendar calls with_month(4) on the 31st before with_day(1)".to_string(),
            "top_hits.from-per-segment" => "top_hits applies `from` in every segment's finish() and again in every merge: wrong window when the hits are spread over several segments".to_string(),
            _ => format!("`{kind}` applies its doc-count threshold / size per segment before merging: wrong buckets when a key is spread over several segments"),
          };
        }
      }
      s.fail(&sig, &what, case, observed);
      if sig.starts_with("aggs.mismatch") {
        break;
      }
      // explained: take the node out and look for further, different mismatches
      if sig == "composite.histogram-i64" {
        remove_at(&mut work, &d.path);
      } else if let Some(n) = node_at_mut(&mut work, &d.path) {
        neutralize(n);
      }
      if work.as_object().map(|m| m.is_empty()).unwrap_or(true) {
        break;
      }
    }

    // ---- correspondence: mechanism model vs implementation, Spec vs oracle
    let fields = field_kinds();
    for (li, b) in built.iter().enumerate() {
      // documents are numbered in index order (segment, then position in the segment)
      let mut rank_ids: Vec<String> = Vec::new();
      let mut segs: Vec<Vec<Value>> = Vec::new();
      for seg in &b.segs {
        let mut out = Vec::new();
        for i in seg.iter().filter(|i| matched_ids.contains(&docs[**i].id)) {
          out.push(docs[*i].model_json(rank_ids.len()));
          rank_ids.push(docs[*i].id.clone());
        }
        segs.push(out);
      }
      for name in &agg_names {
        let agg = &aggs[name];
        let m = drv.call("C12", json!({"op": "run", "fields": fields, "segs": segs, "agg": agg}));
        if m["ok"] != json!(true) {
          s.disagree("aggs.model-error", case, json!({"layout": li, "agg": name}), m);
          return;
        }
        let mv = canon_model(&m["resp"], agg, &rank_ids);
        let iv = got[li].get(name).cloned().unwrap_or(Value::Null);
        if let Some(d) = diff_view(name, &iv, &mv) {
          s.disagree("aggs.run", case, json!({"layout": li, "path": d.path, "diff": d.what, "view": iv}), mv);
          return;
        }
        if li == 0 {
          let mut sv = canon_model(&m["spec"], agg, &rank_ids);
          let mut ov = want[name].clone();
          hits_modulo_ties(&mut sv, agg, &by_id);
          hits_modulo_ties(&mut ov, agg, &by_id);
          if let Some(d) = diff_view(name, &sv, &ov) {
            s.disagree("aggs.spec-vs-oracle", case, json!({"path": d.path, "diff": d.what, "oracle": want[name]}), sv);
            return;
          }
        }
      }
    }
  }

  fn finish(&self, _tier: Tier, s: &mut Summary) {
    s.notes.push("kinds generated and modelled: terms (size, min_doc_count, missing), rare_terms, range, histogram (offset, extended/hard bounds, missing, min_doc_count), stats, extended_stats, value_count, cardinality, percentiles/percentile_ranks (exact mode), filter, composite, top_hits (numeric sorts), date_range, date_histogram (fixed and calendar intervals, offset, bounds, missing, min_doc_count), sub-aggregations to depth 3".into());
    s.notes.push("not generated (not modelled): significant_terms, sampling, shard_size, pipeline aggregations, t-digest mode of percentiles (> 256 values), duplicate range keys, MAX_BUCKETS, top_hits sorted by _score or keyword fields".into());
  }
}
