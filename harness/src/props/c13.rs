//! C13 — aggregations and suggestions do not depend on paging.
//! Finder (implementation only): one request with aggregations and suggestions is run in many
//! variants (every page of a cursor walk, limits, sort plans, return_hits off, bm25/wand/bmw,
//! explain/profile, rescore, candidate_size); `aggregations` and `suggest` of every variant must
//! equal those of the base request.
//! Correspondence: the model's collected-document aggregations (`SL.Post.search`: terms count
//! over `g`, value count of `n`, taken over the documents that pass the cursor test) vs the
//! implementation, for every variant.  The spec-level theorem is short; this differential
//! carries the weight.
use super::c18::common::*;
use super::c18::{full_req, ranking_req};
use crate::proto::Driver;
use crate::rng::Rng;
use crate::summary::Summary;
use crate::{Prop, Tier};
use serde_json::{json, Value};

pub struct C13;
pub static P: C13 = C13;

fn gen_aggs(rng: &mut Rng) -> Value {
  let mut a = std_aggs();
  if rng.chance(1, 2) {
    a["st"] = json!({"type": "stats", "field": "x"});
  }
  if rng.chance(1, 2) {
    a["h"] = json!({"type": "histogram", "field": "n", "interval": 2.0});
  }
  if rng.chance(1, 3) {
    a["tk"] = json!({"type": "terms", "field": "k", "size": 3, "aggs": {"m": {"type": "stats", "field": "n"}}});
  }
  if rng.chance(1, 3) {
    a["f"] = json!({"type": "filter", "filter": {"KeywordIn": {"field": "k", "values": ["a", "b"]}}, "aggs": {"c": {"type": "value_count", "field": "x"}}});
  }
  if rng.chance(1, 4) {
    a["card"] = json!({"type": "cardinality", "field": "k"});
  }
  if rng.chance(1, 4) {
    a["top"] = json!({"type": "top_hits", "size": 2, "sort": [{"field": "n", "order": "desc"}]});
  }
  a
}

/// the canonical aggregation JSON with the `score` of every top_hits hit removed
fn strip_top_hits_scores(v: &Value) -> Value {
  match v {
    Value::Object(m) => {
      let is_top = m.get("type") == Some(&json!("top_hits"));
      Value::Object(
        m.iter()
          .map(|(k, x)| {
            if is_top && k == "hits" {
              (k.clone(), Value::Array(x.as_array().cloned().unwrap_or_default().iter().map(|h| {
                let mut h = h.clone();
                if let Some(o) = h.as_object_mut() {
                  o.remove("score");
                }
                h
              }).collect()))
            } else {
              (k.clone(), strip_top_hits_scores(x))
            }
          })
          .collect(),
      )
    }
    Value::Array(a) => Value::Array(a.iter().map(strip_top_hits_scores).collect()),
    other => other.clone(),
  }
}

impl Prop for C13 {
  fn id(&self) -> &'static str {
    "C13"
  }
  fn rule(&self) -> &'static str {
    "case = random corpus (6..40 docs, 1..3 segments, deletes) + query + optional filter + aggregation tree (terms/value_count always; stats, histogram, nested terms+stats, filter, cardinality, top_hits at random) + completion suggestion (50%); variants per case: full cursor walk with page size 1..4 (<= 8 pages), limits 1/3/50, 3 sort plans, return_hits=false, bm25/wand/bmw, explain, profile, rescore, candidate_size; each variant's aggregations+suggest are compared with the base request's; non-trivial = at least 2 matching documents and at least one variant with a cursor (page >= 2) was run; distinct = distinct case JSON"
  }
  fn count(&self, tier: Tier) -> usize {
    tier.pick(150, 5000)
  }
  fn gen(&self, rng: &mut Rng, _tier: Tier, _i: usize) -> Value {
    let corpus = gen_corpus(rng, 6, 40);
    let mut req = json!({"limit": 5, "sort": [], "execution": "wand", "aggs": gen_aggs(rng)});
    if rng.chance(1, 2) {
      req["suggest"] = json!({"s": {"type": "completion", "field": "body", "prefix": *rng.pick(&["a", "be", "e", "ga", "z", "th"]), "size": 1 + rng.below(4)}});
    }
    let variants = json!({
      "page": 1 + rng.below(4),
      "walk_sort": gen_sort(rng),
      "sorts": [gen_sort(rng), gen_sort(rng), gen_sort(rng)],
      "rescore": {"window_size": rng.below(12), "score_mode": *rng.pick(&MODES), "query": gen_rescore_query(rng)},
      "candidate_size": 6 + rng.below(20),
    });
    json!({"corpus": corpus, "query": gen_query(rng), "filter": gen_filter(rng), "req": req, "variants": variants})
  }

  fn run_case(&self, drv: &mut Driver, case: &Value, s: &mut Summary) {
    let built = match build(&case["corpus"]) {
      Ok(b) => b,
      Err(e) => {
        s.disagree("harness.build", case, json!(e), json!(null));
        return;
      }
    };
    let lay = match layout(&built.reader, &case["corpus"]) {
      Ok(l) => l,
      Err(e) => {
        s.disagree("harness.layout", case, json!(e), json!(null));
        return;
      }
    };
    let req = full_req(case);
    let base = match run(&built.reader, &req) {
      Ok(r) => r,
      Err(e) => {
        s.case(case, false);
        s.count(&format!("base_error:{}", e.chars().take(40).collect::<String>()));
        return;
      }
    };
    let want = canon_aggs(&base);
    let vs = &case["variants"];
    // (name, request, cursor for the model)
    let mut variants: Vec<(String, Value, Option<(String, f32, usize)>)> = Vec::new();
    let with = |k: &str, v: Value| {
      let mut r = req.clone();
      r[k] = v;
      r
    };
    for l in [1, 3, 50] {
      variants.push((format!("limit"), with("limit", json!(l)), None));
    }
    for so in vs["sorts"].as_array().cloned().unwrap_or_default() {
      variants.push(("sort".into(), with("sort", so), None));
    }
    variants.push(("return_hits".into(), with("return_hits", json!(false)), None));
    for e in ["bm25", "bmw"] {
      variants.push(("execution".into(), with("execution", json!(e)), None));
    }
    variants.push(("explain".into(), with("explain", json!(true)), None));
    variants.push(("profile".into(), with("profile", json!(true)), None));
    variants.push(("rescore".into(), with("rescore", vs["rescore"].clone()), None));
    variants.push(("candidate_size".into(), with("candidate_size", vs["candidate_size"].clone()), None));
    // cursor walk
    let mut walk = with("limit", vs["page"].clone());
    walk["sort"] = vs["walk_sort"].clone();
    let mut pages = 0;
    let mut returned = 0usize;
    let mut cur: Option<(String, f32, usize)> = None;
    let mut cursor_pages = 0;
    loop {
      let mut r = walk.clone();
      let res = match run(&built.reader, &r) {
        Ok(x) => x,
        Err(e) => {
          s.count(&format!("walk_error:{}", e.chars().take(40).collect::<String>()));
          break;
        }
      };
      if pages > 0 {
        cursor_pages += 1;
      }
      variants.push((if pages == 0 { "walk-first-page".into() } else { "cursor-page".into() }, r.take(), cur.clone()));
      pages += 1;
      returned += res.hits.len();
      match (res.next_cursor.clone(), res.hits.last()) {
        (Some(c), Some(last)) if pages < 8 => {
          walk["cursor"] = json!(c);
          cur = Some((last.doc_id.clone(), last.score, returned));
        }
        _ => break,
      }
    }
    let nontrivial = base.total_hits_estimate >= 2 && cursor_pages > 0;
    s.case(case, nontrivial);
    s.add("variants", variants.len() as u64);
    s.add("cursor_pages", cursor_pages as u64);
    s.count(&format!("aggs:{}", req["aggs"].as_object().map(|m| m.len()).unwrap_or(0)));
    if !req["suggest"].is_null() {
      s.count("with_suggest");
    }

    let mut rankings: std::collections::HashMap<String, Option<Vec<(String, f32)>>> = std::collections::HashMap::new();
    for (name, r, cursor) in variants {
      let v = match run(&built.reader, &r) {
        Ok(v) => v,
        Err(e) => {
          s.fail(&format!("aggs.variant-error.{name}"), "variant of the request fails although the base request succeeds", case, json!({"variant": name, "request": r, "error": e}));
          continue;
        }
      };
      // ---------------- finder ----------------
      let got = canon_aggs(&v);
      if !value_close(&got, &want) {
        let obs = json!({"variant": name, "limit": r["limit"], "sort": r["sort"], "cursor": r["cursor"], "base": want, "variant_result": got});
        let field_sort = !plan_json(&r["sort"]).as_array().map(|a| a.iter().any(|p| p["f"] == "score")).unwrap_or(false);
        if name != "cursor-page" && field_sort && !has_hook(&r["query"]) && !r["explain"].as_bool().unwrap_or(false) && value_close(&strip_top_hits_scores(&got), &strip_top_hits_scores(&want)) {
          s.fail("aggs.top-hits-score-under-field-sort", "a top_hits aggregation reports score 0 for its hits when the request sort does not use _score (scores are not computed then), the real score otherwise", case, obs);
        } else if name == "cursor-page" {
          s.fail("aggs.cursor-page", "on page >= 2 of a cursor walk aggregations only count the documents after the cursor (the cursor test sits in the accept step that feeds the collectors)", case, obs);
        } else {
          s.fail(&format!("aggs.variant.{name}"), "aggregations/suggestions differ from the base request's", case, obs);
        }
      }
      // ---------------- correspondence ----------------
      let mut rk = ranking_req(&json!({"query": case["query"], "filter": case["filter"], "req": {"execution": r["execution"], "explain": r["explain"]}}), &r["sort"]);
      rk["limit"] = json!(ALL);
      // one ranking run per distinct (sort, execution, explain) of the case, not per variant
      let rk_key = rk.to_string();
      if !rankings.contains_key(&rk_key) {
        let sc = run(&built.reader, &rk).ok().and_then(|ranking| raw_scores(&built.reader, &rk, &ranking).ok());
        rankings.insert(rk_key.clone(), sc);
      }
      let scores = match rankings.get(&rk_key).cloned().flatten() {
        Some(x) => x,
        None => continue,
      };
      let cur = cursor.as_ref().map(|(id, sc, n)| (id.as_str(), *sc, *n));
      let mut mr = model_req(&r, &lay, model_hits(&lay, &scores, None), cur, false);
      // hits themselves are C18–C20's business; here only what was collected
      mr["return_hits"] = json!(false);
      let m = drv.call("C13", mr);
      let mut d: Option<String> = None;
      if m["ok"] != json!(true) {
        d = Some(format!("model error {}", m["error"]));
      } else {
        let probe = searchlite_core::api::SearchResult { hits: Vec::new(), total_hits_estimate: v.total_hits_estimate, total_groups: None, next_cursor: None, aggregations: v.aggregations.clone(), suggest: Default::default(), profile: if r["profile"].as_bool().unwrap_or(false) { v.profile.clone() } else { None } };
        d = d.or(compare(&m, &probe, &lay, total_is_exact(&r, &case["query"])));
      }
      if let Some(d) = d {
        s.disagree("post.aggs", case, json!({"variant": name, "request": r, "diff": d}), m);
      }
    }
  }
}
