//! C14 — compaction preserves observable contents.
//! Finder (implementation vs implementation): a random history (several commits with adds,
//! upserts and deletes over documents with text/keyword/numeric/nested fields, empty arrays,
//! nulls, multi-valued values, nested arrays with null elements) ends in `compact`; live ids,
//! stored fields and the id sets of ~20 random queries + ~20 random filters are taken from a fresh
//! reader before and after and must be identical; afterwards at most one segment and (when
//! compaction ran) no tombstones; a refusal must leave the manifest bytes and the file listing
//! unchanged.
//! Correspondence: result class (ok / refused / failed), contents and segment count after
//! compaction vs `SL.Contents.compact` with `SL.Doc.project` / `ingestOk` / `compactSafe`; stored
//! fields of every live document vs `SL.Doc.project`.
use super::c04::{canon, canon_map, gen_doc, model_contents, schema_has_unrebuildable_field, schema_json, Store, AS, TAGS, TS, WORDS};
use crate::idx;
use crate::proto::Driver;
use crate::rng::Rng;
use crate::summary::Summary;
use crate::util::guarded;
use crate::{Prop, Tier};
use serde_json::{json, Value};
use std::collections::BTreeMap;

pub struct C14;
pub static P: C14 = C14;

fn gen_leaf_filter(rng: &mut Rng) -> Value {
  match rng.below(5) {
    0 => json!({"KeywordEq": {"field": "tag", "value": *rng.pick(&TAGS)}}),
    1 => json!({"KeywordIn": {"field": "tag", "values": [*rng.pick(&TAGS), *rng.pick(&TAGS)]}}),
    2 => {
      let a = rng.below(12) as i64;
      json!({"I64Range": {"field": "n", "min": a, "max": a + rng.below(8) as i64}})
    }
    3 => {
      let a = rng.below(8) as f64;
      json!({"F64Range": {"field": "x", "min": a, "max": a + 0.5 + rng.below(3) as f64}})
    }
    _ => json!({"Nested": {"path": "c", "filter": gen_c_filter(rng, 2)}}),
  }
}

/// filter evaluated inside one object of `c`
fn gen_c_filter(rng: &mut Rng, depth: usize) -> Value {
  match rng.below(if depth == 0 { 3 } else { 8 }) {
    0 => json!({"KeywordEq": {"field": "a", "value": *rng.pick(&AS)}}),
    1 => {
      let a = rng.below(5) as i64;
      json!({"I64Range": {"field": "k", "min": a, "max": a + rng.below(3) as i64}})
    }
    2 => json!({"KeywordIn": {"field": "a", "values": [*rng.pick(&AS), *rng.pick(&AS)]}}),
    3 => json!({"Not": gen_c_filter(rng, depth - 1)}),
    4 => json!({"And": [gen_c_filter(rng, depth - 1), gen_c_filter(rng, depth - 1)]}),
    5 => json!({"Or": [gen_c_filter(rng, depth - 1), gen_c_filter(rng, depth - 1)]}),
    _ => {
      let inner = match rng.below(3) {
        0 => json!({"Not": {"KeywordEq": {"field": "t", "value": *rng.pick(&TS)}}}),
        _ => json!({"KeywordEq": {"field": "t", "value": *rng.pick(&TS)}}),
      };
      json!({"Nested": {"path": "r", "filter": inner}})
    }
  }
}

fn gen_filter(rng: &mut Rng, depth: usize) -> Value {
  if depth == 0 {
    return gen_leaf_filter(rng);
  }
  match rng.below(6) {
    0 => json!({"And": [gen_filter(rng, depth - 1), gen_filter(rng, depth - 1)]}),
    1 => json!({"Or": [gen_filter(rng, depth - 1), gen_filter(rng, depth - 1)]}),
    2 => json!({"Not": gen_filter(rng, depth - 1)}),
    _ => gen_leaf_filter(rng),
  }
}

fn gen_query(rng: &mut Rng, positions: bool, depth: usize) -> Value {
  match rng.below(if depth == 0 { 5 } else { 7 }) {
    0 => json!({"type": "term", "field": "body", "value": *rng.pick(&WORDS)}),
    1 => json!(format!("{} {}", rng.pick(&WORDS), rng.pick(&WORDS))),
    2 => json!({"type": "term", "field": "tag", "value": rng.pick(&TAGS).to_lowercase()}),
    3 => {
      if positions {
        json!({"type": "phrase", "field": "body", "terms": [*rng.pick(&WORDS), *rng.pick(&WORDS)], "slop": rng.below(2)})
      } else {
        json!({"type": "prefix", "field": "body", "value": &rng.pick(&WORDS)[..2]})
      }
    }
    4 => json!({"type": "prefix", "field": "body", "value": &rng.pick(&WORDS)[..1]}),
    5 => json!({"type": "bool", "must": [gen_query(rng, positions, depth - 1)], "must_not": [gen_query(rng, positions, depth - 1)]}),
    _ => json!({"type": "bool", "should": [gen_query(rng, positions, depth - 1), gen_query(rng, positions, depth - 1)], "filter": [gen_leaf_filter(rng)]}),
  }
}

/// what a fresh reader shows: live documents and the id set of every probe
fn observe(index: &searchlite_core::api::Index, probes: &[Value]) -> Result<(BTreeMap<String, Value>, Vec<Value>), String> {
  let live = canon_map(&idx::live(index)?);
  let reader = index.reader().map_err(|e| e.to_string())?;
  let mut out = Vec::new();
  for p in probes {
    let mut req = p.clone();
    req["limit"] = json!(10000);
    req["execution"] = json!("bm25");
    let o = idx::search(&reader, &req);
    out.push(match &o {
      idx::Outcome::Ok(v) => {
        let mut ids = idx::hit_ids(v);
        ids.sort();
        json!({"ids": ids})
      }
      other => json!({"class": other.class()}),
    });
  }
  Ok((live, out))
}

/// prefix/wildcard/regex/fuzzy nodes inside `should` lists of a query
fn should_expansions(q: &Value) -> Vec<Value> {
  let mut out = Vec::new();
  if let Some(m) = q.as_object() {
    for key in ["must", "should", "must_not"] {
      if let Some(list) = m.get(key).and_then(|x| x.as_array()) {
        for n in list {
          if key == "should" && matches!(n["type"].as_str(), Some("prefix") | Some("wildcard") | Some("regex") | Some("fuzzy")) {
            out.push(n.clone());
          }
          out.extend(should_expansions(n));
        }
      }
    }
  }
  out
}

/// rewrite the nested value `c` so that the stored projection keeps its shape
fn stabilise(doc: &mut Value) {
  fn fix_r(r: &mut Value) -> bool {
    // returns false when the property should be removed
    match r {
      Value::Array(a) => {
        a.retain(|x| !x.is_null());
        for o in a.iter_mut() {
          if o.get("t").map(|t| t.is_null()).unwrap_or(true) {
            o["t"] = json!("x");
          }
        }
        !a.is_empty()
      }
      Value::Object(_) => {
        if r.get("t").map(|t| t.is_null()).unwrap_or(true) {
          r["t"] = json!("y");
        }
        true
      }
      _ => false,
    }
  }
  fn fix_obj(o: &mut Value) {
    if o.get("a").map(|a| a.is_null()).unwrap_or(true) {
      o["a"] = json!("p0");
    }
    let keep = o.get_mut("r").map(fix_r);
    if keep == Some(false) {
      // (schema variant 2 requires `r`: keep it present and non-empty)
      o["r"] = json!({"t": "z"});
    }
  }
  let remove = match doc.get_mut("c") {
    Some(Value::Array(a)) => {
      a.retain(|x| !x.is_null());
      a.iter_mut().for_each(fix_obj);
      a.is_empty()
    }
    Some(o @ Value::Object(_)) => {
      fix_obj(o);
      false
    }
    Some(Value::Null) => false,
    _ => false,
  };
  if remove {
    if let Some(m) = doc.as_object_mut() {
      m.remove("c");
    }
  }
}

fn contains_key_rec(v: &Value, key: &str) -> bool {
  match v {
    Value::Object(m) => m.iter().any(|(k, x)| k == key || contains_key_rec(x, key)),
    Value::Array(a) => a.iter().any(|x| contains_key_rec(x, key)),
    _ => false,
  }
}

/// shape of the nested field `c` of a document: per element of `c` (a single object counts as a
/// one-element array) whether it is null and, for objects, the shape of its child `r` (absent /
/// null / number of elements and which of them are null).  The stored projection drops null
/// elements, objects without stored non-null values and empty arrays, which changes this shape.
fn nested_shape(doc: &Value) -> Value {
  fn elems(v: &Value) -> Option<Vec<&Value>> {
    match v {
      Value::Null => None,
      Value::Array(a) => Some(a.iter().collect()),
      x => Some(vec![x]),
    }
  }
  match doc.get("c").and_then(elems) {
    None => Value::Null,
    Some(es) => Value::Array(
      es.iter()
        .map(|e| match e {
          Value::Null => json!("null"),
          o => match o.get("r").and_then(elems) {
            None => json!("obj"),
            Some(rs) => Value::Array(rs.iter().map(|r| json!(if r.is_null() { "null" } else { "obj" })).collect()),
          },
        })
        .collect(),
    ),
  }
}

fn nested_shape_changed(raw: &Value, stored: &Value) -> bool {
  nested_shape(raw) != nested_shape(stored)
}

impl Prop for C14 {
  fn id(&self) -> &'static str {
    "C14"
  }
  fn rule(&self) -> &'static str {
    "case = (storage fs|mem, positions, schema variant 0..7 (unstored indexed/fast field at top level, in a nested object, in a nested-in-nested object), 2–5 commits of adds/upserts/deletes over 8 ids with documents containing empty arrays, nulls, multi-valued and nested values, ~20 queries + ~20 filters); observations before/after `compact` from fresh readers; non-trivial when (the schema is compact-safe, ≥2 segments and ≥1 live document existed before compaction and ≥6 probes selected a non-empty proper subset of the live documents) or (the schema is not compact-safe and ≥2 segments existed, i.e. the refusal path ran)"
  }
  fn count(&self, tier: Tier) -> usize {
    tier.pick(72, 2000)
  }
  fn gen(&self, rng: &mut Rng, _tier: Tier, i: usize) -> Value {
    let mem = rng.chance(1, 2);
    let positions = rng.chance(2, 3);
    // mostly the compact-safe schema; every 6th case a refusal schema, some with required props
    let kind = match i % 12 {
      5 => 1,
      11 => 4,
      3 => 2,
      8 => 3,
      1 => 5,
      7 => 6,
      9 => 7,
      _ => 0,
    };
    let n_batches = 2 + rng.below(4);
    // half of the cases: nested values whose shape survives the stored projection (no null
    // elements, every object has a stored non-null value, no empty child arrays), so that ANY change
    // of a nested filter is reported under the general signature
    let stable = rng.chance(1, 2);
    let mut version = 0u64;
    let mut batches = Vec::new();
    for _ in 0..n_batches {
      let mut adds = Vec::new();
      let mut dels = Vec::new();
      for _ in 0..(1 + rng.below(5)) {
        version += 1;
        let id = format!("d{}", rng.below(8));
        let mut d = gen_doc(rng, &id, version % 12, kind);
        if stable {
          stabilise(&mut d);
        }
        adds.push(d);
      }
      for _ in 0..rng.below(3) {
        dels.push(format!("d{}", rng.below(8)));
      }
      batches.push(json!({"adds": adds, "dels": dels, "dels_first": rng.chance(1, 2)}));
    }
    let mut queries: Vec<Value> = (0..20).map(|_| json!({"query": gen_query(rng, positions, 1)})).collect();
    if kind == 7 {
      // the indexed-only nested keyword is reachable through term queries on its path
      for (j, a) in AS.iter().enumerate() {
        queries[j] = json!({"query": {"type": "term", "field": "c.a2", "value": a.to_lowercase()}});
      }
    }
    let mut filters: Vec<Value> = (0..20).map(|_| json!({"query": {"type": "match_all"}, "filter": gen_filter(rng, 2)})).collect();
    // filters over the unstored property of the refusal schemas (top-level, nested, nested-in-nested)
    let special: Vec<Value> = match kind {
      1 => vec![json!({"KeywordEq": {"field": "tag", "value": "red"}})],
      4 => vec![json!({"I64Range": {"field": "fo", "min": 0, "max": 4}}), json!({"I64Range": {"field": "fo", "min": 3, "max": 9}})],
      5 => vec![
        json!({"Nested": {"path": "c", "filter": {"I64Range": {"field": "k2", "min": 0, "max": 2}}}}),
        json!({"Nested": {"path": "c", "filter": {"I64Range": {"field": "k2", "min": 2, "max": 6}}}}),
        json!({"Nested": {"path": "c", "filter": {"And": [{"I64Range": {"field": "k2", "min": 0, "max": 6}}, {"KeywordEq": {"field": "a", "value": "p0"}}]}}}),
      ],
      6 => TS.iter().map(|t| json!({"Nested": {"path": "c", "filter": {"Nested": {"path": "r", "filter": {"KeywordEq": {"field": "t2", "value": t}}}}}})).collect(),
      _ => vec![],
    };
    for (j, f) in special.into_iter().enumerate() {
      filters[j] = json!({"query": {"type": "match_all"}, "filter": f});
    }
    json!({"mem": mem, "positions": positions, "schema_kind": kind, "shape_stable_nested": stable, "batches": batches, "queries": queries, "filters": filters})
  }

  fn run_case(&self, drv: &mut Driver, case: &Value, s: &mut Summary) {
    let mem = case["mem"].as_bool().unwrap_or(false);
    let positions = case["positions"].as_bool().unwrap_or(true);
    let kind = case["schema_kind"].as_u64().unwrap_or(0);
    let schema = case.get("schema").cloned().unwrap_or_else(|| schema_json(kind));
    let batches: Vec<Value> = case["batches"].as_array().cloned().unwrap_or_default();
    let mut probes: Vec<Value> = case["queries"].as_array().cloned().unwrap_or_default();
    let n_queries = probes.len();
    probes.extend(case["filters"].as_array().cloned().unwrap_or_default());
    s.count(if mem { "storage_mem" } else { "storage_fs" });
    s.count(&format!("schema_kind_{kind}"));
    if case["shape_stable_nested"].as_bool().unwrap_or(false) {
      s.count("case_shape_stable_nested_values");
    }

    let store = Store::new(mem, positions);
    let index = match store.create(&schema) {
      Ok(i) => i,
      Err(e) => {
        s.case(case, false);
        s.fail("compact.create", "index creation failed", case, json!(e));
        return;
      }
    };
    // ---- history (also sent to the model as a call list) ----
    let mut mcalls: Vec<Value> = Vec::new();
    let mut last_raw: BTreeMap<String, Value> = BTreeMap::new();
    for (b, batch) in batches.iter().enumerate() {
      let h = b as u64;
      mcalls.push(json!({"op": "new", "h": h}));
      let mut w = match index.writer() {
        Ok(w) => w,
        Err(e) => {
          s.case(case, false);
          s.disagree("compact.history", case, json!(e.to_string()), json!("writer ok"));
          return;
        }
      };
      let dels_first = batch["dels_first"].as_bool().unwrap_or(false);
      let mut ops: Vec<(bool, Value)> = Vec::new();
      let adds = batch["adds"].as_array().cloned().unwrap_or_default();
      let dels = batch["dels"].as_array().cloned().unwrap_or_default();
      if dels_first {
        ops.extend(dels.iter().map(|d| (false, d.clone())));
        ops.extend(adds.iter().map(|d| (true, d.clone())));
      } else {
        ops.extend(adds.iter().map(|d| (true, d.clone())));
        ops.extend(dels.iter().map(|d| (false, d.clone())));
      }
      for (is_add, v) in ops {
        let r = if is_add {
          mcalls.push(json!({"op": "add", "h": h, "doc": v}));
          let id = v["_id"].as_str().unwrap_or("").to_string();
          last_raw.insert(id, v.clone());
          w.add_document(&idx::doc(&v)).map(|_| ()).map_err(|e| e.to_string())
        } else {
          let id = v.as_str().unwrap_or("").to_string();
          mcalls.push(json!({"op": "del", "h": h, "id": id}));
          last_raw.remove(&id);
          w.delete_document(&id).map_err(|e| e.to_string())
        };
        if let Err(e) = r {
          s.case(case, false);
          s.disagree("compact.history", case, json!(e), json!("call ok"));
          return;
        }
      }
      mcalls.push(json!({"op": "commit", "h": h}));
      mcalls.push(json!({"op": "drop", "h": h}));
      if let Err(e) = w.commit() {
        s.case(case, false);
        s.disagree("compact.history", case, json!(e.to_string()), json!("commit ok"));
        return;
      }
    }
    mcalls.push(json!({"op": "compact"}));
    // ---- before ----
    let (live_b, probes_b) = match observe(&index, &probes) {
      Ok(x) => x,
      Err(e) => {
        s.case(case, false);
        s.fail("compact.reader-before", "reader failed before compaction", case, json!(e));
        return;
      }
    };
    // should-clauses that expand over the term dictionary (prefix …), evaluated on their own
    let exp_nodes: Vec<Vec<Value>> = probes.iter().map(|p| should_expansions(&p["query"])).collect();
    let exp_probe_list: Vec<Value> = exp_nodes.iter().flatten().map(|n| json!({"query": n})).collect();
    let exp_before = observe(&index, &exp_probe_list).map(|x| x.1).unwrap_or_default();
    let segs_b = index.manifest().segments.len();
    let tomb_b: usize = index.manifest().segments.iter().map(|g| g.deleted_docs.len()).sum();
    let manifest_b = store.manifest_bytes();
    let listing_b = store.listing();
    // distribution of what the documents contain
    let mut dropped_docs = 0;
    for (id, st) in live_b.iter() {
      if let Some(raw) = last_raw.get(id) {
        if nested_shape_changed(raw, st) {
          dropped_docs += 1;
        }
        if raw.get("c").map(|c| c.is_array() && c.as_array().unwrap().iter().any(|x| x.is_null())).unwrap_or(false) {
          s.count("live_doc_nested_array_with_null_element");
        }
        if raw.as_object().map(|m| m.values().any(|v| v.is_null())).unwrap_or(false) {
          s.count("live_doc_with_null_field");
        }
        if raw.as_object().map(|m| m.values().any(|v| v.as_array().map(|a| a.is_empty()).unwrap_or(false))).unwrap_or(false) {
          s.count("live_doc_with_empty_array");
        }
        if raw.as_object().map(|m| m.iter().any(|(k, v)| k != "c" && v.as_array().map(|a| a.len() > 1).unwrap_or(false))).unwrap_or(false) {
          s.count("live_doc_multi_valued");
        }
      }
    }
    if dropped_docs > 0 {
      s.count("case_with_nested_shape_changed_by_projection");
    }
    // ---- compact ----
    let res = match guarded(|| index.compact()) {
      Ok(Ok(_)) => "ok".to_string(),
      Ok(Err(e)) => {
        let e = format!("{e:#}");
        if e.contains("cannot compact index") {
          "refused".to_string()
        } else {
          format!("failed: {e}")
        }
      }
      Err(p) => format!("panic: {p}"),
    };
    let res_class = res.split(':').next().unwrap_or("").to_string();
    s.count(&format!("compact_{res_class}"));
    let manifest_a = store.manifest_bytes();
    let listing_a = store.listing();
    let segs_a = index.manifest().segments.len();
    let tomb_a: usize = index.manifest().segments.iter().map(|g| g.deleted_docs.len()).sum();
    let after = observe(&index, &probes);
    // fresh process view as well (filesystem / shared in-memory storage)
    let reopened = store.reopen().and_then(|ix| observe(&ix, &probes));

    if std::env::var("VERIF_C14_DEBUG").is_ok() {
      eprintln!("compact: {res} segs {segs_b}->{segs_a} tomb {tomb_b}->{tomb_a}");
      for (k, p) in probes.iter().enumerate() {
        eprintln!("probe {k} {} before {} after {}", p, probes_b[k], after.as_ref().map(|a| a.1[k].to_string()).unwrap_or_default());
      }
    }
    let exp_after = observe(&index, &exp_probe_list).map(|x| x.1).unwrap_or_default();
    // ---- finder: the property on the implementation alone ----
    let safe_schema = !schema_has_unrebuildable_field(&schema);
    let mut selective = 0;
    for p in probes_b.iter() {
      if let Some(ids) = p["ids"].as_array() {
        if !ids.is_empty() && ids.len() < live_b.len() {
          selective += 1;
        }
      }
    }
    match res_class.as_str() {
      "panic" => s.fail("compact.panic", "compact panicked", case, json!(res)),
      "refused" => {
        if safe_schema {
          s.fail("compact.safe-schema-refused", "compaction refused although every indexed/fast field and nested property of the schema is stored", case, json!(res));
        }
        if manifest_a != manifest_b {
          s.fail("compact.refuse-changed-manifest", "compaction refused but MANIFEST.json changed", case, json!(res));
        }
        if listing_a != listing_b {
          s.fail("compact.refuse-changed-files", "compaction refused but the file listing changed", case, json!({"before": listing_b, "after": listing_a}));
        }
      }
      "failed" => {
        // an error other than the documented refusal: nothing may change, and it is reported
        if manifest_a != manifest_b {
          s.fail("compact.error-changed-manifest", "compaction failed and MANIFEST.json changed", case, json!(res));
        }
        let sig = if res.contains("missing required nested field") {
          "compact.error.stored-document-not-reingestable"
        } else {
          "compact.error.other"
        };
        s.fail(sig, "compaction of a compact-safe schema returns an error: a live document's stored form lacks a required nested property, so re-ingesting it fails (on the filesystem backend a partial segment file is left behind)", case, json!({"error": res, "files_left_behind": listing_a != listing_b}));
      }
      _ => {
        if !safe_schema && segs_b >= 2 {
          s.fail("compact.unrebuildable-field-not-refused", "the schema has an indexed/fast field or nested property that is not stored, yet compaction of several segments did not refuse (its data cannot be rebuilt from the stored documents)", case, json!({"segments_before": segs_b, "segments_after": segs_a}));
        }
        if segs_a > 1 {
          s.fail("compact.not-single-segment", "more than one segment after compaction", case, json!(segs_a));
        }
        if segs_b >= 2 && tomb_a > 0 {
          s.fail("compact.tombstones-left", "deleted documents remain after compaction of several segments", case, json!(tomb_a));
        }
      }
    }
    for (label, obs) in [("after", &after), ("after-reopen", &reopened)] {
      match obs {
        Err(e) => s.fail("compact.reader-after", "reader failed after compaction", case, json!({"when": label, "error": e})),
        Ok((live_a, probes_a)) => {
          let ids_b: Vec<&String> = live_b.keys().collect();
          let ids_a: Vec<&String> = live_a.keys().collect();
          if ids_a != ids_b {
            s.fail("compact.live-ids-changed", "compaction changed which documents are live", case, json!({"when": label, "before": ids_b, "after": ids_a}));
            continue;
          }
          if *live_a != live_b {
            let id = live_b.iter().find(|(k, v)| live_a.get(*k) != Some(v)).map(|(k, _)| k.clone());
            s.fail("compact.stored-fields-changed", "compaction changed stored fields", case, json!({"when": label, "id": id}));
          }
          for (k, (pb, pa)) in probes_b.iter().zip(probes_a.iter()).enumerate() {
            if pb == pa {
              continue;
            }
            if pb.get("ids").is_none() || pa.get("ids").is_none() {
              // a search error or panic on one side (C16's subject), not a statement about compaction
              s.count("probe_not_comparable_search_error_or_panic");
              continue;
            }
            let is_filter = k >= n_queries;
            // classification of the difference from implementation observations only
            let changed: Vec<String> = {
              let b: Vec<String> = pb["ids"].as_array().map(|a| a.iter().filter_map(|x| x.as_str().map(String::from)).collect()).unwrap_or_default();
              let a: Vec<String> = pa["ids"].as_array().map(|a| a.iter().filter_map(|x| x.as_str().map(String::from)).collect()).unwrap_or_default();
              b.iter().filter(|x| !a.contains(x)).chain(a.iter().filter(|x| !b.contains(x))).cloned().collect()
            };
            let all_dropped = !changed.is_empty()
              && changed.iter().all(|id| match (last_raw.get(id), live_b.get(id)) {
                (Some(raw), Some(st)) => nested_shape_changed(raw, st),
                _ => false,
              });
            let nested_filter = contains_key_rec(&probes[k], "Nested");
            // a should-clause of this probe that matches no live document before and after
            let offset: usize = exp_nodes[..k].iter().map(|v| v.len()).sum();
            let dead_expansion = (0..exp_nodes[k].len()).any(|j| {
              let e = json!({"ids": []});
              exp_before.get(offset + j) == Some(&e) && exp_after.get(offset + j) == Some(&e)
            });
            let superset = {
              let b: Vec<&Value> = pb["ids"].as_array().map(|a| a.iter().collect()).unwrap_or_default();
              let a: Vec<&Value> = pa["ids"].as_array().map(|a| a.iter().collect()).unwrap_or_default();
              pb.get("ids").is_some() && pa.get("ids").is_some() && b.iter().all(|x| a.contains(x))
            };
            let sig = if !is_filter && dead_expansion && superset {
              "compact.query-changed.should-expansion-clause-without-live-match"
            } else if is_filter && nested_filter && all_dropped {
              "compact.nested-filter-changed.stored-projection-changes-nested-shape"
            } else if is_filter {
              "compact.filter-result-changed"
            } else if nested_filter && all_dropped {
              "compact.nested-filter-changed.stored-projection-changes-nested-shape"
            } else {
              "compact.query-result-changed"
            };
            s.fail(sig, "a probe matches different documents after compaction", case, json!({"when": label, "probe": probes[k], "before": pb, "after": pa, "changed_docs": changed}));
          }
        }
      }
    }
    let _ = tomb_b;
    // ---- correspondence with the model ----
    let m = drv.call("C14", json!({"op": "run", "mem": mem, "schema": schema, "calls": mcalls}));
    let steps = m["steps"].as_array().cloned().unwrap_or_default();
    let sub = json!({"case": case});
    if m["ok"] != json!(true) || steps.len() != mcalls.len() {
      s.disagree("compact.driver", &sub, json!(null), m);
    } else {
      let before_m = &steps[steps.len() - 2];
      let after_m = &steps[steps.len() - 1];
      if model_contents(&before_m["contents"]) != live_b {
        s.disagree("compact.contents-before", &sub, json!(live_b), before_m["contents"].clone());
      }
      if after_m["res"].as_str() != Some(res_class.as_str()) {
        s.disagree("compact.result", &sub, json!(res), after_m["res"].clone());
      } else if let Ok((live_a, _)) = &after {
        if model_contents(&after_m["contents"]) != *live_a {
          s.disagree("compact.contents-after", &sub, json!(live_a), after_m["contents"].clone());
        }
        if after_m["segments"].as_u64() != Some(segs_a as u64) {
          s.disagree("compact.segments-after", &sub, json!(segs_a), after_m["segments"].clone());
        }
        if after_m["tombstones"].as_u64() != Some(tomb_a as u64) {
          s.disagree("compact.tombstones-after", &sub, json!(tomb_a), after_m["tombstones"].clone());
        }
      }
      if m["safe"].as_bool() != Some(safe_schema) {
        s.disagree("compact.safe-schema", &sub, json!(safe_schema), m["safe"].clone());
      }
      // stored projection of every live document
      for (id, st) in live_b.iter() {
        if let Some(raw) = last_raw.get(id) {
          let pm = drv.call("C14", json!({"op": "project", "schema": schema, "doc": raw}));
          if canon(&pm["stored"]) != *st {
            s.disagree("compact.stored-projection", &json!({"schema_kind": kind, "doc": raw}), st.clone(), pm["stored"].clone());
          }
        }
      }
    }
    let nontrivial = if safe_schema { segs_b >= 2 && !live_b.is_empty() && selective >= 6 } else { segs_b >= 2 };
    s.case(case, nontrivial);
  }
}
