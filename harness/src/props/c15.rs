//! C15 — every accepted document can be committed.
//!
//! Case = (random schema, one near-valid document = a valid document with 0–2 mutations, one later
//! valid document, storage backend).  The real `IndexWriter::add_document` / `commit` are run:
//!   * correspondence: `Schema::validate_document` vs `SL.Doc.validateDoc`, `add_document` result vs
//!     `SL.Doc.validateAdd`, and — when accepted — the
//!     `commit` result vs `SL.Doc.collectOk` (same definitions the theorems of `Props/C15` are
//!     about; the code after the repairs 37df93e/919e2f9/6d0f8bf/8c4f4e4); the Lean predicate `conforms`
//!     vs the harness's own schema oracle;
//!   * finder (implementation alone): (F1) accepted ⇒ `commit` succeeds, and after a failed commit
//!     a *later* valid document must be committable through a new writer; (F2) a document that
//!     violates the schema as documented (own Rust oracle `violations`) must be rejected by
//!     `add_document`.
//! The schema/document generators and the oracle are shared with C08 (`pub`).
use crate::idx;
use crate::proto::Driver;
use crate::rng::Rng;
use crate::summary::Summary;
use crate::util::{guarded, scratch};
use crate::{Prop, Tier};
use serde_json::{json, Map, Value};
use std::collections::BTreeSet;

pub struct C15;
pub static P: C15 = C15;

pub const DOCSTORE_CAP: usize = 32 * 1024 * 1024;

// ---------------------------------------------------------------------------------------------
// schemas
// ---------------------------------------------------------------------------------------------

#[derive(Clone, Copy, PartialEq, Eq, Debug)]
pub enum K {
  Text,
  Keyword,
  I64,
  F64,
}

#[derive(Clone, Debug)]
pub struct LeafS {
  pub name: String,
  pub kind: K,
  pub nullable: bool,
  pub fast: bool,
  pub stored: bool,
  pub indexed: bool,
}

#[derive(Clone, Debug)]
pub enum PropS {
  Leaf(LeafS),
  Obj(NestedS),
}

impl PropS {
  pub fn name(&self) -> &str {
    match self {
      PropS::Leaf(l) => &l.name,
      PropS::Obj(n) => &n.name,
    }
  }
  pub fn nullable(&self) -> bool {
    match self {
      PropS::Leaf(l) => l.nullable,
      PropS::Obj(n) => n.nullable,
    }
  }
}

#[derive(Clone, Debug)]
pub struct NestedS {
  pub name: String,
  pub nullable: bool,
  pub props: Vec<PropS>,
}

#[derive(Clone, Debug)]
pub struct SchemaS {
  pub flat: Vec<LeafS>,
  pub nested: Vec<NestedS>,
}

fn leaf_json(l: &LeafS, nested: bool) -> Value {
  let mut m = Map::new();
  m.insert("name".into(), json!(l.name));
  m.insert("stored".into(), json!(l.stored));
  m.insert("nullable".into(), json!(l.nullable));
  match l.kind {
    K::Text => {
      m.insert("analyzer".into(), json!("default"));
      m.insert("indexed".into(), json!(l.indexed));
      if nested {
        m.insert("type".into(), json!("text"));
      }
    }
    K::Keyword => {
      m.insert("indexed".into(), json!(l.indexed));
      m.insert("fast".into(), json!(l.fast));
      if nested {
        m.insert("type".into(), json!("keyword"));
      }
    }
    K::I64 | K::F64 => {
      m.insert("i64".into(), json!(l.kind == K::I64));
      m.insert("fast".into(), json!(l.fast));
      if nested {
        m.insert("type".into(), json!("numeric"));
      }
    }
  }
  Value::Object(m)
}

fn nested_json(n: &NestedS, inner: bool) -> Value {
  let fields: Vec<Value> = n
    .props
    .iter()
    .map(|p| match p {
      PropS::Leaf(l) => leaf_json(l, true),
      PropS::Obj(c) => nested_json(c, true),
    })
    .collect();
  let mut m = Map::new();
  if inner {
    m.insert("type".into(), json!("object"));
  }
  m.insert("name".into(), json!(n.name));
  m.insert("nullable".into(), json!(n.nullable));
  m.insert("fields".into(), Value::Array(fields));
  Value::Object(m)
}

fn leaf_from(j: &Value, kind: K) -> LeafS {
  LeafS {
    name: j["name"].as_str().unwrap_or("").to_string(),
    kind,
    nullable: j["nullable"].as_bool().unwrap_or(false),
    fast: kind != K::Text && j["fast"].as_bool().unwrap_or(false),
    stored: j["stored"].as_bool().unwrap_or(false),
    indexed: j["indexed"].as_bool().unwrap_or(true),
  }
}

fn num_kind(j: &Value) -> K {
  if j["i64"].as_bool().unwrap_or(false) {
    K::I64
  } else {
    K::F64
  }
}

fn nested_from(j: &Value) -> NestedS {
  let props = j["fields"]
    .as_array()
    .map(|a| {
      a.iter()
        .map(|f| match f["type"].as_str().unwrap_or("") {
          "text" => PropS::Leaf(leaf_from(f, K::Text)),
          "keyword" => PropS::Leaf(leaf_from(f, K::Keyword)),
          "numeric" => PropS::Leaf(leaf_from(f, num_kind(f))),
          _ => PropS::Obj(nested_from(f)),
        })
        .collect()
    })
    .unwrap_or_default();
  NestedS { name: j["name"].as_str().unwrap_or("").to_string(), nullable: j["nullable"].as_bool().unwrap_or(false), props }
}

impl SchemaS {
  /// the repository's own schema JSON
  pub fn to_json(&self) -> Value {
    let pick = |k: &[K]| -> Vec<Value> { self.flat.iter().filter(|l| k.contains(&l.kind)).map(|l| leaf_json(l, false)).collect() };
    json!({
      "doc_id_field": "_id",
      "text_fields": pick(&[K::Text]),
      "keyword_fields": pick(&[K::Keyword]),
      "numeric_fields": pick(&[K::I64, K::F64]),
      "nested_fields": self.nested.iter().map(|n| nested_json(n, false)).collect::<Vec<_>>(),
    })
  }
  pub fn from_json(j: &Value) -> SchemaS {
    let arr = |k: &str| j[k].as_array().cloned().unwrap_or_default();
    let mut flat: Vec<LeafS> = arr("text_fields").iter().map(|f| leaf_from(f, K::Text)).collect();
    flat.extend(arr("keyword_fields").iter().map(|f| leaf_from(f, K::Keyword)));
    flat.extend(arr("numeric_fields").iter().map(|f| leaf_from(f, num_kind(f))));
    SchemaS { flat, nested: arr("nested_fields").iter().map(nested_from).collect() }
  }
  pub fn find_flat(&self, name: &str) -> Option<&LeafS> {
    self.flat.iter().find(|l| l.name == name)
  }
  pub fn find_nested(&self, name: &str) -> Option<&NestedS> {
    self.nested.iter().find(|n| n.name == name)
  }
}

impl NestedS {
  pub fn find(&self, name: &str) -> Option<&PropS> {
    self.props.iter().find(|p| p.name() == name)
  }
}

pub struct SchemaOpts {
  /// probability (in 1/8) that a keyword/numeric field is `fast`
  pub fast_8: u64,
  pub max_depth: usize,
  pub text: bool,
  /// prefer two nested fields / two child objects per level (filters that interleave clauses
  /// on different nested paths need them)
  pub multi_nested: bool,
}

fn gen_leaf(rng: &mut Rng, name: &str, kind: K, o: &SchemaOpts) -> LeafS {
  let stored = rng.chance(3, 4);
  LeafS {
    name: name.to_string(),
    kind,
    nullable: rng.chance(1, 2),
    fast: kind != K::Text && rng.chance(o.fast_8, 8),
    stored,
    // unstored and unindexed and not fast would be a field without any effect; keep it possible
    indexed: rng.chance(3, 4),
  }
}

const NESTED_NAMES: [[&str; 2]; 3] = [["c", "d"], ["r", "q"], ["s", "g"]];
const LEAF_POOL: [(&str, K); 6] = [("a", K::Keyword), ("b", K::Keyword), ("k", K::I64), ("w", K::F64), ("t", K::Text), ("m", K::I64)];

fn gen_nested(rng: &mut Rng, name: &str, depth: usize, o: &SchemaOpts) -> NestedS {
  let mut props = Vec::new();
  let nl = 1 + rng.below(3);
  let mut pool: Vec<(&str, K)> = LEAF_POOL.iter().cloned().filter(|(_, k)| o.text || *k != K::Text).collect();
  rng.shuffle(&mut pool);
  for (nm, k) in pool.into_iter().take(nl) {
    props.push(PropS::Leaf(gen_leaf(rng, nm, k, o)));
  }
  if depth + 1 < o.max_depth {
    let nc = match rng.below(4) {
      0 => 0,
      3 => 2,
      2 if o.multi_nested => 2,
      _ => 1,
    };
    for i in 0..nc {
      props.push(PropS::Obj(gen_nested(rng, NESTED_NAMES[depth + 1][i], depth + 1, o)));
    }
  }
  rng.shuffle(&mut props);
  NestedS { name: name.to_string(), nullable: rng.chance(1, 2), props }
}

pub fn gen_schema(rng: &mut Rng, o: &SchemaOpts) -> SchemaS {
  let mut flat = Vec::new();
  let pool: [(&str, K); 6] = [("body", K::Text), ("tag", K::Keyword), ("lang", K::Keyword), ("n", K::I64), ("x", K::F64), ("y", K::I64)];
  for (nm, k) in pool.iter() {
    if (*k != K::Text || o.text) && rng.chance(3, 5) {
      flat.push(gen_leaf(rng, nm, *k, o));
    }
  }
  let nn = match rng.below(8) {
    0 => 0,
    6 | 7 => 2,
    3 | 4 | 5 if o.multi_nested => 2,
    _ => 1,
  };
  let nested = (0..nn).map(|i| gen_nested(rng, NESTED_NAMES[0][i], 0, o)).collect();
  SchemaS { flat, nested }
}

// ---------------------------------------------------------------------------------------------
// valid documents
// ---------------------------------------------------------------------------------------------

pub const WORDS: [&str; 6] = ["rust", "search", "engine", "lite", "fast", "index"];
pub const KWS: [&str; 8] = ["red", "Red", "GREEN", "green", "blue", "x", "Y", "Über"];

pub fn gen_scalar(rng: &mut Rng, kind: K) -> Value {
  match kind {
    K::Text => {
      let n = 1 + rng.below(3);
      json!((0..n).map(|_| *rng.pick(&WORDS)).collect::<Vec<_>>().join(" "))
    }
    K::Keyword => json!(*rng.pick(&KWS)),
    K::I64 => json!(rng.range(-3, 9)),
    // exactly representable, short decimals; sometimes an integer literal in a float field
    K::F64 => {
      if rng.chance(1, 4) {
        json!(rng.range(-2, 6))
      } else {
        json!(rng.range(-8, 24) as f64 * 0.25)
      }
    }
  }
}

/// `None` = the key is left out
pub fn gen_leaf_value(rng: &mut Rng, l: &LeafS, may_omit: bool) -> Option<Value> {
  gen_leaf_value_with(rng, l, may_omit, false)
}

/// `mix`: missing / one value / several values about equally often (documents of one commit share
/// the fast-field column builders: single-valued and multi-valued documents must mix in both orders)
pub fn gen_leaf_value_with(rng: &mut Rng, l: &LeafS, may_omit: bool, mix: bool) -> Option<Value> {
  if mix {
    return match rng.below(10) {
      0 | 1 if may_omit => None,
      2 if l.nullable => Some(Value::Null),
      3 | 4 | 5 => {
        let n = 2 + rng.below(2);
        Some(Value::Array((0..n).map(|_| gen_scalar(rng, l.kind)).collect()))
      }
      6 => Some(Value::Array(vec![gen_scalar(rng, l.kind)])),
      _ => Some(gen_scalar(rng, l.kind)),
    };
  }
  match rng.below(10) {
    0 if may_omit => None,
    1 if l.nullable => Some(Value::Null),
    2 | 3 => {
      let n = rng.below(4);
      Some(Value::Array((0..n).map(|_| gen_scalar(rng, l.kind)).collect()))
    }
    _ => Some(gen_scalar(rng, l.kind)),
  }
}

pub fn gen_object(rng: &mut Rng, n: &NestedS) -> Value {
  gen_object_with(rng, n, false)
}

pub fn gen_object_with(rng: &mut Rng, n: &NestedS, mix: bool) -> Value {
  let mut m = Map::new();
  for p in n.props.iter() {
    match p {
      PropS::Leaf(l) => {
        if let Some(v) = gen_leaf_value_with(rng, l, l.nullable, mix) {
          m.insert(l.name.clone(), v);
        }
      }
      PropS::Obj(c) => {
        if let Some(v) = gen_nested_value_with(rng, c, c.nullable, mix) {
          m.insert(c.name.clone(), v);
        }
      }
    }
  }
  Value::Object(m)
}

pub fn gen_nested_value(rng: &mut Rng, n: &NestedS, may_omit: bool) -> Option<Value> {
  gen_nested_value_with(rng, n, may_omit, false)
}

pub fn gen_nested_value_with(rng: &mut Rng, n: &NestedS, may_omit: bool, mix: bool) -> Option<Value> {
  match rng.below(12) {
    0 if may_omit => None,
    1 if n.nullable => Some(Value::Null),
    2 | 3 => Some(gen_object_with(rng, n, mix)),
    4 => Some(json!([])),
    _ => {
      let k = 1 + rng.below(3);
      Some(Value::Array((0..k).map(|_| if n.nullable && rng.chance(1, 7) { Value::Null } else { gen_object_with(rng, n, mix) }).collect()))
    }
  }
}

pub fn gen_valid_doc(rng: &mut Rng, s: &SchemaS, id: &str) -> Value {
  gen_valid_doc_with(rng, s, id, false)
}

pub fn gen_valid_doc_with(rng: &mut Rng, s: &SchemaS, id: &str, mix: bool) -> Value {
  let mut m = Map::new();
  m.insert("_id".into(), json!(id));
  for l in s.flat.iter() {
    if let Some(v) = gen_leaf_value_with(rng, l, true, mix) {
      m.insert(l.name.clone(), v);
    }
  }
  for n in s.nested.iter() {
    if let Some(v) = gen_nested_value_with(rng, n, true, mix) {
      m.insert(n.name.clone(), v);
    }
  }
  Value::Object(m)
}

// ---------------------------------------------------------------------------------------------
// the documented schema rules (harness oracle, independent of the model)
// ---------------------------------------------------------------------------------------------

fn scalar_ok(kind: K, v: &Value) -> bool {
  match kind {
    K::Text | K::Keyword => v.is_string(),
    K::I64 => v.as_i64().is_some(),
    K::F64 => v.is_number(),
  }
}

fn leaf_violations(l: &LeafS, v: &Value, nested: bool, out: &mut BTreeSet<String>) {
  let pre = if nested { "nested-leaf" } else { "flat" };
  match v {
    Value::Null => {
      if !l.nullable {
        out.insert(format!("{pre}-null"));
      }
    }
    Value::Array(a) => {
      if a.iter().any(|e| !scalar_ok(l.kind, e)) {
        out.insert(format!("{pre}-array-elem"));
      }
    }
    x => {
      if !scalar_ok(l.kind, x) {
        if nested && l.kind == K::I64 && x.is_number() {
          out.insert("nested-i64-non-integer".into());
        } else {
          out.insert(format!("{pre}-type"));
        }
      }
    }
  }
}

fn object_violations(n: &NestedS, m: &Map<String, Value>, out: &mut BTreeSet<String>) {
  for (k, v) in m.iter() {
    match n.find(k) {
      None => {
        out.insert("nested-unknown-prop".into());
      }
      Some(PropS::Leaf(l)) => leaf_violations(l, v, true, out),
      Some(PropS::Obj(c)) => nested_violations(c, v, out),
    }
  }
  for p in n.props.iter() {
    if !p.nullable() && !m.contains_key(p.name()) {
      out.insert("missing-required".into());
    }
  }
}

fn nested_violations(n: &NestedS, v: &Value, out: &mut BTreeSet<String>) {
  match v {
    Value::Null => {
      if !n.nullable {
        out.insert("nested-null".into());
      }
    }
    Value::Object(m) => object_violations(n, m, out),
    Value::Array(a) => {
      for e in a.iter() {
        match e {
          Value::Null => {
            if !n.nullable {
              out.insert("nested-null-elem".into());
            }
          }
          Value::Object(m) => object_violations(n, m, out),
          Value::Array(_) => {
            out.insert("array-in-array".into());
          }
          _ => {
            out.insert("nested-scalar-elem".into());
          }
        }
      }
    }
    _ => {
      out.insert("nested-scalar".into());
    }
  }
}

/// classes of violations of the schema as documented (empty = the document conforms)
pub fn violations(s: &SchemaS, doc: &Value) -> BTreeSet<String> {
  let mut out = BTreeSet::new();
  let Some(m) = doc.as_object() else {
    out.insert("not-object".into());
    return out;
  };
  match m.get("_id").and_then(|v| v.as_str()) {
    Some(x) if !x.trim().is_empty() => {}
    _ => {
      out.insert("id".into());
    }
  }
  for (k, v) in m.iter() {
    if k == "_id" {
      continue;
    }
    if let Some(n) = s.find_nested(k) {
      nested_violations(n, v, &mut out);
    } else if let Some(l) = s.find_flat(k) {
      leaf_violations(l, v, false, &mut out);
    } else {
      out.insert("unknown-top".into());
    }
  }
  out
}

/// violation class → finding signature.  The first four classes were accepted before the repairs
/// 37df93e / 919e2f9 / 6d0f8bf; they keep their signatures so that a regression is reported under
/// the name of the (now fixed) finding.
fn accepted_sig(class: &str) -> String {
  match class {
    "unknown-top" => "accept.unknown-top-level-field".into(),
    "array-in-array" => "accept.nested-array-in-array".into(),
    "nested-leaf-array-elem" => "accept.nested-leaf-array-elements-unchecked".into(),
    "nested-i64-non-integer" => "accept.nested-i64-non-integer".into(),
    c => format!("accept.violation.{c}"),
  }
}

// ---------------------------------------------------------------------------------------------
// mutations
// ---------------------------------------------------------------------------------------------

/// JSON pointers to every value of a nested field (any depth) together with its schema node
fn nested_value_sites<'a>(s: &'a SchemaS, doc: &Value) -> Vec<(String, &'a NestedS)> {
  fn walk<'a>(n: &'a NestedS, v: &Value, ptr: String, out: &mut Vec<(String, &'a NestedS)>) {
    out.push((ptr.clone(), n));
    let mut objs: Vec<(String, &Map<String, Value>)> = Vec::new();
    match v {
      Value::Object(m) => objs.push((ptr.clone(), m)),
      Value::Array(a) => {
        for (i, e) in a.iter().enumerate() {
          if let Value::Object(m) = e {
            objs.push((format!("{ptr}/{i}"), m));
          }
        }
      }
      _ => {}
    }
    for (p, m) in objs {
      for pr in n.props.iter() {
        if let PropS::Obj(c) = pr {
          if let Some(cv) = m.get(&c.name) {
            walk(c, cv, format!("{p}/{}", c.name), out);
          }
        }
      }
    }
  }
  let mut out = Vec::new();
  if let Some(m) = doc.as_object() {
    for n in s.nested.iter() {
      if let Some(v) = m.get(&n.name) {
        walk(n, v, format!("/{}", n.name), &mut out);
      }
    }
  }
  out
}

/// JSON pointers to every *object* bound to a nested field, with its schema node
fn object_sites<'a>(s: &'a SchemaS, doc: &Value) -> Vec<(String, &'a NestedS)> {
  let mut out = Vec::new();
  for (ptr, n) in nested_value_sites(s, doc) {
    match doc.pointer(&ptr) {
      Some(Value::Object(_)) => out.push((ptr, n)),
      Some(Value::Array(a)) => {
        for (i, e) in a.iter().enumerate() {
          if e.is_object() {
            out.push((format!("{ptr}/{i}"), n));
          }
        }
      }
      _ => {}
    }
  }
  out
}

fn wrong_scalar(rng: &mut Rng, kind: K) -> Value {
  match kind {
    K::Text | K::Keyword => match rng.below(3) {
      0 => json!(7),
      1 => json!(true),
      _ => json!({"o": 1}),
    },
    K::I64 => match rng.below(3) {
      0 => json!("seven"),
      1 => json!(2.5),
      _ => json!(false),
    },
    K::F64 => match rng.below(2) {
      0 => json!("1.5"),
      _ => json!(true),
    },
  }
}

fn junk_array(rng: &mut Rng, kind: K) -> Value {
  let good = gen_scalar(rng, kind);
  match rng.below(4) {
    0 => json!([good, wrong_scalar(rng, kind)]),
    1 => json!([[good]]),
    2 => json!([null]),
    _ => json!([wrong_scalar(rng, kind), wrong_scalar(rng, kind)]),
  }
}

const MUTATIONS: [&str; 20] = [
  "none", "extra-top", "extra-top-null", "id-missing", "id-blank", "id-type", "flat-type", "flat-null", "flat-junk-array", "nested-extra-prop",
  "nested-remove-required", "nested-leaf-type", "nested-leaf-junk-array", "nested-i64-float", "nested-leaf-null", "nested-array-in-array", "nested-scalar-elem",
  "nested-scalar", "nested-null", "nested-null-elem",
];

/// apply one mutation; returns the label of what was actually done (`"none"` if not applicable)
fn mutate(rng: &mut Rng, s: &SchemaS, doc: &mut Value, which: &str) -> String {
  let done = |x: &str| x.to_string();
  match which {
    "extra-top" => {
      let name = *rng.pick(&["zzz", "extra", "Body", "c2"]);
      let v = match rng.below(4) {
        0 => json!("text"),
        1 => json!(5),
        2 => json!({"a": "x"}),
        _ => json!(["u", "v"]),
      };
      doc[name] = v;
      done(which)
    }
    "extra-top-null" => {
      doc["zzz"] = Value::Null;
      done(which)
    }
    "id-missing" => {
      doc.as_object_mut().unwrap().remove("_id");
      done(which)
    }
    "id-blank" => {
      doc["_id"] = json!(*rng.pick(&["", " ", "\t\n", "\u{a0} ", "\u{2003}"]));
      done(which)
    }
    "id-type" => {
      doc["_id"] = match rng.below(4) {
        0 => json!(12),
        1 => Value::Null,
        2 => json!(["a"]),
        _ => json!(true),
      };
      done(which)
    }
    "flat-type" | "flat-null" | "flat-junk-array" => {
      if s.flat.is_empty() {
        return done("none");
      }
      let l = rng.pick(&s.flat).clone();
      if which == "flat-null" && l.nullable {
        return done("none");
      }
      doc[l.name.as_str()] = match which {
        "flat-type" => wrong_scalar(rng, l.kind),
        "flat-null" => Value::Null,
        _ => junk_array(rng, l.kind),
      };
      done(which)
    }
    "nested-extra-prop" | "nested-remove-required" | "nested-leaf-type" | "nested-leaf-junk-array" | "nested-i64-float" | "nested-leaf-null" => {
      let sites = object_sites(s, doc);
      if sites.is_empty() {
        return done("none");
      }
      let (ptr, n) = rng.pick(&sites).clone();
      let leaves: Vec<&LeafS> = n.props.iter().filter_map(|p| if let PropS::Leaf(l) = p { Some(l) } else { None }).collect();
      let obj = doc.pointer_mut(&ptr).and_then(|v| v.as_object_mut()).unwrap();
      match which {
        "nested-extra-prop" => {
          obj.insert("zz".into(), json!("v"));
          done(which)
        }
        "nested-remove-required" => {
          let req: Vec<&PropS> = n.props.iter().filter(|p| !p.nullable() && obj.contains_key(p.name())).collect();
          if req.is_empty() {
            return done("none");
          }
          let p = *rng.pick(&req);
          obj.remove(p.name());
          done(which)
        }
        "nested-i64-float" => {
          let ints: Vec<&&LeafS> = leaves.iter().filter(|l| l.kind == K::I64).collect();
          if ints.is_empty() {
            return done("none");
          }
          let l = **rng.pick(&ints);
          obj.insert(l.name.clone(), json!(rng.range(0, 5) as f64 + 0.5));
          done(which)
        }
        _ => {
          if leaves.is_empty() {
            return done("none");
          }
          let l = *rng.pick(&leaves);
          if which == "nested-leaf-null" && l.nullable {
            return done("none");
          }
          let v = match which {
            "nested-leaf-type" => wrong_scalar(rng, l.kind),
            "nested-leaf-null" => Value::Null,
            _ => junk_array(rng, l.kind),
          };
          obj.insert(l.name.clone(), v);
          done(which)
        }
      }
    }
    "nested-array-in-array" | "nested-scalar-elem" | "nested-scalar" | "nested-null" | "nested-null-elem" => {
      let mut sites = nested_value_sites(s, doc);
      if sites.is_empty() {
        // put a value there first
        if s.nested.is_empty() {
          return done("none");
        }
        let n = rng.pick(&s.nested);
        doc[n.name.as_str()] = json!([gen_object(rng, n)]);
        sites = nested_value_sites(s, doc);
      }
      let (ptr, n) = rng.pick(&sites).clone();
      if (which == "nested-null" || which == "nested-null-elem") && n.nullable {
        return done("none");
      }
      let fresh = gen_object(rng, n);
      let slot = doc.pointer_mut(&ptr).unwrap();
      let old = slot.take();
      *slot = match which {
        "nested-array-in-array" => match old {
          Value::Array(mut a) if !a.is_empty() && rng.chance(1, 2) => {
            let i = rng.below(a.len());
            let e = a[i].take();
            a[i] = json!([e]);
            Value::Array(a)
          }
          Value::Array(a) => json!([a]),
          o => json!([[o]]),
        },
        "nested-scalar-elem" => {
          let sc = match rng.below(3) {
            0 => json!("oops"),
            1 => json!(7),
            _ => json!(false),
          };
          match old {
            Value::Array(mut a) => {
              let i = rng.below(a.len() + 1);
              a.insert(i, sc);
              Value::Array(a)
            }
            o if o.is_object() => json!([o, sc]),
            _ => json!([fresh, sc]),
          }
        }
        "nested-scalar" => match rng.below(3) {
          0 => json!("flat"),
          1 => json!(3),
          _ => json!(true),
        },
        "nested-null" => Value::Null,
        _ => match old {
          Value::Array(mut a) => {
            let i = rng.below(a.len() + 1);
            a.insert(i, Value::Null);
            Value::Array(a)
          }
          o if o.is_object() => json!([o, null]),
          _ => json!([fresh, null]),
        },
      };
      done(which)
    }
    _ => done("none"),
  }
}

// ---------------------------------------------------------------------------------------------
// running one case on the real code
// ---------------------------------------------------------------------------------------------

/// `{"$repeat": "x", "times": n}` anywhere in a document stands for the string `x` repeated `n`
/// times (keeps cases with a 32 MiB payload small)
fn expand(v: &Value) -> Value {
  match v {
    Value::Object(m) => {
      if let (Some(x), Some(n)) = (m.get("$repeat").and_then(|x| x.as_str()), m.get("times").and_then(|n| n.as_u64())) {
        return Value::String(x.repeat(n as usize));
      }
      Value::Object(m.iter().map(|(k, x)| (k.clone(), expand(x))).collect())
    }
    Value::Array(a) => Value::Array(a.iter().map(expand).collect()),
    x => x.clone(),
  }
}

struct Observed {
  /// companions (valid documents of the same commit) that `add_document` refused
  companions_rejected: Vec<String>,
  add: Result<(), String>,
  commit: Option<Result<(), String>>,
  /// after a failed commit: result of (new writer, add `later`, commit)
  later_after_failure: Option<Result<(), String>>,
  /// after a successful commit or a rejected add: same probe, for the sanity of the probe itself
  later_plain: Option<Result<(), String>>,
}

fn observe(schema: &Value, doc: &Value, companions: &[Value], later: &Value, mem: bool) -> Result<Observed, String> {
  let dir = scratch();
  let index = idx::create(dir.path(), schema, mem)?;
  let mut w = index.writer().map_err(|e| format!("writer: {e}"))?;
  // the other documents of the same commit (they share the segment's column builders)
  let mut companions_rejected = Vec::new();
  let mut queued = 0usize;
  for c in companions.iter() {
    match guarded(|| w.add_document(&idx::doc(c))) {
      Ok(Ok(_)) => queued += 1,
      Ok(Err(e)) => companions_rejected.push(e.to_string()),
      Err(p) => companions_rejected.push(format!("panic: {p}")),
    }
  }
  let d = idx::doc(doc);
  let add = match guarded(|| w.add_document(&d)) {
    Ok(Ok(_)) => Ok(()),
    Ok(Err(e)) => Err(e.to_string()),
    Err(p) => Err(format!("panic: {p}")),
  };
  let commit = if add.is_ok() || queued > 0 {
    Some(match guarded(|| w.commit()) {
      Ok(Ok(())) => Ok(()),
      Ok(Err(e)) => Err(e.to_string()),
      Err(p) => Err(format!("panic: {p}")),
    })
  } else {
    None
  };
  drop(w);
  // a later valid document through a new writer (which replays the log)
  let probe = || -> Result<(), String> {
    let mut w2 = match guarded(|| index.writer()) {
      Ok(Ok(w)) => w,
      Ok(Err(e)) => return Err(format!("new writer: {e}")),
      Err(p) => return Err(format!("new writer: panic: {p}")),
    };
    match guarded(|| w2.add_document(&idx::doc(later))) {
      Ok(Ok(_)) => {}
      Ok(Err(e)) => return Err(format!("add later: {e}")),
      Err(p) => return Err(format!("add later: panic: {p}")),
    }
    match guarded(|| w2.commit()) {
      Ok(Ok(())) => Ok(()),
      Ok(Err(e)) => Err(format!("commit later: {e}")),
      Err(p) => Err(format!("commit later: panic: {p}")),
    }
  };
  let failed = matches!(commit, Some(Err(_)));
  let r = probe();
  Ok(Observed { companions_rejected, add, commit, later_after_failure: if failed { Some(r.clone()) } else { None }, later_plain: if failed { None } else { Some(r) } })
}

fn res_json(r: &Result<(), String>) -> Value {
  match r {
    Ok(()) => json!("ok"),
    Err(e) => json!({"error": e.chars().take(200).collect::<String>()}),
  }
}

impl Prop for C15 {
  fn id(&self) -> &'static str {
    "C15"
  }
  fn rule(&self) -> &'static str {
    "case = (random schema with flat text/keyword/i64/f64 fields and nested objects up to 3 levels, a valid document with 0-2 random mutations out of 19 kinds, 0 or 2-4 valid companion documents of the same commit whose ids sort before and after it and whose fast fields mix missing / one / several values, a later valid document, filesystem or in-memory storage); the real add_document (all documents) and commit (panics caught) are run, then a new writer adds and commits the later document; non-trivial = the document was actually mutated (near-valid) or is valid and contains a nested value; distinct = distinct case JSON"
  }
  fn count(&self, tier: Tier) -> usize {
    tier.pick(1500, 60000)
  }
  fn gen(&self, rng: &mut Rng, _tier: Tier, i: usize) -> Value {
    let o = SchemaOpts { fast_8: 4, max_depth: 3, text: true, multi_nested: false };
    let s = gen_schema(rng, &o);
    let mut doc = gen_valid_doc(rng, &s, &format!("d{i}"));
    let later = gen_valid_doc(rng, &s, &format!("later{i}"));
    let nm = match rng.below(10) {
      0 | 1 => 0,
      9 => 2,
      _ => 1,
    };
    let mut muts = Vec::new();
    for _ in 0..nm {
      // a mutation that does not apply to this schema/document is replaced by another one
      for _attempt in 0..6 {
        let which = MUTATIONS[1 + rng.below(MUTATIONS.len() - 1)];
        let did = mutate(rng, &s, &mut doc, which);
        if did != "none" {
          muts.push(did);
          break;
        }
      }
    }
    // other valid documents of the same commit, ids sorting before and after the main one, their
    // fast fields mixing missing / single / multi values
    let nc = if rng.chance(1, 4) { 0 } else { 2 + rng.below(3) };
    let companions: Vec<Value> = (0..nc)
      .map(|k| {
        let pre = *rng.pick(&["a", "b", "y", "z"]);
        gen_valid_doc_with(rng, &s, &format!("{pre}{i}-{k}"), true)
      })
      .collect();
    let mem = rng.chance(4, 5);
    json!({"schema": s.to_json(), "doc": doc, "companions": companions, "later": later, "mem": mem, "muts": muts})
  }
  fn run_case(&self, drv: &mut Driver, case: &Value, s: &mut Summary) {
    let schema_json = &case["schema"];
    let schema = SchemaS::from_json(schema_json);
    let doc = expand(&case["doc"]);
    let later = &case["later"];
    let mem = case["mem"].as_bool().unwrap_or(true);
    let muts: Vec<String> = case["muts"].as_array().map(|a| a.iter().filter_map(|m| m.as_str().map(|x| x.to_string())).collect()).unwrap_or_default();
    let has_nested = schema.nested.iter().any(|n| doc.get(&n.name).map(|v| !v.is_null()).unwrap_or(false));
    s.case(case, !muts.is_empty() || has_nested);
    if muts.is_empty() {
      s.count("mutation:none");
    }
    for m in muts.iter() {
      s.count(&format!("mutation:{m}"));
    }
    s.count(if mem { "storage:memory" } else { "storage:filesystem" });

    let companions: Vec<Value> = case["companions"].as_array().cloned().unwrap_or_default();
    s.count(&format!("companions:{}", companions.len()));
    let obs = match observe(schema_json, &doc, &companions, later, mem) {
      Ok(o) => o,
      Err(e) => {
        s.disagree("setup", case, json!({"error": e}), json!("index creation should succeed"));
        return;
      }
    };
    let viol = violations(&schema, &doc);
    let big = serde_json::to_vec(&doc).map(|b| b.len()).unwrap_or(0) > DOCSTORE_CAP;
    s.count(&format!("add:{}", if obs.add.is_ok() { "accepted" } else { "rejected" }));
    match &obs.commit {
      Some(Ok(())) => s.count("commit:ok"),
      Some(Err(_)) => s.count("commit:failed"),
      None => {}
    }
    s.count(if viol.is_empty() { "oracle:conforms" } else { "oracle:violates" });
    let observed = json!({
      "add": res_json(&obs.add),
      "commit": obs.commit.as_ref().map(res_json),
      "later_after_failed_commit": obs.later_after_failure.as_ref().map(res_json),
      "later": obs.later_plain.as_ref().map(res_json),
      "violations": viol.iter().collect::<Vec<_>>(),
    });

    // ---- correspondence -----------------------------------------------------------------
    // the driver expands `$repeat` itself (the same document, without 32 MiB through the pipe)
    let m = drv.call("C15", json!({"op": "verdict", "schema": schema_json, "doc": case["doc"], "cap": DOCSTORE_CAP}));
    if m["ok"] != json!(true) {
      s.disagree("driver", case, observed.clone(), m.clone());
      return;
    }
    // the public `Schema::validate_document` on its own (the theorems `validated_collects` /
    // `validated_conforms` are about it; commit calls it again for every document)
    let real_valid = idx::schema(schema_json).ok().map(|sc| crate::util::guarded(|| sc.validate_document(&idx::doc(&doc)).is_ok()).unwrap_or(false));
    if let Some(v) = real_valid {
      s.count(if v { "validate_document:ok" } else { "validate_document:err" });
      if m["valid"].as_bool() != Some(v) {
        s.disagree("validateDoc", case, json!({"validate_document": v, "observed": observed}), m.clone());
      }
    }
    if m["add"].as_bool() != Some(obs.add.is_ok()) {
      s.disagree("validateAdd", case, observed.clone(), m.clone());
    }
    // the commit holds the main document (if accepted) and the companions: the model's verdict
    // is the conjunction of the per-document verdicts (the column builders never refuse values
    // of the field's kind: `Props/C15.colset_total`)
    let mut model_commit = !obs.add.is_ok() || m["commit"].as_bool().unwrap_or(false);
    for c in companions.iter() {
      let mc = drv.call("C15", json!({"op": "verdict", "schema": schema_json, "doc": c, "cap": DOCSTORE_CAP}));
      if mc["add"] != json!(true) || !obs.companions_rejected.is_empty() {
        s.disagree("companion-accepted", case, json!({"rejected": obs.companions_rejected}), mc.clone());
      }
      model_commit = model_commit && mc["commit"].as_bool().unwrap_or(false);
    }
    if let Some(c) = &obs.commit {
      if model_commit != c.is_ok() {
        s.disagree("collectOk", case, observed.clone(), json!({"commit_all": model_commit, "main": m}));
      }
    }
    if m["conforms"].as_bool() != Some(viol.is_empty()) {
      s.disagree("conforms-vs-oracle", case, observed.clone(), m.clone());
    }
    if m["within_cap"] == json!(false) {
      s.count("model:over-docstore-cap");
    }
    // instances of the theorems (model vs model): must never fail
    let b = |k: &str| m[k].as_bool().unwrap_or(false);
    if b("valid") && !b("collects") {
      s.disagree("theorem-instance validated_collects", case, observed.clone(), m.clone());
    }
    if b("add") != b("commit") {
      s.disagree("theorem-instance accepted_iff_commits", case, observed.clone(), m.clone());
    }
    if b("add") != (b("conforms") && b("within_cap")) {
      s.disagree("theorem-instance accepted_iff_conforms", case, observed.clone(), m.clone());
    }
    if b("valid") && !b("add") {
      s.count("model:rejected-by-ensure_storable");
    }
    // what the validation before the repairs would have said (documentation of the fixed defects)
    if b("legacy_add") && !b("add") {
      s.count("model:rejected-now-accepted-before-the-repairs");
    }

    // ---- finder (implementation alone) ---------------------------------------------------
    let mut sigs: BTreeSet<String> = BTreeSet::new();
    // F1: accepted ⇒ commit succeeds
    if let Some(Err(msg)) = &obs.commit {
      let sig = if let Some(p) = msg.strip_prefix("panic: ") {
        // a panic inside commit is a failure of commit; class = the message up to " for <field>"
        let class: String = p.split(" for ").next().unwrap_or("").chars().map(|c| if c.is_ascii_alphanumeric() { c.to_ascii_lowercase() } else { '-' }).take(48).collect();
        format!("commit.panic.{}", class.trim_matches('-'))
      } else if viol.contains("unknown-top") {
        "accept.unknown-top-level-field".to_string()
      } else if viol.contains("array-in-array") {
        "accept.nested-array-in-array".to_string()
      } else if big {
        "accept.stored-doc-over-docstore-cap".to_string()
      } else {
        "accept.commit-fails.unclassified".to_string()
      };
      let blocked = matches!(obs.later_after_failure, Some(Err(_)));
      s.count(if blocked { "finder:later-commit-blocked" } else { "finder:later-commit-not-blocked" });
      if sigs.insert(sig.clone()) {
        s.fail(
          &sig,
          if blocked {
            "every document was accepted by add_document, commit fails (or panics) because of their content, and a later valid document can no longer be committed by a new writer (log replay)"
          } else {
            "every document was accepted by add_document, commit fails (or panics) because of their content"
          },
          case,
          observed.clone(),
        );
      }
    }
    // the probe itself must work when nothing failed before
    if let Some(Err(e)) = &obs.later_plain {
      s.fail("later-valid-document.not-committable", "a later valid document could not be added and committed although no commit failed before", case, json!({"error": e, "observed": observed}));
    }
    // F2: documents that violate the schema are rejected when they are queued
    if obs.add.is_ok() {
      for c in viol.iter() {
        let sig = accepted_sig(c);
        if sigs.insert(sig.clone()) {
          s.fail(&sig, "add_document accepted a document that violates the schema as documented", case, observed.clone());
        }
      }
    }
  }
}
