//! C16 — search never panics on any request (claimed level: partial).
//!
//! Finder (implementation alone): every request runs in its own thread under `catch_unwind`
//! with a 30 s watchdog, debug assertions on; outcome classes ok | error | panic | hang;
//! panic/hang ⇒ `s.fail(sig, …)` with a signature derived from the panic site (file +
//! message class, never the line number) and, for the two known sites, the input class.
//! Correspondence (model = `Drv/C16`): cursor decode ok/error (+ decoded fields of real
//! cursors, hex round trip), script compile ok/error (+ value of constant scripts),
//! minimum_should_match percentage ok/error, and "the term_weights assertion fires iff the
//! planner model says one key reaches two leaves".
//! Only the library API is driven: a panic under `extern "C"` aborts the process, so the FFI
//! entry point is not part of this stream.
use crate::idx;
use crate::proto::Driver;
use crate::rng::Rng;
use crate::summary::Summary;
use crate::util::scratch;
use crate::{Prop, Tier};
use searchlite_core::api::types::SearchRequest;
use searchlite_core::api::{Index, IndexReader};
use serde_json::{json, Map, Value};
use std::cell::RefCell;
use std::sync::{mpsc, Arc, Once};
use std::time::Duration;

#[path = "c16_gen.rs"]
mod gen;

pub struct C16;
pub static P: C16 = C16;

// generous: the machine may be heavily loaded; a request on these tiny indexes normally answers in milliseconds
const WATCHDOG: Duration = Duration::from_secs(30);

// ---------------------------------------------------------------- outcome of one request

#[derive(Clone, Debug)]
pub enum Out {
  Ok(Value),
  /// the request text is not a `SearchRequest` (serde)
  Reject(String),
  Err(String),
  Panic { file: String, line: u32, msg: String },
  Hang,
}

impl Out {
  pub fn class(&self) -> &'static str {
    match self {
      Out::Ok(_) => "ok",
      Out::Reject(_) | Out::Err(_) => "error",
      Out::Panic { .. } => "panic",
      Out::Hang => "hang",
    }
  }
  fn brief(&self) -> Value {
    match self {
      Out::Ok(v) => json!({"ok": {"hits": v["hits"].as_array().map(|a| a.len()), "total": v["total_hits_estimate"]}}),
      Out::Reject(e) => json!({"reject": e}),
      Out::Err(e) => json!({"error": e}),
      Out::Panic { file, line, msg } => json!({"panic": {"file": file, "line": line, "msg": msg}}),
      Out::Hang => json!({"hang": format!("no answer within {} s", WATCHDOG.as_secs())}),
    }
  }
}

thread_local! {
  static LAST_PANIC: RefCell<Option<(String, u32, String)>> = const { RefCell::new(None) };
}

/// replaces main's silent hook by one that is just as silent but remembers the panic site
fn install_hook() {
  static ONCE: Once = Once::new();
  ONCE.call_once(|| {
    std::panic::set_hook(Box::new(|info| {
      let (file, line) = info.location().map(|l| (l.file().to_string(), l.line())).unwrap_or_default();
      let msg = if let Some(s) = info.payload().downcast_ref::<&str>() {
        s.to_string()
      } else if let Some(s) = info.payload().downcast_ref::<String>() {
        s.clone()
      } else {
        "panic".to_string()
      };
      LAST_PANIC.with(|c| *c.borrow_mut() = Some((file, line, msg)));
    }));
  });
}

/// deserialise + search + serialise one request text (runs inside the worker thread)
fn execute(reader: &IndexReader, text: &str) -> Out {
  LAST_PANIC.with(|c| *c.borrow_mut() = None);
  let r = std::panic::catch_unwind(std::panic::AssertUnwindSafe(|| {
    let req: SearchRequest = match serde_json::from_str(text) {
      Ok(r) => r,
      Err(e) => return Out::Reject(e.to_string()),
    };
    match reader.search(&req) {
      Ok(res) => Out::Ok(serde_json::to_value(&res).unwrap_or(Value::Null)),
      Err(e) => Out::Err(format!("{e:#}")),
    }
  }));
  match r {
    Ok(o) => o,
    Err(_) => {
      let (file, line, msg) = LAST_PANIC.with(|c| c.borrow_mut().take()).unwrap_or_default();
      Out::Panic { file, line, msg }
    }
  }
}

/// `IndexReader` is not `Sync`: one worker thread per case owns the reader (re-opened after
/// a panic); the case thread is the watchdog.  A worker that hangs is abandoned.
struct Worker {
  tx: mpsc::Sender<String>,
  rx: mpsc::Receiver<Out>,
}

fn spawn_worker(index: Arc<Index>) -> Worker {
  install_hook();
  let (tx, req_rx) = mpsc::channel::<String>();
  let (out_tx, rx) = mpsc::channel::<Out>();
  let _ = std::thread::Builder::new().stack_size(4 << 20).spawn(move || {
    let mut reader = index.reader().ok();
    while let Ok(text) = req_rx.recv() {
      if reader.is_none() {
        reader = index.reader().ok();
      }
      let out = match &reader {
        Some(r) => execute(r, &text),
        None => Out::Err("harness: reader could not be opened".into()),
      };
      if matches!(out, Out::Panic { .. }) {
        reader = None;
      }
      if out_tx.send(out).is_err() {
        break;
      }
    }
  });
  Worker { tx, rx }
}

pub fn run_text(b: &mut Built, text: &str) -> Out {
  // debugging aid for process aborts (allocation failure, stack overflow): with
  // VERIF_C16_TRACE=<prefix> every thread keeps its current request in <prefix>.<thread>
  if let Ok(prefix) = std::env::var("VERIF_C16_TRACE") {
    let _ = std::fs::write(format!("{prefix}.{:?}", std::thread::current().id()), text);
  }
  if b.worker.tx.send(text.to_string()).is_err() {
    b.worker = spawn_worker(b.index.clone());
    let _ = b.worker.tx.send(text.to_string());
  }
  match b.worker.rx.recv_timeout(WATCHDOG) {
    Ok(o) => o,
    Err(_) => {
      // confirm on a fresh worker (a loaded machine must not produce a hang verdict); the
      // first thread is abandoned
      b.worker = spawn_worker(b.index.clone());
      let _ = b.worker.tx.send(text.to_string());
      match b.worker.rx.recv_timeout(WATCHDOG) {
        Ok(o) => o,
        Err(_) => {
          b.worker = spawn_worker(b.index.clone());
          Out::Hang
        }
      }
    }
  }
}

fn slug(s: &str, max: usize) -> String {
  let mut out = String::new();
  let mut last_dash = true;
  for ch in s.chars() {
    let c = if ch.is_ascii_digit() { 'N' } else { ch.to_ascii_lowercase() };
    if c.is_ascii_alphanumeric() {
      if !(c == 'N' && out.ends_with('N')) {
        out.push(c);
      }
      last_dash = false;
    } else if !last_dash {
      out.push('-');
      last_dash = true;
    }
    if out.len() >= max {
      break;
    }
  }
  out.trim_matches('-').to_string()
}

fn file_class(file: &str) -> String {
  let f = file.replace('\\', "/");
  let rel = if let Some(i) = f.find("searchlite-core/src/") {
    f[i + "searchlite-core/src/".len()..].to_string()
  } else {
    let parts: Vec<&str> = f.split('/').collect();
    parts[parts.len().saturating_sub(3)..].join("/")
  };
  slug(rel.trim_end_matches(".rs"), 40)
}

/// is the request on the score fast path (no sort, or `_score` descending only)?
fn score_fast_path(req: &Value) -> bool {
  match req.get("sort").and_then(|s| s.as_array()) {
    None => true,
    Some(a) if a.is_empty() => true,
    Some(a) => a.len() == 1 && a[0]["field"] == json!("_score") && a[0].get("order").map(|o| o != &json!("asc")).unwrap_or(true),
  }
}

/// stable signature of a panic: known sites by message + input class, everything else by
/// file and message class (text before the first data-carrying punctuation; digits folded)
pub fn panic_sig(file: &str, msg: &str, req: Option<&Value>) -> String {
  if msg.contains("Inconsistent leaf for term key") {
    return "panic.inconsistent-leaf".into();
  }
  let cursor_non_ascii = req.and_then(|r| r.get("cursor")).and_then(|c| c.as_str()).map(|c| !c.is_ascii()).unwrap_or(false);
  if file.ends_with("api/reader.rs") && msg.contains("Utf8Error") && msg.contains("unwrap") && cursor_non_ascii {
    return if req.map(score_fast_path).unwrap_or(true) {
      "panic.cursor-decode-non-ascii".into()
    } else {
      "panic.sort-cursor-hex-decode-non-ascii".into()
    };
  }
  let msg = msg.strip_prefix("internal error: entered unreachable code: ").unwrap_or(msg);
  // arithmetic panics inside the aggregation code: the bounded aggregation types of the request
  // name the input class (several loops of that file share the message)
  let mut suffix = String::new();
  if file.ends_with("query/aggs/mod.rs") && msg.starts_with("attempt to") {
    let mut types = Vec::new();
    if let Some(r) = req {
      gen::bounded_agg_types(r, &mut types);
    }
    types.sort();
    if !types.is_empty() {
      suffix = format!("@{}-bounds", types.join("+"));
    }
  }
  let head: String = msg.split(|c| matches!(c, ':' | ';' | '`' | '\'' | '(' | '"')).next().unwrap_or("").to_string();
  format!("panic.{}.{}{suffix}", file_class(file), slug(&head, 64))
}

// ---------------------------------------------------------------- index of a case

pub struct Built {
  _dir: tempfile::TempDir,
  index: Arc<Index>,
  worker: Worker,
  pub segments: usize,
  pub schema: searchlite_core::Schema,
}

pub fn build(case: &Value) -> Result<Built, String> {
  let dir = scratch();
  let mem = case["mem"].as_bool().unwrap_or(true);
  let index = idx::create(dir.path(), &case["schema"], mem)?;
  let mut segments = 0;
  for c in case["commits"].as_array().cloned().unwrap_or_default() {
    let docs = c["add"].as_array().cloned().unwrap_or_default();
    if !docs.is_empty() {
      idx::add_commit(&index, &docs)?;
      segments += 1;
    }
    let dels: Vec<String> = c["delete"].as_array().map(|a| a.iter().filter_map(|x| x.as_str().map(|s| s.to_string())).collect()).unwrap_or_default();
    if !dels.is_empty() {
      idx::delete_commit(&index, &dels)?;
    }
  }
  index.reader().map_err(|e| format!("reader: {e}"))?;
  let schema = idx::schema(&case["schema"])?;
  let index = Arc::new(index);
  let worker = spawn_worker(index.clone());
  Ok(Built { _dir: dir, index, worker, segments, schema })
}

/// the case reduced to one request (what a failure is reported and replayed with)
fn single(case: &Value, item: &Value) -> Value {
  let mut c = case.clone();
  c["items"] = json!([item]);
  c
}

fn bytes_json(s: &str) -> Value {
  Value::Array(s.bytes().map(|b| json!(b)).collect())
}

fn chars_json(s: &str) -> Value {
  Value::Array(s.chars().map(|c| json!(c as u32)).collect())
}

// ---------------------------------------------------------------- finder shared by all streams

/// records the case and, for panic / hang, the failure; returns the class
fn judge(s: &mut Summary, case: &Value, item: &Value, req: Option<&Value>, out: &Out, stream: &str) -> &'static str {
  let sub = single(case, item);
  let reached = !matches!(out, Out::Reject(_));
  s.case(&sub, reached);
  s.count(&format!("{stream}.{}", match out {
    Out::Reject(_) => "rejected-by-serde",
    o => o.class(),
  }));
  match out {
    Out::Panic { file, msg, .. } => {
      let sig = panic_sig(file, msg, req);
      s.fail(&sig, "IndexReader::search panicked", &sub, out.brief());
    }
    Out::Hang => {
      s.fail("hang.search", "IndexReader::search did not return within 5 s (twice, the second time on a fresh reader)", &sub, out.brief());
    }
    _ => {}
  }
  out.class()
}

fn with_defaults(mut r: Value) -> Value {
  if r.get("return_stored").is_none() {
    r["return_stored"] = json!(false);
  }
  if r.get("highlight_field").is_none() {
    r["highlight_field"] = Value::Null;
  }
  if r.get("limit").is_none() {
    r["limit"] = json!(10);
  }
  r
}

// ---------------------------------------------------------------- stream: plain / mutated requests

fn run_req_item(b: &mut Built, drv: &mut Driver, case: &Value, item: &Value, s: &mut Summary) {
  let (text, reqv): (String, Option<Value>) = match item.get("raw").and_then(|r| r.as_str()) {
    Some(raw) => (raw.to_string(), serde_json::from_str(raw).ok()),
    // the request as the code will read it: serde_json's float parser is not exact, the text
    // is re-read so that the harness reasons about the very numbers the code gets
    None => {
      let text = item["req"].to_string();
      let v = serde_json::from_str(&text).ok();
      (text, v)
    }
  };
  // a request with a loop that can never finish (by the harness's own reading of the code)
  // runs in a child process: the spinning thread dies with the child
  if std::env::var("VERIF_C16_CHILD").is_err() {
    if let Some(label) = reqv.as_ref().and_then(gen::risk) {
      let mut it = item.clone();
      it["param"] = json!(label);
      s.count("req.routed-to-child-process");
      run_isolated_item(case, &it, s);
      return;
    }
  }
  let out = run_text(b, &text);
  let stream = item["stream"].as_str().unwrap_or("req");
  judge(s, case, item, reqv.as_ref(), &out, stream);
  if stream == "bounds" {
    if let Some(r) = &reqv {
      bounds_correspondence(b, drv, case, item, r, &out, s);
    }
  }
  if let (Out::Err(e), Some(_)) = (&out, &reqv) {
    // which validation answered (input distribution only)
    let head: String = e.split(|c| matches!(c, ':' | '`')).next().unwrap_or("").to_string();
    s.count(&format!("error.{}", slug(&head, 32)));
  }
  if let Some(r) = &reqv {
    for k in ["aggs", "sort", "filter", "fuzzy", "highlight", "collapse", "suggest", "rescore", "cursor", "explain"] {
      if r.get(k).map(|v| !v.is_null()).unwrap_or(false) {
        s.count(&format!("feature.{k}"));
      }
    }
  }
}

/// `Core/HistFill` against the code: the bucket fill of the one bounded aggregation of a
/// `bounds` request.  Which loop the code has (with or without the `== end` break) is read off
/// the canonical witness on the same index; the model variant for that loop must then predict
/// the outcome class of every request, and a finished fill must have inserted its buckets.
fn bounds_correspondence(b: &mut Built, drv: &mut Driver, case: &Value, item: &Value, req: &Value, out: &Out, s: &mut Summary) {
  let Some(agg) = req["aggs"]["h"].as_object() else { return };
  let sub = single(case, item);
  let numeric = agg.get("type") == Some(&json!("histogram"));
  if matches!(out, Out::Hang | Out::Reject(_)) {
    return;
  }
  let m = if numeric {
    let gen::Fill::Count(n, Some((start, end, _))) = gen::fill_of(agg) else { return };
    if n > 10_000 {
      return;
    }
    drv.call("C16", json!({"op": "hist_fill", "start": start, "stop": end}))
  } else {
    // fixed-step date fill: `bucket_start` of both bounds (checked since /repo d7457e1), then the loop
    let Some((step, off, lo, hi)) = gen::date_inputs(agg) else { return };
    if step < 1 || !matches!(gen::fill_of(agg), gen::Fill::Count(n, _) if n <= 10_000) {
      return;
    }
    let bucket = |v: i64| v.checked_sub(off).map(|d| gen::bucket_of(d, step)).unwrap_or(0);
    drv.call("C16", json!({"op": "date_finish", "step": step, "offset": off, "lo": lo, "hi": hi, "bucket_lo": bucket(lo), "bucket_hi": bucket(hi)}))
  };
  if m["ok"] != json!(true) {
    s.disagree("bounds.driver", &sub, out.brief(), m);
    return;
  }
  let buckets = match out {
    Out::Ok(v) => v["aggregations"]["h"]["buckets"].as_array().map(|a| a.len()),
    _ => None,
  };
  if numeric {
    // with or without the break?
    let probe = json!({"query": {"type": "match_all"}, "limit": 1, "return_stored": false, "highlight_field": null,
      "aggs": {"h": {"type": "histogram", "field": "n", "interval": 1.0, "extended_bounds": {"min": 1e300, "max": 1e300}}}});
    let legacy = matches!(run_text(b, &probe.to_string()), Out::Panic { ref msg, .. } if msg.contains("overflow"));
    s.count(if legacy { "bounds.code-has-the-loop-without-break" } else { "bounds.code-has-the-loop-with-break" });
    let pred = if legacy { &m["legacy"] } else { &m["repaired"] };
    let want = match pred["cls"].as_str() {
      Some("done") => "ok",
      Some("overflow") => "panic",
      _ => "?",
    };
    s.count(&format!("bounds.model-{}", pred["cls"].as_str().unwrap_or("?")));
    if out.class() == "error" {
      s.count("bounds.rejected-by-validation");
      return;
    }
    if out.class() != want {
      s.disagree("bounds.histogram-fill-outcome", &sub, out.brief(), m.clone());
      return;
    }
    // a finished fill inserted its buckets (documents can only add more; min_doc_count keeps
    // empty buckets only when it is 0)
    let keeps_empty = agg.get("min_doc_count").map(|c| c == &json!(0) || c.is_null()).unwrap_or(true);
    if let (Some(len), Some(ins), true) = (buckets, pred["inserted"].as_u64(), keeps_empty && want == "ok") {
      if (len as u64) < ins {
        s.disagree("bounds.histogram-fill-buckets", &sub, json!({"buckets": len}), m);
      }
    }
  } else {
    if out.class() != "ok" {
      return;
    }
    let cls = m["fill"]["cls"].as_str().unwrap_or("?");
    s.count(&format!("bounds.date-model-{cls}"));
    if m["legacy_lo"] != json!("key") || m["legacy_hi"] != json!("key") {
      s.count("bounds.date-original-bucket-start-would-panic");
    }
    if cls == "never" {
      s.disagree("bounds.date-fill-finished-but-model-never", &sub, out.brief(), m.clone());
      return;
    }
    // a fill that ran inserted its buckets; when a bound has no bucket nothing is filled
    // (documents may still contribute buckets of their own)
    if let (Some(len), Some(ins)) = (buckets, m["fill"]["inserted"].as_u64()) {
      if (len as u64) < ins {
        s.disagree("bounds.date-fill-buckets", &sub, json!({"buckets": len}), m);
      }
    }
  }
}

// ---------------------------------------------------------------- stream: cursors

fn unhex_opt(s: &str) -> Option<Vec<u8>> {
  if s.len() % 2 != 0 || !s.is_ascii() {
    return None;
  }
  (0..s.len() / 2).map(|i| u8::from_str_radix(&s[2 * i..2 * i + 2], 16).ok()).collect()
}

fn apply_recipe(recipe: &Value, next: Option<&str>) -> Option<String> {
  if let Some(l) = recipe.get("lit").and_then(|l| l.as_str()) {
    return Some(l.to_string());
  }
  let mut cs: Vec<char> = next?.chars().collect();
  if let Some(set) = recipe.get("set").and_then(|x| x.as_array()) {
    let pos = set[0].as_u64().unwrap_or(0) as usize;
    let ch: Vec<char> = set[1].as_str().unwrap_or("0").chars().collect();
    if !cs.is_empty() {
      let p = pos % cs.len();
      cs.splice(p..p + 1, ch);
    }
  }
  if let Some(t) = recipe.get("truncate").and_then(|x| x.as_u64()) {
    cs.truncate((t as usize).min(cs.len()));
  }
  let mut out: String = cs.into_iter().collect();
  if let Some(a) = recipe.get("append").and_then(|x| x.as_str()) {
    out.push_str(a);
  }
  if recipe.get("upper").and_then(|x| x.as_bool()).unwrap_or(false) {
    out = out.to_uppercase();
  }
  Some(out)
}

fn run_cursor_item(b: &mut Built, drv: &mut Driver, case: &Value, item: &Value, s: &mut Summary) {
  let base = with_defaults(item["base"].clone());
  let fast = score_fast_path(&base);
  // the real cursor of page 1 of this request, and the manifest generation (taken from a
  // score cursor of a match_all request: bytes 1..5)
  let next: Option<String> = match run_text(b, &base.to_string()) {
    Out::Ok(v) => v["next_cursor"].as_str().map(|x| x.to_string()),
    _ => None,
  };
  let gen: Option<u64> = match run_text(b, &json!({"query": {"type": "match_all"}, "limit": 1, "return_stored": false, "highlight_field": null}).to_string()) {
    Out::Ok(v) => v["next_cursor"].as_str().and_then(unhex_opt).filter(|x| x.len() == 21).map(|x| u32::from_be_bytes([x[1], x[2], x[3], x[4]]) as u64),
    _ => None,
  };
  let recipe = &item["recipe"];
  let Some(cursor) = apply_recipe(recipe, next.as_deref()) else {
    s.count("cursor.skipped-no-next-page");
    return;
  };
  let unmodified = recipe.get("from_next").is_some() && recipe.as_object().map(|m| m.len() == 1).unwrap_or(false);
  let mut req = base.clone();
  req["cursor"] = json!(cursor);
  let out = run_text(b, &req.to_string());
  let stream = if fast { "cursor.fast" } else { "cursor.sort" };
  let mut it = item.clone();
  it["resolved_cursor"] = json!(cursor);
  let cls = judge(s, case, &it, Some(&req), &out, stream);
  if !cursor.is_ascii() {
    s.count("cursor.non-ascii");
  }
  if unmodified {
    s.count("cursor.real-next-cursor");
  }
  // ---- correspondence with Core/CursorBytes
  let m = drv.call("C16", json!({"op": "cursor", "bytes": bytes_json(&cursor), "gen": gen.unwrap_or(0)}));
  let sub = single(case, &it);
  if m["ok"] != json!(true) {
    s.disagree("cursor.driver", &sub, out.brief(), m);
    return;
  }
  // the original decoder (before /repo 0bc4e6f) would have panicked here: input-class count
  if (if fast { &m["legacy_fast"] } else { &m["legacy_hex"] }) == &json!("panic") {
    s.count("cursor.original-decoder-would-panic");
  }
  if cls == "panic" || cls == "hang" {
    return;
  }
  if fast {
    let Some(_) = gen else {
      s.count("cursor.generation-unknown");
      return;
    };
    // model = the code as it is: UTF-8 test, radix parse (leading `+` accepted), generation test
    let p = &m["fast_plus"];
    if p["cls"] != m["fast_noplus"]["cls"] {
      s.count("cursor.sign-rule-matters");
    }
    if cls == "ok" && p["cls"] != json!("ok") {
      s.disagree("cursor.fast.accepted-but-model-rejects", &sub, out.brief(), m.clone());
    } else if cls == "error" && p["cls"] == json!("ok") {
      // decodable, right generation: only "not in this result set" may still reject it
      if unmodified {
        s.disagree("cursor.fast.real-cursor-rejected", &sub, out.brief(), m.clone());
      } else {
        s.count("cursor.fast.decoded-then-rejected");
      }
    }
    if unmodified {
      let want = base["limit"].as_u64().unwrap_or(0);
      if p["cls"] != json!("ok") || p["returned"].as_u64() != Some(want) || p["generation"].as_u64() != gen {
        s.disagree("cursor.fast.decoded-fields", &sub, json!({"cursor": cursor, "limit": want, "generation": gen}), m.clone());
      }
    }
  } else {
    let p = &m["repaired_hex"];
    if cls == "ok" && p["cls"] != json!("ok") {
      s.disagree("cursor.sort.accepted-but-model-rejects", &sub, out.brief(), m.clone());
    }
    if cls == "ok" {
      // what was accepted must be the hex of a JSON payload of the current sort cursor version
      // (SORT_CURSOR_VERSION in api/reader.rs, `SL.Cursor.sortCursorVersion` in the model: 3 since
      // /repo 0331be9 stores f64 sort values as bit patterns)
      let bytes: Vec<u8> = p["bytes"].as_array().map(|a| a.iter().map(|x| x.as_u64().unwrap_or(0) as u8).collect()).unwrap_or_default();
      let parsed: Option<Value> = serde_json::from_slice(&bytes).ok();
      if parsed.as_ref().map(|v| v["version"] != json!(3)).unwrap_or(true) {
        s.disagree("cursor.sort.accepted-payload", &sub, out.brief(), m.clone());
      }
    }
    if unmodified {
      let same = unhex_opt(&cursor).map(|u| Value::Array(u.iter().map(|b| json!(b)).collect())) == Some(p["bytes"].clone());
      if cls != "ok" || !same {
        s.disagree("cursor.sort.real-cursor", &sub, out.brief(), m.clone());
      }
    }
  }
}

// ---------------------------------------------------------------- stream: script_score

fn run_script_item(b: &mut Built, drv: &mut Driver, case: &Value, item: &Value, live: usize, s: &mut Summary) {
  let script = item["script"].as_str().unwrap_or("").to_string();
  let mut q = json!({"type": "script_score", "query": {"type": "match_all"}, "script": script});
  let params: Map<String, Value> = item["params"].as_object().cloned().unwrap_or_default();
  if !params.is_empty() {
    q["params"] = Value::Object(params.clone());
  }
  let req = json!({"query": q, "limit": 50, "return_stored": false, "highlight_field": null});
  let out = run_text(b, &req.to_string());
  let cls = judge(s, case, item, Some(&req), &out, "script");
  if cls == "panic" || cls == "hang" {
    return;
  }
  // ---- correspondence with Core/Script (names in BTreeMap order = serde_json::Map order)
  let names: Vec<Value> = params.keys().map(|k| chars_json(k)).collect();
  let values: Vec<Value> = params.values().cloned().collect();
  let m = drv.call(
    "C16",
    json!({"op": "script", "chars": chars_json(&script), "params": names, "param_values": values,
           "fast": [chars_json("n"), chars_json("x")], "fast_values": [0.0, 0.0], "score": 1.0}),
  );
  let sub = single(case, item);
  if m["ok"] != json!(true) {
    s.disagree("script.driver", &sub, out.brief(), m);
    return;
  }
  let model_cls = m["cls"].as_str().unwrap_or("?");
  s.count(&format!("script.model-{model_cls}"));
  if m["wf"] == json!(true) {
    s.count("script.well-formed");
  }
  if model_cls != cls {
    s.disagree("script.compile-class", &sub, out.brief(), m.clone());
    return;
  }
  if m["eval_panic"] == json!(true) || (m["wf"] == json!(true) && model_cls == "ok" && m["depth"] != json!(1)) {
    s.disagree("script.model-invariant", &sub, out.brief(), m.clone());
  }
  // value: only for scripts that read no document field (`_score` of match_all is 1)
  let reads_field = m["fields"].as_array().map(|a| !a.is_empty()).unwrap_or(true);
  if let (Out::Ok(v), false, true) = (&out, reads_field, live > 0) {
    let hits = v["hits"].as_array().cloned().unwrap_or_default();
    let want: Option<f32> = m["eval_bits"].as_u64().map(|b| f64::from_bits(b) as f32).filter(|x| x.is_finite());
    match want {
      None => {
        s.count("script.value-dropped");
        if !hits.is_empty() {
          s.disagree("script.value-should-drop-hits", &sub, out.brief(), m.clone());
        }
      }
      Some(w) => {
        s.count("script.value-compared");
        let bad = hits.is_empty() || hits.iter().any(|h| !idx::close(h["score"].as_f64().unwrap_or(f64::NAN), w as f64, 2e-5));
        if bad {
          s.disagree("script.value", &sub, json!({"scores": hits.iter().map(|h| h["score"].clone()).collect::<Vec<_>>()}), m.clone());
        }
      }
    }
  }
}

// ---------------------------------------------------------------- stream: minimum_should_match

/// is the percentage body inside the syntax the model parses (plain decimals), or certainly
/// outside every `f32` literal (so that both sides must reject it)?
fn msm_modelled(body: &str) -> bool {
  let plain = body.chars().all(|c| c.is_ascii_digit() || c == '.');
  if plain {
    // stay away from the rounding edge at 100 (f32) — more than 4 decimals are not generated
    return body.len() <= 9;
  }
  body.chars().any(|c| !(c.is_ascii_digit() || matches!(c, '.' | '+' | '-' | 'e' | 'E' | '_') || "infatyINFATY".contains(c)))
}

fn run_msm_item(b: &mut Built, drv: &mut Driver, case: &Value, item: &Value, s: &mut Summary) {
  let text = item["text"].as_str().unwrap_or("").to_string();
  let mut q = json!({"type": "multi_match", "query": text, "fields": ["body"], "minimum_should_match": item["spec"].clone()});
  if let Some(op) = item["op"].as_str() {
    q["operator"] = json!(op);
  }
  let req = json!({"query": q, "limit": 10, "return_stored": false, "highlight_field": null});
  let out = run_text(b, &req.to_string());
  let cls = judge(s, case, item, Some(&req), &out, "msm");
  if cls == "panic" || cls == "hang" {
    return;
  }
  let n = searchlite_core::api::query::parse_query(&text).terms.len();
  let (spec, modelled) = match &item["spec"] {
    Value::Number(v) => (json!({"value": v}), true),
    Value::String(p) => {
      let body = p.strip_suffix('%').unwrap_or(p);
      (json!({"pct": bytes_json(p)}), !p.ends_with('%') || n == 0 || msm_modelled(body))
    }
    _ => (Value::Null, false),
  };
  if !modelled {
    s.count("msm.syntax-not-modelled");
    return;
  }
  let m = drv.call("C16", json!({"op": "msm", "spec": spec, "n": n, "and": item["op"] == json!("and")}));
  let sub = single(case, item);
  if m["ok"] != json!(true) {
    s.disagree("msm.driver", &sub, out.brief(), m);
    return;
  }
  s.count(&format!("msm.model-{}", m["cls"].as_str().unwrap_or("?")));
  if m["cls"].as_str() != Some(cls) {
    s.disagree("msm.class", &sub, out.brief(), m);
  }
}

// ---------------------------------------------------------------- stream: planner leaves

/// replace the textual nodes of the model query by parsed ones (real `parse_query`)
fn resolve_model_query(m: &Value) -> Value {
  let term = |t: &searchlite_core::api::query::QueryTerm| json!([t.field.clone(), t.term.clone()]);
  match m["t"].as_str() {
    Some("qs_text") => {
      let p = searchlite_core::api::query::parse_query(m["text"].as_str().unwrap_or(""));
      json!({"t": "qs", "terms": p.terms.iter().map(term).collect::<Vec<_>>(), "nots": p.not_terms.iter().map(term).collect::<Vec<_>>(), "fields": m["fields"].clone()})
    }
    Some("mm_text") => {
      let p = searchlite_core::api::query::parse_query(m["text"].as_str().unwrap_or(""));
      json!({"t": "mm", "kind": m["kind"].clone(), "terms": p.terms.iter().map(|t| t.term.clone()).collect::<Vec<_>>(),
             "nots": p.not_terms.iter().map(|t| t.term.clone()).collect::<Vec<_>>(), "fields": m["fields"].clone()})
    }
    Some("bool") => {
      let f = |k: &str| Value::Array(m[k].as_array().cloned().unwrap_or_default().iter().map(resolve_model_query).collect());
      json!({"t": "bool", "must": f("must"), "should": f("should"), "must_not": f("must_not")})
    }
    Some("dis_max") => json!({"t": "dis_max", "queries": m["queries"].as_array().cloned().unwrap_or_default().iter().map(resolve_model_query).collect::<Vec<_>>()}),
    Some("fs") => json!({"t": "fs", "q": resolve_model_query(&m["q"])}),
    _ => m.clone(),
  }
}

/// term keys of one (field, term) under exact expansion, from the REAL analyzers
/// (`SchemaAnalyzers` / `FieldKind` cannot be named outside the crate: used through inference)
macro_rules! real_keys {
  ($schema:expr, $analyzers:expr, $field:expr, $term:expr) => {{
    let (field, term): (&str, &str) = ($field, $term);
    let kind = format!("{:?}", $schema.field_kind(field));
    let mut out: Vec<String> = Vec::new();
    if kind == "Text" {
      let mut seen = std::collections::HashSet::new();
      if let Some(an) = $analyzers.search_analyzer(field) {
        for t in an.analyze(term) {
          if seen.insert(t.text.clone()) {
            out.push(format!("{field}:{}", t.text));
          }
        }
      }
    } else if kind == "Keyword" {
      out.push(format!("{field}:{}", term.to_ascii_lowercase()));
    }
    out
  }};
}

fn run_plan_item(b: &mut Built, drv: &mut Driver, case: &Value, item: &Value, s: &mut Summary) {
  let mut req = json!({"query": item["query"].clone(), "limit": 5, "return_stored": false, "highlight_field": null});
  if let Some(ex) = item["execution"].as_str() {
    req["execution"] = json!(ex);
  }
  let dflt: Vec<String> = match item["fields"].as_array() {
    Some(f) => {
      req["fields"] = json!(f);
      f.iter().filter_map(|x| x.as_str().map(|s| s.to_string())).collect()
    }
    None => b.schema.text_fields.iter().map(|f| f.name.clone()).collect(),
  };
  let out = run_text(b, &req.to_string());
  let cls = judge(s, case, item, Some(&req), &out, "plan");
  if cls == "hang" {
    return;
  }
  let sub = single(case, item);
  let mq = resolve_model_query(&item["model"]);
  let first = drv.call("C16", json!({"op": "plan", "dflt": dflt, "q": mq, "keys": []}));
  if first["ok"] != json!(true) {
    s.disagree("plan.driver", &sub, out.brief(), first);
    return;
  }
  let Ok(analyzers) = b.schema.build_analyzers() else { return };
  let mut keys: Vec<Value> = Vec::new();
  let mut seen = std::collections::BTreeSet::new();
  for a in first["asked"].as_array().cloned().unwrap_or_default() {
    let (f, t) = (a[0].as_str().unwrap_or("").to_string(), a[1].as_str().unwrap_or("").to_string());
    if seen.insert((f.clone(), t.clone())) {
      let ks = real_keys!(b.schema, analyzers, &f, &t);
      keys.push(json!([f, t, "exact", ks]));
    }
  }
  let m = drv.call("C16", json!({"op": "plan", "dflt": dflt, "q": mq, "keys": keys}));
  if m["ok"] != json!(true) {
    s.disagree("plan.driver", &sub, out.brief(), m);
    return;
  }
  let verdict = m["verdict"].as_str().unwrap_or("?");
  s.count(&format!("plan.model-{verdict}"));
  // the original loop (before /repo 458e503) would have tripped its debug_assert here
  if m["legacy_verdict"] == json!("inconsistent-leaf") && b.segments > 0 {
    s.count("plan.original-loop-would-panic");
  }
  s.add("plan.leaves", m["leaf_count"].as_u64().unwrap_or(0));
  s.add("plan.scored-terms", m["scored_terms"].as_u64().unwrap_or(0));
  if m["functional"] != m["slots_disjoint"] || (m["legacy_verdict"] == json!("fine")) != (m["functional"] == json!(true)) {
    s.disagree("plan.model-invariant", &sub, out.brief(), m.clone());
  }
  let real = match &out {
    Out::Panic { msg, .. } if msg.contains("Inconsistent leaf for term key") => "inconsistent-leaf",
    Out::Panic { msg, .. } if msg.contains("leaf index") || msg.contains("leaf_count") => "leaf-out-of-range",
    Out::Panic { .. } => "other-panic",
    Out::Ok(_) => "fine",
    _ => "error",
  };
  // model of the code as it is: no assertion of the scoring path fires, whatever the query
  if real != verdict {
    s.disagree("plan.assertion-verdict", &sub, json!({"real": real, "outcome": out.brief(), "segments": b.segments}), m);
  }
}

// ---------------------------------------------------------------- stream: rescore over several segments

fn ids_of(v: &Value) -> Vec<String> {
  v["hits"].as_array().map(|a| a.iter().map(|h| h["doc_id"].as_str().unwrap_or("").to_string()).collect()).unwrap_or_default()
}

/// `rescore_hits` collects the window hits the rescore query gives no score to (per segment,
/// from a hash map) and removes them from the hit list.  Finder: no panic.  Correspondence
/// (`Core/RescoreDrop`): the hits that survive are the first-pass hits minus the rejected
/// window hits, whatever order the rejected indices were collected in.
fn run_rescore_item(b: &mut Built, drv: &mut Driver, case: &Value, item: &Value, s: &mut Summary) {
  let mut base = json!({"query": item["first"].clone(), "limit": 60, "return_stored": false, "highlight_field": null});
  if let Some(ex) = item["execution"].as_str() {
    base["execution"] = json!(ex);
  }
  if item["explain"] == json!(true) {
    base["explain"] = json!(true);
  }
  let mut req = base.clone();
  req["rescore"] = json!({"window_size": item["window"].clone(), "query": item["rq"].clone(), "score_mode": item["mode"].clone()});
  let out = run_text(b, &req.to_string());
  let cls = judge(s, case, item, Some(&req), &out, "rescore");
  let Out::Ok(fin) = &out else { return };
  if cls != "ok" || item["all_match"] != json!(true) {
    return;
  }
  // first pass alone, and the rescore query alone (every document matches it: the documents
  // it returns are the ones it scores)
  let (Out::Ok(first), Out::Ok(alone)) = (
    run_text(b, &base.to_string()),
    run_text(b, &json!({"query": item["rq"].clone(), "limit": 1000, "return_stored": false, "highlight_field": null}).to_string()),
  ) else {
    s.count("rescore.control-failed");
    return;
  };
  let first_ids = ids_of(&first);
  let scored: std::collections::BTreeSet<String> = ids_of(&alone).into_iter().collect();
  let window = (item["window"].as_u64().unwrap_or(0).min(1 << 20) as usize).min(first_ids.len());
  let mut rejected: Vec<usize> = (0..window).filter(|i| !scored.contains(&first_ids[*i])).collect();
  // any collection order must give the same result: hand the model a scrambled one
  rejected.reverse();
  if rejected.len() > 2 {
    let k = rejected.len() / 2;
    rejected.swap(0, k);
  }
  s.count(&format!("rescore.rejected-{}", rejected.len().min(3)));
  if b.segments >= 2 && rejected.len() >= 2 {
    s.count("rescore.several-rejected-on-several-segments");
  }
  let m = drv.call("C16", json!({"op": "rescore_drop", "n": first_ids.len(), "remove": rejected}));
  let sub = single(case, item);
  if m["ok"] != json!(true) || m["cls"] != json!("ok") {
    s.disagree("rescore.driver", &sub, out.brief(), m);
    return;
  }
  let mut want: Vec<String> = m["kept"].as_array().map(|a| a.iter().map(|i| first_ids[i.as_u64().unwrap_or(0) as usize].clone()).collect()).unwrap_or_default();
  let mut got = ids_of(fin);
  want.sort();
  got.sort();
  if want != got {
    s.disagree("rescore.surviving-hits", &sub, json!({"first_pass": first_ids, "after_rescore": ids_of(fin), "scored_by_rescore_query": scored}), m);
  }
}

// ---------------------------------------------------------------- stream: isolated (child process)

/// An allocation failure (`with_capacity(n)` / `vec![x; n]` with a request-supplied n) aborts
/// the process: no unwinding, `catch_unwind` never sees it.  Requests with one huge size
/// parameter therefore run in a child `slh C16 --replay <file>`; the parent classifies the
/// child's exit.  ok | error | panic | hang come back through the child's summary.
fn run_isolated_item(case: &Value, item: &Value, s: &mut Summary) {
  let mut sub = single(case, item);
  sub["kind"] = json!("req");
  let mut reported = single(case, item);
  reported["kind"] = json!("isolated");
  let dir = scratch();
  let inp = dir.path().join("case.json");
  let outp = dir.path().join("out.json");
  if std::fs::write(&inp, json!({"case": sub}).to_string()).is_err() {
    return;
  }
  let exe = match std::env::current_exe() {
    Ok(e) => e,
    Err(_) => return,
  };
  let child = std::process::Command::new(exe)
    .args(["C16", "--replay", inp.to_str().unwrap_or(""), "--out", outp.to_str().unwrap_or("")])
    .env_remove("VERIF_C16_TRACE")
    .env("VERIF_C16_CHILD", "1")
    .env("VERIF_JOBS", "1")
    .stdin(std::process::Stdio::null())
    .stdout(std::process::Stdio::null())
    .stderr(std::process::Stdio::piped())
    .spawn();
  let Ok(mut child) = child else {
    s.count("isolated.spawn-failed");
    return;
  };
  let t0 = std::time::Instant::now();
  let status = loop {
    match child.try_wait() {
      Ok(Some(st)) => break Some(st),
      Ok(None) if t0.elapsed() > 2 * WATCHDOG + Duration::from_secs(60) => {
        let _ = child.kill();
        let _ = child.wait();
        break None;
      }
      Ok(None) => std::thread::sleep(Duration::from_millis(20)),
      Err(_) => break None,
    }
  };
  let mut stderr = String::new();
  if let Some(mut e) = child.stderr.take() {
    use std::io::Read;
    let _ = e.read_to_string(&mut stderr);
  }
  let label = item["param"].as_str().unwrap_or("?");
  let summary: Option<Value> = std::fs::read_to_string(&outp).ok().and_then(|t| serde_json::from_str(&t).ok());
  match (status, summary) {
    (Some(st), Some(sum)) if st.success() => {
      // the child ran the request in-process: take over its verdicts
      s.case(&reported, true);
      let fs = sum["failures"].as_array().cloned().unwrap_or_default();
      if fs.is_empty() {
        let stream = item["stream"].as_str().unwrap_or("huge");
        let prefix = format!("{stream}.");
        let cls = sum["distribution"].as_object().and_then(|d| d.keys().find(|k| k.starts_with(&prefix)).cloned()).unwrap_or_else(|| format!("{prefix}?"));
        s.count(&format!("isolated.{}", cls.trim_start_matches(&prefix)));
      }
      for f in fs {
        s.count("isolated.panic-or-hang");
        // the panic site of a size problem is inside std: the parameter names the input class
        // (a signature that already names its input class keeps it)
        let child_sig = f["sig"].as_str().unwrap_or("?");
        let sig = if child_sig.contains('@') { child_sig.to_string() } else { format!("{child_sig}@{label}") };
        s.fail(&sig, f["what"].as_str().unwrap_or(""), &reported, f["observed"].clone());
      }
    }
    (st, _) => {
      s.case(&reported, true);
      s.count("isolated.process-died");
      let first = stderr.lines().next().unwrap_or("").to_string();
      let why = if first.contains("memory allocation of") { "alloc" } else if first.contains("stack overflow") || stderr.contains("stack overflow") { "stack-overflow" } else if st.is_none() { "timeout" } else { "died" };
      s.fail(
        &format!("abort.{why}.{label}"),
        "the process running IndexReader::search was killed (no unwinding: abort)",
        &reported,
        json!({"exit": st.map(|x| format!("{x:?}")), "stderr": stderr.chars().take(300).collect::<String>()}),
      );
    }
  }
}

// ---------------------------------------------------------------- the property

fn case_of(rng: &mut Rng, kind: &str, min_docs: usize) -> Value {
  let schema = gen::schema(rng);
  let commits = gen::commits(rng, &schema, min_docs);
  json!({"kind": kind, "schema": schema, "commits": commits, "mem": rng.chance(5, 6), "items": []})
}

impl Prop for C16 {
  fn id(&self) -> &'static str {
    "C16"
  }
  fn rule(&self) -> &'static str {
    "case = random small index (text/keyword/numeric/nested schema, 0-3 commits, deletions, in-memory or filesystem) + 8-12 requests of one stream: structured random requests (all query node types, filters, sorts, 20 aggregation shapes incl. pipelines, highlight, collapse, suggest, rescore, fuzzy, huge numbers, regex/wildcard metacharacters, deep trees, scripts), tree- and character-level mutations of such requests (multi-byte characters, extreme numbers, truncation, deep nesting), rescore requests over several segments whose rescore query rejects window hits, histogram/date_histogram bounds of huge magnitude with zero or small span and zero/sub-millisecond/ordinary steps (a request whose fill loop can never finish runs in a child process), cursor strings (real next_cursor, edited, random hex, odd lengths, non-ASCII at even/odd offsets) on score and field sorts, script_score scripts from an expression grammar plus malformed variants, minimum_should_match specs, and planner-class queries with repeated terms; every request runs in its own thread under catch_unwind with a 30 s watchdog, debug assertions on. A request is non-trivial when it deserialises and reaches IndexReader::search (distinct by index+request JSON). Exploration, not proof: the blanket claim rests on this stream."
  }
  fn count(&self, tier: Tier) -> usize {
    tier.pick(900, 24_000)
  }
  fn gen(&self, rng: &mut Rng, _tier: Tier, i: usize) -> Value {
    // VERIF_C16_ONLY=isolated: exploration knob (every case from the isolated stream)
    if i % 36 == 35 || std::env::var("VERIF_C16_ONLY").as_deref() == Ok("isolated") {
      // one huge size parameter per request, each in a child process
      let mut c = case_of(rng, "isolated", 3);
      let n = 3;
      c["items"] = Value::Array(
        (0..n)
          .map(|_| {
            // only sizes whose allocation fails at once (2^40 elements) or overflows: a size the
            // allocator grants (2^32) would make the child fill tens of GB
            let huge = *rng.pick(&[1u64 << 40, 1u64 << 50, u64::MAX, i64::MAX as u64]);
            let (label, req) = gen::huge_param_request(rng, huge);
            json!({"stream": "huge", "param": label, "req": req})
          })
          .collect(),
      );
      return c;
    }
    if i % 36 == 2 {
      // histogram / date_histogram bounds: huge magnitudes with zero or small span, zero and
      // sub-millisecond steps, offsets
      let mut c = case_of(rng, "req", 1);
      let n = 10 + rng.below(4);
      c["items"] = Value::Array((0..n).map(|_| json!({"stream": "bounds", "req": gen::bounds_request(rng)})).collect());
      return c;
    }
    match i % 12 {
      3 => {
        // rescore on several segments: first-pass rankings that interleave the segments, a
        // rescore query that gives no score to some window hits
        let mut c = case_of(rng, "rescore", 0);
        c["commits"] = gen::commits_multi(rng, &c["schema"].clone());
        let n = 8 + rng.below(4);
        c["items"] = Value::Array(
          (0..n)
            .map(|_| {
              let (rq, all_match) = gen::rescore_query(rng);
              let mut it = json!({"first": gen::first_pass_query(rng), "rq": rq, "all_match": all_match,
                                  "window": gen::small_or_huge(rng, 8), "mode": *rng.pick(&["total", "multiply", "sum", "max", "min"])});
              if rng.chance(1, 4) {
                it["execution"] = json!(*rng.pick(&["bm25", "wand", "bmw"]));
              }
              if rng.chance(1, 6) {
                it["explain"] = json!(true);
              }
              it
            })
            .collect(),
        );
        c
      }
      0..=2 => {
        let mut c = case_of(rng, "req", 0);
        let n = 8 + rng.below(5);
        c["items"] = Value::Array(
          (0..n)
            .map(|_| {
              let mut r = gen::request(rng);
              gen::sanitize(&mut r);
              json!({"stream": "structured", "req": r})
            })
            .collect(),
        );
        c
      }
      4..=6 => {
        let mut c = case_of(rng, "req", 0);
        let n = 8 + rng.below(5);
        c["items"] = Value::Array(
          (0..n)
            .map(|_| {
              let mut r = gen::request(rng);
              if rng.chance(2, 3) {
                let mut budget = 1 + rng.below(3) as i32;
                for _ in 0..8 {
                  gen::mutate_tree(rng, &mut r, &mut budget);
                }
                gen::sanitize(&mut r);
                json!({"stream": "mutated-tree", "req": r})
              } else {
                gen::sanitize(&mut r);
                let raw = gen::mutate_text(rng, &r.to_string());
                let mut parsed: Option<Value> = serde_json::from_str::<Value>(&raw).ok();
                let changed = parsed.as_mut().map(gen::sanitize).unwrap_or(false);
                match parsed {
                  Some(v) if changed => json!({"stream": "mutated-text", "raw": v.to_string()}),
                  _ => json!({"stream": "mutated-text", "raw": raw}),
                }
              }
            })
            .collect(),
        );
        c
      }
      7 | 8 => {
        let mut c = case_of(rng, "cursor", 4);
        let n = 10 + rng.below(4);
        c["items"] = Value::Array(
          (0..n)
            .map(|_| {
              let q = match rng.below(3) {
                0 => json!({"type": "match_all"}),
                1 => json!({"type": "term", "field": "body", "value": *rng.pick(&["rust", "search", "über"])}),
                _ => json!("rust engine"),
              };
              let mut base = json!({"query": q, "limit": 1 + rng.below(3)});
              match rng.below(6) {
                0 => base["sort"] = json!([{"field": "_score", "order": "desc"}]),
                1 => base["sort"] = json!([{"field": "n", "order": "asc"}]),
                2 => base["sort"] = json!([{"field": "tag"}, {"field": "n", "order": "desc"}]),
                3 => base["sort"] = json!([{"field": "x", "order": "desc"}, {"field": "_score"}]),
                _ => {}
              }
              json!({"base": base, "recipe": gen::cursor_recipe(rng)})
            })
            .collect(),
        );
        c
      }
      9 => {
        let mut c = case_of(rng, "script", 1);
        let n = 10 + rng.below(4);
        c["items"] = Value::Array(
          (0..n)
            .map(|_| {
              let params = match rng.below(3) {
                0 => json!({"p": (rng.range(-40, 400) as f64) / 8.0, "w_1": 2.0}),
                1 => json!({"p": 1e300}),
                _ => Value::Null,
              };
              json!({"script": gen::script(rng), "params": params})
            })
            .collect(),
        );
        c
      }
      10 => {
        let mut c = case_of(rng, "msm", 1);
        let n = 10;
        c["items"] = Value::Array(
          (0..n)
            .map(|_| {
              let nt = rng.below(5);
              let text = (0..nt).map(|_| *rng.pick(&["rust", "search", "engine", "fast", "-lite", "über"])).collect::<Vec<_>>().join(" ");
              let op = *rng.pick(&[None, Some("and"), Some("or")]);
              json!({"spec": gen::msm(rng), "text": text, "op": op})
            })
            .collect(),
        );
        c
      }
      _ => {
        let mut c = case_of(rng, "plan", 1);
        let text_fields: Vec<String> = c["schema"]["text_fields"].as_array().unwrap().iter().map(|f| f["name"].as_str().unwrap().to_string()).collect();
        let n = 8 + rng.below(4);
        c["items"] = Value::Array(
          (0..n)
            .map(|_| {
              let (q, m) = gen::plan_query(rng, 2, &text_fields);
              let mut it = json!({"query": q, "model": m});
              if rng.chance(1, 4) {
                it["fields"] = json!([rng.pick(&text_fields)]);
              }
              if rng.chance(1, 2) {
                it["execution"] = json!(*rng.pick(&["bm25", "wand", "bmw"]));
              }
              it
            })
            .collect(),
        );
        c
      }
    }
  }

  fn run_case(&self, drv: &mut Driver, case: &Value, s: &mut Summary) {
    if case["kind"] == json!("isolated") {
      s.count("case.isolated");
      for item in case["items"].as_array().cloned().unwrap_or_default() {
        run_isolated_item(case, &item, s);
      }
      return;
    }
    let mut b = match build(case) {
      Ok(b) => b,
      Err(e) => {
        s.count("case.index-not-built");
        s.notes.push(format!("index of a case could not be built: {e}"));
        return;
      }
    };
    let kind = case["kind"].as_str().unwrap_or("req");
    s.count(&format!("case.{kind}"));
    s.count(&format!("case.segments-{}", b.segments.min(3)));
    let live = match run_text(&mut b, &json!({"query": {"type": "match_all"}, "limit": 1000, "return_stored": false, "highlight_field": null}).to_string()) {
      Out::Ok(v) => v["hits"].as_array().map(|a| a.len()).unwrap_or(0),
      _ => 0,
    };
    for item in case["items"].as_array().cloned().unwrap_or_default() {
      match kind {
        "cursor" => run_cursor_item(&mut b, drv, case, &item, s),
        "script" => run_script_item(&mut b, drv, case, &item, live, s),
        "msm" => run_msm_item(&mut b, drv, case, &item, s),
        "plan" => run_plan_item(&mut b, drv, case, &item, s),
        "rescore" => run_rescore_item(&mut b, drv, case, &item, s),
        _ => run_req_item(&mut b, drv, case, &item, s),
      }
    }
  }

  fn finish(&self, _tier: Tier, s: &mut Summary) {
    s.exhaustive = false;
    s.notes.push("exploration: requests are sampled; only the library API is driven (a panic under extern \"C\" aborts the process, the FFI entry point is covered by C26 with valid requests)".into());
    s.notes.push("histogram/date_histogram bounds are kept unless the fill would really insert > 10^6 buckets (evaluated the way the code evaluates it) (the bucket fill between bounds is unbounded in the code); one-huge-size-parameter requests additionally run in child processes, where an allocation failure (process abort) is observable".into());
  }
}
