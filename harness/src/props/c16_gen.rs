//! C16 generators: schemas, documents, structure-aware requests, mutations.
use crate::rng::Rng;
use serde_json::{json, Map, Value};

pub const WORDS: [&str; 14] =
  ["rust", "search", "engine", "fast", "lite", "index", "über", "日本", "naïve", "x", "rusty", "ruby", "Rust", "e\u{301}t"];
pub const TAGS: [&str; 5] = ["red", "Green", "blue", "ünï", "RED"];
const WEIRD: [&str; 22] = [
  "", " ", "*", "?", "r*", "*t", "r?st", "(", ")", "[a-", "\\", "a{2000}", "(a*)*b", ".*.*.*", "(?i)RUST", "\u{0}", "é", "日本語", "a:b", "-", "\"", "%",
];

pub fn schema(rng: &mut Rng) -> Value {
  let mut text = vec![json!({"name": "body", "analyzer": "default", "stored": true, "indexed": true, "nullable": true})];
  if rng.chance(2, 3) {
    text.push(json!({"name": "title", "analyzer": "default", "stored": rng.chance(2, 3), "indexed": true, "nullable": true}));
  }
  let kw = vec![
    json!({"name": "tag", "stored": true, "indexed": true, "fast": true, "nullable": true}),
    json!({"name": "cat", "stored": true, "indexed": true, "fast": false, "nullable": true}),
  ];
  let num = vec![
    json!({"name": "n", "i64": true, "fast": true, "stored": true, "nullable": true}),
    json!({"name": "x", "i64": false, "fast": true, "stored": true, "nullable": true}),
    json!({"name": "u", "i64": true, "fast": false, "stored": true, "nullable": true}),
  ];
  let mut s = json!({"doc_id_field": "_id", "text_fields": text, "keyword_fields": kw, "numeric_fields": num});
  if rng.chance(1, 2) {
    s["nested_fields"] = json!([{"name": "c", "nullable": true, "fields": [
      {"type": "keyword", "name": "a", "stored": true, "indexed": true, "fast": true, "nullable": true},
      {"type": "numeric", "name": "k", "i64": true, "fast": true, "stored": true, "nullable": true}
    ]}]);
  }
  s
}

pub fn has_field(schema: &Value, name: &str) -> bool {
  ["text_fields", "keyword_fields", "numeric_fields", "nested_fields"]
    .iter()
    .any(|k| schema[*k].as_array().map(|a| a.iter().any(|f| f["name"] == json!(name))).unwrap_or(false))
}

pub fn text_of(rng: &mut Rng, n: usize) -> String {
  (0..n).map(|_| *rng.pick(&WORDS)).collect::<Vec<_>>().join(" ")
}

pub fn doc(rng: &mut Rng, schema: &Value, id: usize) -> Value {
  let mut m = Map::new();
  m.insert("_id".into(), json!(format!("d{id}")));
  if rng.chance(9, 10) {
    let n = 1 + rng.below(8);
    m.insert("body".into(), json!(text_of(rng, n)));
  }
  if has_field(schema, "title") && rng.chance(3, 4) {
    let n = 1 + rng.below(3);
    m.insert("title".into(), json!(text_of(rng, n)));
  }
  match rng.below(5) {
    0 => {}
    1 => {
      m.insert("tag".into(), json!([*rng.pick(&TAGS), *rng.pick(&TAGS)]));
    }
    _ => {
      m.insert("tag".into(), json!(*rng.pick(&TAGS)));
    }
  }
  if rng.chance(1, 2) {
    m.insert("cat".into(), json!(*rng.pick(&["a", "b", "ç"])));
  }
  match rng.below(6) {
    0 => {}
    1 => {
      m.insert("n".into(), json!([rng.range(-5, 50), rng.range(-5, 50)]));
    }
    2 => {
      m.insert("n".into(), json!(*rng.pick(&[i64::MAX, i64::MIN, 0, -1])));
    }
    _ => {
      m.insert("n".into(), json!(rng.range(-5, 50)));
    }
  }
  match rng.below(5) {
    0 => {}
    1 => {
      m.insert("x".into(), json!(*rng.pick(&[1e300, -1e300, 1e-300, 0.0, -0.0])));
    }
    _ => {
      m.insert("x".into(), json!((rng.range(-500, 5000) as f64) / 10.0));
    }
  }
  if rng.chance(1, 3) {
    m.insert("u".into(), json!(rng.range(0, 9)));
  }
  if has_field(schema, "c") && rng.chance(2, 3) {
    let k = rng.below(3);
    let objs: Vec<Value> = (0..=k)
      .map(|_| {
        let mut o = Map::new();
        if rng.chance(3, 4) {
          o.insert("a".into(), json!(*rng.pick(&["p0", "p1", "P2"])));
        }
        if rng.chance(3, 4) {
          o.insert("k".into(), json!(rng.range(0, 5)));
        }
        Value::Object(o)
      })
      .collect();
    m.insert("c".into(), Value::Array(objs));
  }
  Value::Object(m)
}

/// 0–3 commits of 0–8 documents, occasional deletions
pub fn commits(rng: &mut Rng, schema: &Value, min_docs: usize) -> Value {
  let ncommits = if min_docs > 0 { 1 + rng.below(3) } else { rng.below(4) };
  let mut out = Vec::new();
  let mut id = 0;
  for c in 0..ncommits {
    let n = if c == 0 { min_docs + rng.below(7) } else { rng.below(6) };
    let docs: Vec<Value> = (0..n)
      .map(|_| {
        id += 1;
        // occasional upsert of an earlier id
        let use_id = if id > 2 && rng.chance(1, 8) { 1 + rng.below(id - 1) } else { id };
        doc(rng, schema, use_id)
      })
      .collect();
    let mut del = Vec::new();
    if c > 0 && id > 1 && rng.chance(1, 3) {
      del.push(json!(format!("d{}", 1 + rng.below(id))));
    }
    out.push(json!({"add": docs, "delete": del}));
  }
  Value::Array(out)
}

pub fn pk(rng: &mut Rng, xs: &[Value]) -> Value {
  rng.pick(xs).clone()
}

pub fn word(rng: &mut Rng) -> String {
  if rng.chance(1, 7) {
    rng.pick(&WEIRD).to_string()
  } else {
    rng.pick(&WORDS).to_string()
  }
}

pub fn any_field(rng: &mut Rng) -> String {
  rng.pick(&["body", "body", "title", "tag", "cat", "n", "x", "u", "c.a", "c.k", "c", "nope", "", "_id", "_score", "é"]).to_string()
}

pub fn boost(rng: &mut Rng) -> Value {
  match rng.below(12) {
    0 => json!(0.0),
    1 => json!(-1.0),
    2 => json!(3.0e38),
    3 => json!(1e-45),
    4 => json!(-0.0),
    5 => json!(1e39),
    6 => json!(2.5),
    _ => Value::Null,
  }
}

pub fn huge_usize(rng: &mut Rng) -> Value {
  match rng.below(10) {
    0 => json!(0),
    1 => json!(1),
    2 => json!(u64::MAX),
    3 => json!(u32::MAX),
    4 => json!(1u64 << 40),
    5 => json!(i64::MAX),
    6 => json!(50_001),
    7 => json!(20_001),
    _ => json!(rng.below(20)),
  }
}

pub fn small_or_huge(rng: &mut Rng, small: usize) -> Value {
  if rng.chance(1, 6) {
    huge_usize(rng)
  } else {
    json!(rng.below(small + 1))
  }
}

pub fn weird_f64(rng: &mut Rng) -> Value {
  match rng.below(12) {
    0 => json!(0.0),
    1 => json!(-0.0),
    2 => json!(1e308),
    3 => json!(-1e308),
    4 => json!(1e-320),
    5 => json!(-1.0),
    6 => json!(1e-9),
    7 => json!(9.007199254740993e15),
    _ => json!((rng.range(-100, 1000) as f64) / 4.0),
  }
}

// ---------------------------------------------------------------- filters, queries

pub fn filter(rng: &mut Rng, depth: usize) -> Value {
  let k = if depth == 0 { rng.below(5) } else { rng.below(9) };
  match k {
    0 => json!({"KeywordEq": {"field": *rng.pick(&["tag", "cat", "c.a", "body", "nope", "n"]), "value": *rng.pick(&TAGS)}}),
    1 => json!({"KeywordIn": {"field": *rng.pick(&["tag", "cat", "nope"]), "values": [*rng.pick(&TAGS), word(rng)]}}),
    2 => {
      let a = *rng.pick(&[i64::MIN, -3, 0, 7, i64::MAX]);
      let b = *rng.pick(&[i64::MIN, -1, 5, 40, i64::MAX]);
      json!({"I64Range": {"field": *rng.pick(&["n", "u", "c.k", "x", "tag", "nope"]), "min": a, "max": b}})
    }
    3 => json!({"F64Range": {"field": *rng.pick(&["x", "n", "nope"]), "min": weird_f64(rng), "max": weird_f64(rng)}}),
    4 => json!({"And": []}),
    5 => json!({"Not": filter(rng, depth - 1)}),
    6 => json!({"And": [filter(rng, depth - 1), filter(rng, depth - 1)]}),
    7 => json!({"Or": [filter(rng, depth - 1), filter(rng, depth - 1)]}),
    _ => json!({"Nested": {"path": *rng.pick(&["c", "c", "tag", "nope", "c.a"]), "filter": filter(rng, depth - 1)}}),
  }
}

fn with_boost(rng: &mut Rng, mut v: Value) -> Value {
  if rng.chance(1, 4) {
    let b = boost(rng);
    if !b.is_null() {
      v["boost"] = b;
    }
  }
  v
}

/// words of one request: with `dup` drawn with repetition (several scoring clauses share a
/// term key), else without
pub struct Words {
  pool: Vec<String>,
  dup: bool,
}

impl Words {
  pub fn new(rng: &mut Rng, dup: bool) -> Self {
    let mut pool: Vec<String> = WORDS.iter().map(|s| s.to_string()).collect();
    rng.shuffle(&mut pool);
    Words { pool, dup }
  }
  pub fn next(&mut self, rng: &mut Rng) -> String {
    if self.dup || self.pool.is_empty() {
      return word(rng);
    }
    if rng.chance(1, 12) {
      return rng.pick(&WEIRD).to_string();
    }
    self.pool.pop().unwrap()
  }
}

pub fn script(rng: &mut Rng) -> String {
  fn expr(rng: &mut Rng, d: usize) -> String {
    if d == 0 || rng.chance(1, 3) {
      return match rng.below(9) {
        0 => "_score".into(),
        1 => "n".into(),
        2 => "x".into(),
        3 => "p".into(),
        4 => format!("{}", rng.below(100)),
        5 => format!("{}.{}", rng.below(10), rng.below(100)),
        6 => format!("-{}", rng.below(9)),
        7 => ".5".into(),
        _ => "w_1".into(),
      };
    }
    match rng.below(7) {
      0 => format!("({})", expr(rng, d - 1)),
      1 => format!("-{}", expr(rng, d - 1)),
      2 => format!("{} + {}", expr(rng, d - 1), expr(rng, d - 1)),
      3 => format!("{} - {}", expr(rng, d - 1), expr(rng, d - 1)),
      4 => format!("{}*{}", expr(rng, d - 1), expr(rng, d - 1)),
      5 => format!("{} / {}", expr(rng, d - 1), expr(rng, d - 1)),
      _ => format!("({} + {}) * {}", expr(rng, d - 1), expr(rng, d - 1), expr(rng, d - 1)),
    }
  }
  let d0 = 1 + rng.below(4);
  let mut s = expr(rng, d0);
  // malformed variants
  match rng.below(17) {
    13 => s = "()".into(),
    14 => s = format!("( ) {s}"),
    15 => s = "(-)".into(),
    0 => s.push_str(" +"),
    1 => s = format!("({s}"),
    2 => s.push(')'),
    3 => s = s.replace(' ', ""),
    4 => s = "1..2".into(),
    5 => s = "tag + 1".into(),
    6 => s = "u * 2".into(),
    7 => s = format!("{s} é"),
    8 => s = "   ".into(),
    9 => s = "+".into(),
    10 => s = "1 2".into(),
    11 => s = "- - -3".into(),
    12 => s = format!("{} $", s),
    _ => {}
  }
  if rng.chance(1, 40) {
    s = std::iter::repeat("1+").take(70 + rng.below(250)).collect::<String>() + "1";
  }
  if rng.chance(1, 60) {
    s = "9".repeat(400);
  }
  s
}

pub fn msm(rng: &mut Rng) -> Value {
  match rng.below(14) {
    0 => json!(rng.below(5)),
    1 => json!("50%"),
    2 => json!("0%"),
    3 => json!("100%"),
    4 => json!("101%"),
    5 => json!("abc"),
    6 => json!("%"),
    7 => json!("é%"),
    8 => json!(format!("{}.{}%", rng.below(120), rng.below(1000))),
    9 => json!("-5%"),
    10 => json!("1e2%"),
    11 => json!("NaN%"),
    12 => json!("33.3%%"),
    _ => json!(format!("{}%", rng.below(130))),
  }
}

pub fn function_spec(rng: &mut Rng) -> Value {
  let mut f = match rng.below(4) {
    0 => json!({"type": "weight", "weight": *rng.pick(&[0.0, 1.0, 2.5, -1.0, 3e38])}),
    1 => json!({"type": "field_value_factor", "field": *rng.pick(&["n", "x", "u", "tag", "nope"]),
                "factor": *rng.pick(&[1.0, 0.0, -2.0, 1e38]),
                "modifier": *rng.pick(&["none", "log", "log1p", "log2p", "ln", "ln1p", "ln2p", "square", "sqrt", "reciprocal"]),
                "missing": weird_f64(rng)}),
    2 => json!({"type": "field_value_factor", "field": *rng.pick(&["n", "x"])}),
    _ => json!({"type": "decay", "field": *rng.pick(&["n", "x", "nope", "tag"]), "origin": weird_f64(rng), "scale": weird_f64(rng),
                "offset": weird_f64(rng), "decay": *rng.pick(&[0.5, 0.0, 1.0, -1.0, 2.0]), "function": *rng.pick(&["exp", "gauss", "linear"])}),
  };
  if rng.chance(1, 4) {
    f["filter"] = filter(rng, 1);
  }
  f
}

pub fn query(rng: &mut Rng, w: &mut Words, depth: usize) -> Value {
  let leaf = depth == 0 || rng.chance(2, 5);
  let k = if leaf { rng.below(9) } else { 9 + rng.below(6) };
  let v = match k {
    0 => json!({"type": "match_all"}),
    1 => json!({"type": "term", "field": any_field(rng), "value": w.next(rng)}),
    2 => json!({"type": "prefix", "field": *rng.pick(&["body", "title", "tag", "n"]), "value": w.next(rng).chars().take(1 + rng.below(3)).collect::<String>(), "max_expansions": small_or_huge(rng, 5)}),
    3 => json!({"type": "wildcard", "field": *rng.pick(&["body", "title", "tag"]), "value": *rng.pick(&["r*", "*", "?", "r?s*", "**?*", "ü*", "[", "\\", "r*t*y", ""]), "max_expansions": small_or_huge(rng, 5)}),
    4 => json!({"type": "regex", "field": *rng.pick(&["body", "title", "tag"]), "value": *rng.pick(&["ru.*", "r(u|e)st", ".*", "(", "[a-", "a{2000}", "(a*)*b", "\\p{L}+", "(?i)RUST", "", "x{1000}{1000}", "日.*"]), "max_expansions": small_or_huge(rng, 5)}),
    5 => {
      let n = rng.below(4);
      let terms: Vec<String> = (0..n).map(|_| word(rng)).collect();
      let mut p = json!({"type": "phrase", "terms": terms});
      if rng.chance(1, 2) {
        p["field"] = json!(any_field(rng));
      }
      if rng.chance(1, 2) {
        p["slop"] = small_or_huge(rng, 3);
      }
      p
    }
    6 => {
      let mut parts = Vec::new();
      for _ in 0..rng.below(4) {
        let t = w.next(rng);
        parts.push(match rng.below(6) {
          0 => format!("body:{t}"),
          1 => format!("-{t}"),
          2 => format!("\"{} {}\"", t, word(rng)),
          3 => format!("nope:{t}"),
          _ => t,
        });
      }
      if rng.chance(1, 10) {
        parts.push("\"unterminated".into());
      }
      if rng.chance(1, 10) {
        parts.push("\"é:x y\"".into());
      }
      let mut q = json!({"type": "query_string", "query": parts.join(" ")});
      if rng.chance(1, 3) {
        q["fields"] = match rng.below(3) {
          0 => json!(["body"]),
          1 => json!([{"field": "title", "boost": 2.0}, {"field": "body"}]),
          _ => json!([any_field(rng)]),
        };
      }
      q
    }
    7 => {
      let n = rng.below(4);
      let text: Vec<String> = (0..n).map(|_| w.next(rng)).collect();
      let fields = match rng.below(4) {
        0 => json!(["body", "title"]),
        1 => json!([{"field": "body", "boost": boost(rng)}]),
        2 => json!([]),
        _ => json!([any_field(rng), "body"]),
      };
      let mut q = json!({"type": "multi_match", "query": text.join(" "), "fields": fields});
      if rng.chance(2, 3) {
        q["match_type"] = json!(*rng.pick(&["best_fields", "most_fields", "cross_fields"]));
      }
      if rng.chance(1, 3) {
        q["tie_breaker"] = json!(*rng.pick(&[0.0, 0.3, 1.0, 1.5, -0.1]));
      }
      if rng.chance(1, 3) {
        q["operator"] = json!(*rng.pick(&["and", "or"]));
      }
      if rng.chance(1, 2) {
        q["minimum_should_match"] = msm(rng);
      }
      q
    }
    8 => json!({"type": "rank_feature", "field": *rng.pick(&["n", "x", "u", "tag", "nope"]),
                "modifier": pk(rng, &[json!(null), json!({"type":"log"}), json!("log"), json!("saturation"), json!("sigmoid")]),
                "missing": pk(rng, &[json!(null), json!(0.0), json!(-1.0), json!(3e38)])}),
    9 => {
      let mut b = json!({"type": "bool"});
      for key in ["must", "should", "must_not"] {
        if rng.chance(1, 2) {
          let n = 1 + rng.below(2);
          b[key] = Value::Array((0..n).map(|_| query(rng, w, depth - 1)).collect());
        }
      }
      if rng.chance(1, 3) {
        b["filter"] = json!([filter(rng, 1)]);
      }
      if rng.chance(1, 3) {
        b["minimum_should_match"] = small_or_huge(rng, 3);
      }
      b
    }
    10 => {
      let n = rng.below(3);
      json!({"type": "dis_max", "queries": (0..n).map(|_| query(rng, w, depth - 1)).collect::<Vec<_>>(), "tie_breaker": *rng.pick(&[0.0, 0.5, 1.0, 2.0])})
    }
    11 => json!({"type": "constant_score", "filter": filter(rng, 2)}),
    12 => {
      let nf = rng.below(3);
      let mut q = json!({"type": "function_score", "query": query(rng, w, depth - 1), "functions": (0..nf).map(|_| function_spec(rng)).collect::<Vec<_>>()});
      if rng.chance(1, 2) {
        q["score_mode"] = json!(*rng.pick(&["sum", "multiply", "max", "min", "avg", "first"]));
      }
      if rng.chance(1, 2) {
        q["boost_mode"] = json!(*rng.pick(&["multiply", "sum", "replace", "max", "min", "avg"]));
      }
      if rng.chance(1, 3) {
        q["max_boost"] = json!(*rng.pick(&[0.0, 1.0, -1.0, 3e38]));
      }
      if rng.chance(1, 3) {
        q["min_score"] = json!(*rng.pick(&[0.0, 1.0, -1.0, 3e38]));
      }
      q
    }
    13 => {
      let mut q = json!({"type": "script_score", "query": query(rng, w, depth - 1), "script": script(rng)});
      if rng.chance(1, 2) {
        q["params"] = json!({"p": weird_f64(rng), "w_1": 2.0});
      }
      q
    }
    _ => {
      // deep chain
      let span = if rng.chance(1, 8) { 38 } else { 6 };
      let d = 2 + rng.below(span);
      let mut q = json!({"type": "term", "field": "body", "value": w.next(rng)});
      for i in 0..d {
        q = if i % 2 == 0 { json!({"type": "bool", "must": [q]}) } else { json!({"type": "dis_max", "queries": [q]}) };
      }
      q
    }
  };
  with_boost(rng, v)
}

pub fn sort(rng: &mut Rng) -> Value {
  let one = |rng: &mut Rng| {
    let mut s = json!({"field": *rng.pick(&["_score", "tag", "n", "x", "cat", "u", "body", "c.k", "c.a", "nope"])});
    if rng.chance(1, 2) {
      s["order"] = json!(*rng.pick(&["asc", "desc"]));
    }
    s
  };
  match rng.below(8) {
    0 | 1 | 2 => json!([]),
    3 => json!([{"field": "_score", "order": "asc"}]),
    4 => json!([one(rng), one(rng)]),
    _ => json!([one(rng)]),
  }
}

// ---------------------------------------------------------------- aggregations and the rest of a request

fn num_field(rng: &mut Rng) -> &'static str {
  *rng.pick(&["n", "x", "n", "x", "u", "tag", "nope", "c.k"])
}
fn kw_field(rng: &mut Rng) -> &'static str {
  *rng.pick(&["tag", "tag", "tag", "cat", "n", "nope", "c.a", "body"])
}

fn sub_aggs(rng: &mut Rng, depth: usize) -> Value {
  let mut m = Map::new();
  let n = if depth == 0 { 0 } else { rng.below(3) };
  for i in 0..n {
    m.insert(format!("s{i}"), agg(rng, depth - 1));
  }
  Value::Object(m)
}

fn pipeline(rng: &mut Rng) -> Value {
  let path = *rng.pick(&["s0", "_count", "s0.avg", "s0>s1", "nope", "", "s0.value", "h>s0"]);
  match rng.below(6) {
    0 => json!({"type": "avg_bucket", "buckets_path": path}),
    1 => json!({"type": "sum_bucket", "buckets_path": path}),
    2 => json!({"type": "derivative", "buckets_path": path, "gap_policy": *rng.pick(&["Skip", "InsertZeros", "skip", "insert_zeros"]), "unit": weird_f64(rng)}),
    3 => json!({"type": "moving_avg", "buckets_path": path, "window": small_or_huge(rng, 4), "predict": small_or_huge(rng, 4)}),
    4 => json!({"type": "bucket_script", "buckets_path": {"a": path, "b": "_count"}, "script": *rng.pick(&["a + b", "a / b", "a /", "b * 1e308 * 1e308", "(a", "c", ""])}),
    _ => json!({"type": "bucket_sort", "sort": [{(*rng.pick(&["_count", "_key", "s0", "nope"])).to_string(): *rng.pick(&["asc", "desc"])}], "from": small_or_huge(rng, 3), "size": small_or_huge(rng, 3)}),
  }
}

pub fn agg(rng: &mut Rng, depth: usize) -> Value {
  let mut a = match rng.below(20) {
    0 => json!({"type": "terms", "field": kw_field(rng), "size": small_or_huge(rng, 5), "shard_size": small_or_huge(rng, 5),
                "min_doc_count": small_or_huge(rng, 2), "missing": pk(rng, &[json!(null), json!("none"), json!(3), json!([1])])}),
    1 => json!({"type": "range", "field": num_field(rng), "keyed": rng.chance(1, 2), "ranges": [
                {"key": pk(rng, &[json!(null), json!("a"), json!("")]), "from": weird_f64(rng), "to": weird_f64(rng)}, {"from": null, "to": null}, {"to": 5.0}],
                "missing": pk(rng, &[json!(null), json!(1.5), json!("x")])}),
    2 => json!({"type": "histogram", "field": num_field(rng), "interval": *rng.pick(&[1.0, 5.0, 0.0, -1.0, 1e-9, 1e308, 0.5, 1e-320]),
                "offset": pk(rng, &[json!(null), json!(0.5), json!(-3.0), json!(1e308)]), "min_doc_count": small_or_huge(rng, 1),
                "extended_bounds": pk(rng, &[json!(null), json!({"min": 0.0, "max": 20.0}), json!({"min": 10.0, "max": -10.0}), json!({"min": -1e3, "max": 1e3}), json!({"min": 0.0, "max": 1e5})]),
                "hard_bounds": pk(rng, &[json!(null), json!({"min": 0.0, "max": 10.0}), json!({"min": 5.0, "max": 1.0})]),
                "missing": pk(rng, &[json!(null), json!(0.0), json!(-1e300)])}),
    3 => json!({"type": "date_histogram", "field": num_field(rng),
                "calendar_interval": pk(rng, &[json!(null), json!("month"), json!("day"), json!("year"), json!("week"), json!("quarter"), json!("1M"), json!("bogus"), json!("")]),
                "fixed_interval": pk(rng, &[json!(null), json!("1d"), json!("1ms"), json!("0s"), json!("-1h"), json!("999999999999d"), json!("1x"), json!("é")]),
                "offset": pk(rng, &[json!(null), json!("+1h"), json!("-30m"), json!("x")]), "format": pk(rng, &[json!(null), json!("%Y-%m-%d"), json!("%Q"), json!("yyyy")]),
                "min_doc_count": small_or_huge(rng, 1),
                "extended_bounds": pk(rng, &[json!(null), json!({"min": "1970-01-01T00:00:00Z", "max": "1970-01-02T00:00:00Z"}), json!({"min": "x", "max": "y"}), json!({"min": "0", "max": "5000"})]),
                "hard_bounds": json!(null), "missing": pk(rng, &[json!(null), json!("1970-01-01T00:00:00Z"), json!("zzz")])}),
    4 => json!({"type": "date_range", "field": num_field(rng), "keyed": rng.chance(1, 2), "format": pk(rng, &[json!(null), json!("%Y"), json!("%")]),
                "ranges": [{"key": null, "from": pk(rng, &[json!(null), json!("1970-01-01T00:00:00Z"), json!("now"), json!("é")]), "to": pk(rng, &[json!(null), json!("1970-01-01"), json!("5")])}],
                "missing": pk(rng, &[json!(null), json!("x")])}),
    5 => json!({"type": *rng.pick(&["stats", "extended_stats", "value_count"]), "field": num_field(rng), "missing": pk(rng, &[json!(null), json!(1), json!("x"), json!(1e308)])}),
    6 => json!({"type": "cardinality", "field": *rng.pick(&["tag", "n", "x", "cat", "nope"]), "precision_threshold": small_or_huge(rng, 100), "missing": pk(rng, &[json!(null), json!("z"), json!(7)])}),
    7 => json!({"type": "percentiles", "field": num_field(rng), "percents": pk(rng, &[json!(null), json!([50.0]), json!([]), json!([-1.0, 101.0, 1e308]), json!([0.0, 100.0])])}),
    8 => json!({"type": "percentile_ranks", "field": num_field(rng), "values": pk(rng, &[json!([1.0]), json!([]), json!([-1e308, 1e308])])}),
    9 => json!({"type": "top_hits", "size": small_or_huge(rng, 3), "from": small_or_huge(rng, 3), "fields": pk(rng, &[json!(null), json!(["body"]), json!(["nope", ""])]),
                "sort": sort(rng), "highlight_field": pk(rng, &[json!(null), json!("body"), json!("tag"), json!("nope")])}),
    10 => json!({"type": "filter", "filter": filter(rng, 2)}),
    11 => json!({"type": "composite", "size": small_or_huge(rng, 4), "sources": *rng.pick(&[
                json!([{"type": "terms", "name": "t", "field": "tag"}]),
                json!([{"type": "terms", "name": "t", "field": "tag"}, {"type": "histogram", "name": "h", "field": "n", "interval": 5.0}]),
                json!([{"type": "histogram", "name": "h", "field": "x", "interval": 0.0}]),
                json!([{"type": "histogram", "name": "h", "field": "n", "interval": -2.0}]),
                json!([{"type": "histogram", "name": "h", "field": "x", "interval": 1e-300}]),
                json!([]),
                json!([{"type": "terms", "name": "t", "field": "nope"}]),
                json!([{"type": "terms", "name": "t", "field": "tag"}, {"type": "terms", "name": "t", "field": "tag"}])]),
                "after": pk(rng, &[json!(null), json!({"t": "blue"}), json!({"t": 5}), json!({"h": 5.0}), json!({"t": "blue", "h": "x"}), json!([1]), json!({"zz": null}), json!({"t": "ünï", "h": 1e308})])}),
    12 => json!({"type": "significant_terms", "field": kw_field(rng), "size": small_or_huge(rng, 4), "min_doc_count": small_or_huge(rng, 2),
                 "background_filter": pk(rng, &[json!(null), json!({"KeywordEq": {"field": "tag", "value": "red"}}), json!({"And": []})])}),
    13 => json!({"type": "rare_terms", "field": kw_field(rng), "max_doc_count": small_or_huge(rng, 3), "size": small_or_huge(rng, 4)}),
    14 | 15 => pipeline(rng),
    16 => json!({"type": "histogram", "field": "n", "interval": 5.0, "aggs": {"s0": {"type": "stats", "field": "x"}, "p": pipeline(rng), "q": pipeline(rng)}}),
    17 => json!({"type": "terms", "field": "tag", "aggs": {"s0": {"type": "value_count", "field": "n"}, "p": pipeline(rng)}}),
    18 => json!({"type": "date_histogram", "field": "n", "fixed_interval": "1ms", "aggs": {"s0": {"type": "stats", "field": "x"}, "p": pipeline(rng)}}),
    _ => json!({"type": "bogus"}),
  };
  let bucketing = matches!(a["type"].as_str(), Some("terms" | "range" | "histogram" | "date_histogram" | "date_range" | "filter" | "composite" | "significant_terms" | "rare_terms"));
  if bucketing && a.get("aggs").is_none() && depth > 0 && rng.chance(1, 2) {
    a["aggs"] = sub_aggs(rng, depth);
  }
  if bucketing && rng.chance(1, 6) {
    a["sampling"] = json!({"size": small_or_huge(rng, 3), "probability": pk(rng, &[json!(null), json!(0.5), json!(0.0), json!(1.0), json!(2.0), json!(-1.0)]), "seed": rng.below(5)});
  }
  a
}

pub fn highlight(rng: &mut Rng) -> Value {
  let mut fields = Map::new();
  for f in ["body", "title", "tag", "nope"] {
    if rng.chance(1, 2) {
      fields.insert(f.to_string(), json!({
        "pre_tag": *rng.pick(&["<em>", "", "é", "$0", "\\"]), "post_tag": *rng.pick(&["</em>", "", "日"]),
        "fragment_size": small_or_huge(rng, 30), "number_of_fragments": small_or_huge(rng, 3)}));
    }
  }
  json!({"fields": fields})
}

/// one structure-aware request
pub fn request(rng: &mut Rng) -> Value {
  // repeated words / the same term in several scoring clauses: fine since /repo 458e503
  let dup = rng.chance(1, 2);
  let mut w = Words::new(rng, dup);
  let q = if rng.chance(1, 6) {
    let n = rng.below(4);
    json!((0..n).map(|_| w.next(rng)).collect::<Vec<_>>().join(" "))
  } else {
    query(rng, &mut w, 3)
  };
  let mut r = json!({"query": q, "limit": if rng.chance(1, 8) { huge_usize(rng) } else { json!(1 + rng.below(6)) },
                     "return_stored": rng.chance(1, 2), "highlight_field": pk(rng, &[json!(null), json!(null), json!("body"), json!("title"), json!("tag"), json!("nope")])});
  if rng.chance(1, 3) {
    r["execution"] = json!(*rng.pick(&["bm25", "wand", "bmw"]));
  }
  if rng.chance(1, 5) {
    r["bmw_block_size"] = small_or_huge(rng, 4);
  }
  if rng.chance(1, 4) {
    r["filter"] = filter(rng, 2);
  }
  if rng.chance(1, 2) {
    r["sort"] = sort(rng);
  }
  if rng.chance(1, 5) {
    r["fields"] = pk(rng, &[json!(["body"]), json!(["title", "body"]), json!([]), json!(["nope"]), json!(["tag", "n"])]);
  }
  if rng.chance(1, 6) {
    r["candidate_size"] = small_or_huge(rng, 10);
  }
  if rng.chance(1, 8) {
    r["return_hits"] = json!(false);
  }
  if rng.chance(1, 5) {
    r["fuzzy"] = json!({"max_edits": *rng.pick(&[0, 1, 2, 3, 255]), "prefix_length": small_or_huge(rng, 3), "max_expansions": small_or_huge(rng, 5), "min_length": small_or_huge(rng, 4)});
  }
  if rng.chance(1, 3) {
    let mut m = Map::new();
    for i in 0..(1 + rng.below(3)) {
      m.insert(format!("a{i}"), agg(rng, 2));
    }
    r["aggs"] = Value::Object(m);
  }
  if rng.chance(1, 5) {
    r["highlight"] = highlight(rng);
  }
  if rng.chance(1, 8) {
    r["collapse"] = json!({"field": *rng.pick(&["tag", "cat", "n", "nope"]),
      "inner_hits": pk(rng, &[json!(null), json!({"size": 2}), json!({"size": 0, "from": 5}), json!({"size": 18446744073709551615u64, "from": 18446744073709551615u64, "sort": [{"field": "n"}]})])});
  }
  if rng.chance(1, 8) {
    r["suggest"] = json!({"s": {"type": "completion", "field": *rng.pick(&["body", "tag", "nope", "n"]), "prefix": *rng.pick(&["r", "", "ü", "日", "rus", "*"]),
      "size": small_or_huge(rng, 3), "fuzzy": pk(rng, &[json!(null), json!({"max_edits": 2}), json!({"max_edits": 1, "prefix_length": 0, "min_length": 0, "max_expansions": 0})])}});
  }
  if rng.chance(1, 8) {
    // half of the rescore queries reject documents (no score), the rest are arbitrary queries
    let rq = if rng.chance(1, 2) { rescore_query(rng).0 } else { query(rng, &mut w, 1) };
    r["rescore"] = json!({"window_size": small_or_huge(rng, 5), "query": rq, "score_mode": *rng.pick(&["total", "multiply", "sum", "max", "min"])});
  }
  if rng.chance(1, 8) {
    r["explain"] = json!(true);
  }
  if rng.chance(1, 10) {
    r["profile"] = json!(true);
  }
  if rng.chance(1, 10) {
    r["cursor"] = json!(*rng.pick(&["", "zz", "00", "0100000000000000000000000000000000000000ff", "7b7d", "é"]));
  }
  r
}

// ---------------------------------------------------------------- mutations of a valid request

const MB: [char; 8] = ['é', '日', 'ß', '\u{301}', '😀', '\u{0}', '\u{7f}', 'İ'];
const NUMS: [&str; 14] = ["0", "-1", "1e308", "1e400", "-0.0", "18446744073709551615", "18446744073709551616", "9223372036854775807", "-9223372036854775808", "4294967296", "0.1", "1e-400", "340282350000000000000000000000000000000", "3.5e38"];

/// structure-aware: change one leaf / container of the JSON tree
pub fn mutate_tree(rng: &mut Rng, v: &mut Value, budget: &mut i32) {
  if *budget <= 0 {
    return;
  }
  match v {
    Value::Object(m) => {
      let keys: Vec<String> = m.keys().cloned().collect();
      if keys.is_empty() {
        return;
      }
      let k = rng.pick(&keys).clone();
      match rng.below(10) {
        0 => {
          m.remove(&k);
          *budget -= 1;
        }
        1 => {
          if let Some(x) = m.remove(&k) {
            m.insert(format!("{k}{}", rng.pick(&MB)), x);
          }
          *budget -= 1;
        }
        2 => {
          let other = rng.pick(&keys).clone();
          if let Some(x) = m.get(&other).cloned() {
            m.insert(k, x);
          }
          *budget -= 1;
        }
        _ => {
          if let Some(x) = m.get_mut(&k) {
            mutate_tree(rng, x, budget);
          }
        }
      }
    }
    Value::Array(a) => match rng.below(6) {
      0 => {
        a.clear();
        *budget -= 1;
      }
      1 if !a.is_empty() => {
        let x = a[rng.below(a.len())].clone();
        for _ in 0..(1 + rng.below(4)) {
          a.push(x.clone());
        }
        *budget -= 1;
      }
      2 => {
        a.push(Value::Null);
        *budget -= 1;
      }
      _ if !a.is_empty() => {
        let i = rng.below(a.len());
        mutate_tree(rng, &mut a[i], budget);
      }
      _ => {}
    },
    Value::String(s) => {
      *budget -= 1;
      match rng.below(7) {
        0 => *s = String::new(),
        1 => s.push(*rng.pick(&MB)),
        2 => *s = format!("{}{}", rng.pick(&MB), s),
        3 => *s = rng.pick(&WEIRD).to_string(),
        4 => *s = s.repeat(1 + rng.below(40)),
        5 => {
          let cs: Vec<char> = s.chars().collect();
          if !cs.is_empty() {
            let i = rng.below(cs.len());
            *s = cs.iter().enumerate().map(|(j, c)| if j == i { *rng.pick(&MB) } else { *c }).collect();
          }
        }
        _ => *s = s.to_uppercase(),
      }
    }
    Value::Number(_) => {
      *budget -= 1;
      let n: &str = *rng.pick(&NUMS[..]);
      *v = serde_json::from_str(n).unwrap_or(Value::Null);
    }
    Value::Bool(b) => {
      *budget -= 1;
      *v = if rng.chance(1, 3) { Value::Null } else { Value::Bool(!*b) };
    }
    Value::Null => {
      *budget -= 1;
      *v = match rng.below(4) {
        0 => json!(0),
        1 => json!(""),
        2 => json!([]),
        _ => json!({}),
      };
    }
  }
}

/// character-level: edit the serialised text (may stop being JSON)
pub fn mutate_text(rng: &mut Rng, text: &str) -> String {
  let mut cs: Vec<char> = text.chars().collect();
  if cs.is_empty() {
    return String::new();
  }
  for _ in 0..(1 + rng.below(3)) {
    let i = rng.below(cs.len());
    match rng.below(8) {
      0 => cs[i] = *rng.pick(&MB),
      1 => cs.insert(i, *rng.pick(&MB)),
      2 => {
        cs.remove(i);
      }
      3 => {
        let j = (i + 1 + rng.below(12)).min(cs.len());
        let span: Vec<char> = cs[i..j].to_vec();
        for (k, c) in span.into_iter().enumerate() {
          cs.insert(j + k, c);
        }
      }
      4 => {
        // replace the number starting here (if any) by an extreme one
        if cs[i].is_ascii_digit() {
          let mut j = i;
          while j < cs.len() && (cs[j].is_ascii_digit() || cs[j] == '.' || cs[j] == 'e' || cs[j] == '-' || cs[j] == '+') {
            j += 1;
          }
          let n: &str = *rng.pick(&NUMS[..]);
          let rep: Vec<char> = n.chars().collect();
          cs.splice(i..j, rep);
        }
      }
      5 => cs.truncate(i.max(1)),
      6 => cs[i] = *rng.pick(&['"', '{', '}', '[', ']', ',', ':', '\\']),
      _ => {
        let deep = 10 + rng.below(200);
        let open: Vec<char> = std::iter::repeat('[').take(deep).collect();
        cs.splice(i..i, open);
      }
    }
    if cs.is_empty() {
      break;
    }
  }
  cs.into_iter().collect()
}

// ---------------------------------------------------------------- cursor strings

fn hex_string(rng: &mut Rng, n: usize) -> String {
  (0..n).map(|_| *rng.pick(&['0', '1', '2', '7', '9', 'a', 'c', 'f', 'A', 'F', '0', '0'])).collect()
}

/// a cursor recipe: either a literal string or an edit of the real `next_cursor`
pub fn cursor_recipe(rng: &mut Rng) -> Value {
  match rng.below(16) {
    0 => json!({"from_next": true}),
    1 => json!({"from_next": true, "set": [rng.below(60), *rng.pick(&["0", "f", "7", "A", "+", "g", "é", " ", "-"])]}),
    2 => json!({"from_next": true, "set": [rng.below(10), *rng.pick(&["0", "1", "2", "f", "+"])]}),
    3 => json!({"from_next": true, "truncate": rng.below(60)}),
    4 => json!({"from_next": true, "append": *rng.pick(&["0", "00", "é", "zz", "+1"])}),
    5 => json!({"lit": hex_string(rng, 42)}),
    6 => json!({"lit": format!("01{}", hex_string(rng, 40))}),
    7 => {
      let n = rng.below(90);
      json!({"lit": hex_string(rng, n)})
    }
    8 => json!({"lit": format!("a{}b", "é".repeat(20))}),
    9 => {
      // 42 bytes with multi-byte characters at even / odd offsets
      let lead = rng.below(5);
      let mut s = hex_string(rng, lead);
      while s.len() < 42 {
        if s.len() <= 40 && rng.chance(1, 3) {
          s.push(*rng.pick(&['é', 'ß', 'ü']));
        } else {
          s.push(*rng.pick(&['0', '1', 'f', 'z']));
        }
      }
      json!({"lit": s})
    }
    10 => {
      let n = 2 * rng.below(8);
      json!({"lit": format!("{}日本", hex_string(rng, n))})
    }
    11 => {
      let (a, b) = (1 + 2 * rng.below(4), 1 + 2 * rng.below(4));
      let (x, y) = (hex_string(rng, a), hex_string(rng, b));
      json!({"lit": format!("{x}é{y}")})
    }
    12 => json!({"lit": *rng.pick(&["", "0", "+1", "++", "-1", "7b7d", "7B7D", "5b5d", "6e756c6c", "+7b+7d"])}),
    13 => json!({"from_next": true, "upper": true}),
    14 => json!({"lit": format!("+1{}", hex_string(rng, 40))}),
    _ => json!({"lit": format!("{}😀{}", hex_string(rng, 19), hex_string(rng, 19))}),
  }
}

// ---------------------------------------------------------------- queries of the planner-model class

/// (request query JSON, model query JSON); terms are plain words so that analysis is the
/// default analyzer on text fields and lower-casing on keyword fields
pub fn plan_query(rng: &mut Rng, depth: usize, text_fields: &[String]) -> (Value, Value) {
  let words = ["rust", "search", "Rust", "engine", "über", "fast"];
  let field = |rng: &mut Rng| -> String {
    match rng.below(6) {
      0 => "tag".into(),
      1 => "n".into(),
      2 => "nope".into(),
      _ => rng.pick(text_fields).clone(),
    }
  };
  let k = if depth == 0 { rng.below(5) } else { rng.below(9) };
  match k {
    0 | 1 => {
      let f = field(rng);
      let v = *rng.pick(&words);
      (json!({"type": "term", "field": f, "value": v}), json!({"t": "term", "exp": "exact", "field": f, "value": v}))
    }
    2 => (json!({"type": "match_all"}), json!({"t": "match_all"})),
    3 => {
      // query string: terms, explicit fields, negations
      let n = 1 + rng.below(3);
      let mut parts = Vec::new();
      for _ in 0..n {
        let w = *rng.pick(&words);
        parts.push(match rng.below(5) {
          0 => format!("{}:{w}", field(rng)),
          1 => format!("-{w}"),
          _ => w.to_string(),
        });
      }
      let text = parts.join(" ");
      let fields: Option<Vec<String>> = if rng.chance(1, 3) { Some(vec![field(rng)]) } else { None };
      let mut q = json!({"type": "query_string", "query": text});
      if let Some(f) = &fields {
        q["fields"] = json!(f);
      }
      (q, json!({"t": "qs_text", "text": text, "fields": fields}))
    }
    4 => {
      let n = 1 + rng.below(2);
      let text: Vec<&str> = (0..n).map(|_| *rng.pick(&words)).collect();
      let text = text.join(" ");
      let nf = 1 + rng.below(2);
      let fields: Vec<String> = (0..nf).map(|_| field(rng)).collect();
      let kind = *rng.pick(&["best_fields", "most_fields", "cross_fields"]);
      (
        json!({"type": "multi_match", "query": text, "fields": fields, "match_type": kind}),
        json!({"t": "mm_text", "kind": kind.trim_end_matches("_fields"), "text": text, "fields": fields}),
      )
    }
    5 => {
      let mut req = json!({"type": "bool"});
      let mut mdl = json!({"t": "bool", "must": [], "should": [], "must_not": []});
      for key in ["must", "should", "must_not"] {
        let n = rng.below(3);
        let mut rs = Vec::new();
        let mut ms = Vec::new();
        for _ in 0..n {
          let (r, m) = plan_query(rng, depth - 1, text_fields);
          rs.push(r);
          ms.push(m);
        }
        req[key] = json!(rs);
        mdl[key] = json!(ms);
      }
      (req, mdl)
    }
    6 => {
      let n = 1 + rng.below(3);
      let mut rs = Vec::new();
      let mut ms = Vec::new();
      for _ in 0..n {
        let (r, m) = plan_query(rng, depth - 1, text_fields);
        rs.push(r);
        ms.push(m);
      }
      (json!({"type": "dis_max", "queries": rs}), json!({"t": "dis_max", "queries": ms}))
    }
    7 => {
      let (r, m) = plan_query(rng, depth - 1, text_fields);
      (json!({"type": "function_score", "query": r, "functions": [{"type": "weight", "weight": 2.0}]}), json!({"t": "fs", "q": m}))
    }
    _ => (json!({"type": "constant_score", "filter": {"KeywordEq": {"field": "tag", "value": "red"}}}), json!({"t": "constant"})),
  }
}


// ---------------------------------------------------------------- harness safety

/// `parse_interval_seconds` of aggs/mod.rs: leading digits/'.', then unit ""|s|ms|m|h|d|w
pub fn interval_seconds(spec: &str) -> Option<f64> {
  let idx: usize = spec.chars().take_while(|c| c.is_ascii_digit() || *c == '.').map(|c| c.len_utf8()).sum();
  if idx == 0 {
    return None;
  }
  let value: f64 = spec[..idx].parse().ok()?;
  let mult = match &spec[idx..] {
    "" | "s" => 1.0,
    "ms" => 0.001,
    "m" => 60.0,
    "h" => 3600.0,
    "d" => 86_400.0,
    "w" => 604_800.0,
    _ => return None,
  };
  Some(value * mult)
}

/// `parse_date` for the strings this harness produces (RFC 3339 of the two known instants,
/// else a float); `Err` = a date-like string this function cannot evaluate
fn date_ms(v: &Value) -> Result<Option<f64>, ()> {
  let Some(s) = v.as_str() else { return Ok(None) };
  match s {
    "1970-01-01T00:00:00Z" => Ok(Some(0.0)),
    "1970-01-02T00:00:00Z" => Ok(Some(86_400_000.0)),
    _ => match s.parse::<f64>() {
      Ok(x) => Ok(Some(x)),
      Err(_) if s.contains('T') && s.contains('-') && s.contains(':') => Err(()),
      Err(_) => Ok(None),
    },
  }
}

/// what the bucket fill between the bounds of one histogram-like aggregation does in the code
#[derive(Debug, Clone, PartialEq)]
pub enum Fill {
  /// no bounds, or the request is rejected before any fill (validation / serde)
  NoFill,
  /// the loop runs about this many times (it may stop earlier on an overflow check);
  /// `ends` = (start, end, step) as the code computes them (numeric: step 1; calendar: none)
  Count(u128, Option<(i64, i64, i64)>),
  /// the loop can never leave (step of 0 ms)
  Never,
  /// cannot be evaluated here
  Unknown,
}

fn num_bounds(m: &Map<String, Value>, k: &str) -> Result<Option<(f64, f64)>, ()> {
  match m.get(k) {
    None | Some(Value::Null) => Ok(None),
    Some(b) => match (b["min"].as_f64(), b["max"].as_f64()) {
      (Some(lo), Some(hi)) if b["min"].is_number() && b["max"].is_number() => Ok(Some((lo, hi))),
      _ => Err(()), // not a HistogramBounds: serde rejects the request
    },
  }
}

/// numeric `histogram`: `bucket_key(min) ..= bucket_key(max)`
fn histogram_fill(m: &Map<String, Value>) -> Fill {
  let Some(interval) = m.get("interval").and_then(|i| i.as_f64()) else { return Fill::NoFill };
  if !(interval > 0.0) {
    return Fill::NoFill;
  }
  let (ext, hard) = match (num_bounds(m, "extended_bounds"), num_bounds(m, "hard_bounds")) {
    (Ok(e), Ok(h)) => (e, h),
    _ => return Fill::NoFill,
  };
  if ext.map(|(a, b)| a > b).unwrap_or(false) || hard.map(|(a, b)| a > b).unwrap_or(false) {
    return Fill::NoFill;
  }
  if let (Some(e), Some(h)) = (ext, hard) {
    if e.0 < h.0 || e.1 > h.1 {
      return Fill::NoFill;
    }
  }
  let Some((min, max)) = ext.or(hard) else { return Fill::NoFill };
  let offset = match m.get("offset") {
    None | Some(Value::Null) => 0.0,
    Some(o) => match o.as_f64() {
      Some(x) => x,
      None => return Fill::NoFill,
    },
  };
  let key = |v: f64| ((v - offset) / interval).floor() as i64;
  let (start, end) = (key(min), key(max));
  if start > end {
    return Fill::Count(0, Some((start, end, 1)));
  }
  Fill::Count((end as i128 - start as i128 + 1) as u128, Some((start, end, 1)))
}

/// `date_histogram`: calendar unit or fixed step in whole milliseconds
/// parsed configuration of a `date_histogram` with bounds: (calendar unit ms, step ms, offset ms, lo, hi)
fn date_parse(m: &Map<String, Value>) -> Result<(Option<f64>, i64, i64, i64, i64), Fill> {
  let str_of = |k: &str| -> Result<Option<String>, ()> {
    match m.get(k) {
      None | Some(Value::Null) => Ok(None),
      Some(Value::String(s)) => Ok(Some(s.clone())),
      Some(_) => Err(()),
    }
  };
  let (Ok(cal), Ok(fixed), Ok(offset)) = (str_of("calendar_interval"), str_of("fixed_interval"), str_of("offset")) else { return Err(Fill::NoFill) };
  if cal.is_none() && fixed.is_none() {
    return Err(Fill::NoFill);
  }
  let cal_ms: Option<f64> = match cal.as_deref().map(|c| c.to_ascii_lowercase()) {
    None => None,
    Some(c) => match c.as_str() {
      "day" | "1d" => Some(86_400_000.0),
      "week" | "1w" => Some(604_800_000.0),
      "month" | "1m" => Some(28.0 * 86_400_000.0),
      "quarter" | "1q" => Some(89.0 * 86_400_000.0),
      "year" | "1y" => Some(365.0 * 86_400_000.0),
      _ => return Err(Fill::NoFill),
    },
  };
  let fixed_ms: Option<i64> = match fixed.as_deref() {
    None => None,
    Some(f) => match interval_seconds(f) {
      Some(sec) => Some((sec * 1000.0) as i64),
      None => return Err(Fill::NoFill),
    },
  };
  let off: i64 = match offset.as_deref() {
    None => 0,
    Some(o) => match interval_seconds(o) {
      Some(sec) => (sec * 1000.0) as i64,
      None => return Err(Fill::NoFill),
    },
  };
  let mut chosen: Option<(f64, f64)> = None;
  for k in ["extended_bounds", "hard_bounds"] {
    match m.get(k) {
      None | Some(Value::Null) => {}
      Some(b) => {
        if !b["min"].is_string() || !b["max"].is_string() {
          return Err(Fill::NoFill);
        }
        match (date_ms(&b["min"]), date_ms(&b["max"])) {
          (Ok(Some(lo)), Ok(Some(hi))) => {
            if lo > hi {
              return Err(Fill::NoFill);
            }
            if chosen.is_none() {
              chosen = Some((lo, hi));
            }
          }
          (Err(()), _) | (_, Err(())) => return Err(Fill::Unknown),
          _ => return Err(Fill::NoFill),
        }
      }
    }
  }
  let Some((lo, hi)) = chosen else { return Err(Fill::NoFill) };
  let (lo, hi) = (lo as i64, hi as i64);
  Ok((cal_ms, fixed_ms.unwrap_or(86_400_000), off, lo, hi))
}

/// the float step of `bucket_start`: `(d as f64 / step as f64).ceil() as i64`
pub fn bucket_of(d: i64, step: i64) -> i64 {
  (d as f64 / step as f64).ceil() as i64
}

/// `bucket_start(value, offset, Fixed(step))` since /repo d7457e1: every step checked
pub fn bucket_start(v: i64, off: i64, step: i64) -> Option<i64> {
  let d = v.checked_sub(off)?;
  bucket_of(d, step).checked_mul(step)?.checked_add(off)
}

/// inputs of the fixed-step fill of a bounded `date_histogram`: (step, offset, lo, hi)
pub fn date_inputs(m: &Map<String, Value>) -> Option<(i64, i64, i64, i64)> {
  match date_parse(m) {
    Ok((None, step, off, lo, hi)) => Some((step, off, lo, hi)),
    _ => None,
  }
}

/// `date_histogram`: calendar unit or fixed step in whole milliseconds
fn date_histogram_fill(m: &Map<String, Value>) -> Fill {
  let (cal_ms, step, off, lo, hi) = match date_parse(m) {
    Ok(p) => p,
    Err(f) => return f,
  };
  if let Some(unit) = cal_ms {
    return Fill::Count((((hi as f64) - (lo as f64)) / unit) as u128 + 2, None);
  }
  // no bucket for a bound (a checked step failed): `finish` does not fill
  let (Some(mut a), Some(mut b)) = (bucket_start(lo, off, step), bucket_start(hi, off, step)) else { return Fill::Count(0, None) };
  if a > b {
    std::mem::swap(&mut a, &mut b);
  }
  if step == 0 {
    return Fill::Never;
  }
  Fill::Count(((b as i128 - a as i128) / step as i128 + 1) as u128, Some((a, b, step)))
}

pub fn fill_of(m: &Map<String, Value>) -> Fill {
  let has_bounds = ["extended_bounds", "hard_bounds"].iter().any(|k| m.get(*k).map(|b| !b.is_null()).unwrap_or(false));
  if !has_bounds {
    return Fill::NoFill;
  }
  match m.get("type").and_then(|t| t.as_str()) {
    Some("histogram") => histogram_fill(m),
    Some("date_histogram") => date_histogram_fill(m),
    // the type was mutated away: if it still deserialises as one of the two, be careful
    _ if m.contains_key("interval") || m.contains_key("fixed_interval") || m.contains_key("calendar_interval") => Fill::NoFill,
    _ => Fill::NoFill,
  }
}

/// `histogram` / `date_histogram` fill every bucket between their bounds and nothing limits
/// the count: 10^10 buckets exhaust the memory of the machine long before a watchdog can
/// report anything.  The fill is evaluated the way the code evaluates it (`fill_of`); bounds
/// are removed only when it would really insert more than 10^6 buckets (or cannot be
/// evaluated).  Requests the code rejects, finishes quickly, panics on quickly, or can never
/// finish without allocating (step 0) keep their bounds.  Returns true when something changed.
pub fn sanitize(v: &mut Value) -> bool {
  let mut changed = false;
  match v {
    Value::Object(m) => {
      let strip = match fill_of(m) {
        Fill::Count(c, _) => c > 1_000_000,
        Fill::Unknown => true,
        Fill::NoFill | Fill::Never => false,
      };
      if strip {
        m.insert("extended_bounds".into(), Value::Null);
        m.insert("hard_bounds".into(), Value::Null);
        changed = true;
      }
      for (_, x) in m.iter_mut() {
        changed |= sanitize(x);
      }
    }
    Value::Array(a) => {
      for x in a.iter_mut() {
        changed |= sanitize(x);
      }
    }
    _ => {}
  }
  changed
}

/// a request that (by `fill_of`) contains a loop that can never finish: it is run in a child
/// process so that the spinning thread dies with it.  Returns the label of the input class.
pub fn risk(v: &Value) -> Option<&'static str> {
  match v {
    Value::Object(m) => {
      if fill_of(m) == Fill::Never {
        return Some("aggs.date_histogram.zero-step");
      }
      m.values().find_map(risk)
    }
    Value::Array(a) => a.iter().find_map(risk),
    _ => None,
  }
}

/// aggregation types of the request that carry bounds (names the input class of a panic
/// inside aggs/mod.rs)
pub fn bounded_agg_types(v: &Value, out: &mut Vec<String>) {
  match v {
    Value::Object(m) => {
      let has_bounds = ["extended_bounds", "hard_bounds"].iter().any(|k| m.get(*k).map(|b| !b.is_null()).unwrap_or(false));
      if has_bounds {
        if let Some(t) = m.get("type").and_then(|t| t.as_str()) {
          if !out.iter().any(|x| x == t) {
            out.push(t.to_string());
          }
        }
      }
      for x in m.values() {
        bounded_agg_types(x, out);
      }
    }
    Value::Array(a) => a.iter().for_each(|x| bounded_agg_types(x, out)),
    _ => {}
  }
}

// ---------------------------------------------------------------- bounds stream

fn fmt_f(x: f64) -> String {
  if x == x.trunc() && x.abs() < 1e15 {
    format!("{}", x as i64)
  } else {
    format!("{x:e}")
  }
}

/// histogram / date_histogram requests whose bounds have a huge magnitude and a zero or small
/// span, with zero, sub-millisecond and ordinary steps and offsets
pub fn bounds_request(rng: &mut Rng) -> Value {
  let field = *rng.pick(&["n", "x", "n"]);
  let agg = if rng.chance(3, 5) {
    let interval = *rng.pick(&[1.0, 1.0, 0.5, 5.0, 1e-3, 1e300, 2.5e15, 3.0]);
    let min = *rng.pick(&[1e300, -1e300, 9.3e18, -9.3e18, 9.223372036854775807e18, -9.223372036854775808e18, 9.2233720368547748e18, 0.0, 1e15, -7.0, 4.5]);
    let span = *rng.pick(&[0.0, 0.0, 1.0, 3.0, 100.0]) * interval;
    let max = min + span;
    let b = json!({"min": min, "max": max});
    let mut a = json!({"type": "histogram", "field": field, "interval": interval});
    match rng.below(3) {
      0 => a["extended_bounds"] = b,
      1 => a["hard_bounds"] = b,
      _ => {
        a["extended_bounds"] = b.clone();
        a["hard_bounds"] = b;
      }
    }
    if rng.chance(1, 3) {
      a["offset"] = json!(*rng.pick(&[0.5, -3.0, 1e18, -1e300, 1e308, 9.3e18]));
    }
    if rng.chance(1, 4) {
      a["min_doc_count"] = json!(rng.below(2));
    }
    a
  } else {
    // steps of less than a millisecond are rare: each one that the code accepts costs a child
    // process and two watchdog periods
    let fixed = if rng.chance(1, 20) {
      *rng.pick(&["0s", "0", "0ms", "0.0001ms", "0.4ms", "0.9999ms", "0.0009s"])
    } else {
      *rng.pick(&["1ms", "2ms", "1s", "1.5s", "1h", "1d", "1w", "1x", "", "1000000000000000000s"])
    };
    let min = *rng.pick(&[0.0, 10000.0, -5.0, 86_400_000.0, 9.3e18, -9.3e18, 9.223372036854775807e18, -9.223372036854775808e18, 1e300, -1e300]);
    let max = min + *rng.pick(&[0.0, 0.0, 1.0, 5.0, 10000.0]);
    let b = if rng.chance(1, 8) {
      json!({"min": "1970-01-01T00:00:00Z", "max": "1970-01-02T00:00:00Z"})
    } else {
      json!({"min": fmt_f(min), "max": fmt_f(max)})
    };
    let mut a = json!({"type": "date_histogram", "field": field, "fixed_interval": fixed});
    if rng.chance(1, 8) {
      a["calendar_interval"] = json!(*rng.pick(&["day", "month", "year", "bogus"]));
    }
    match rng.below(3) {
      0 => a["extended_bounds"] = b,
      1 => a["hard_bounds"] = b,
      _ => {
        a["extended_bounds"] = b.clone();
        a["hard_bounds"] = b;
      }
    }
    if rng.chance(1, 3) {
      a["offset"] = json!(*rng.pick(&["1h", "0s", "30m", "1ms", "1000000000000000s", "9e3s"]));
    }
    a
  };
  let mut r = json!({"query": if rng.chance(1, 2) { json!({"type": "match_all"}) } else { json!("rust") }, "limit": 3,
                     "return_stored": false, "highlight_field": null, "aggs": {"h": agg}});
  sanitize(&mut r);
  r
}

// ---------------------------------------------------------------- isolated stream: one huge size per request

/// (label, request) with exactly one size-like parameter set to `huge`; run in a child
/// process because an allocation failure aborts the process
pub fn huge_param_request(rng: &mut Rng, huge: u64) -> (String, Value) {
  let base = |q: Value| json!({"query": q, "limit": 3, "return_stored": false, "highlight_field": null});
  let ma = json!({"type": "match_all"});
  let k = rng.below(26);
  let (label, req): (&str, Value) = match k {
    0 => ("limit", { let mut r = base(ma); r["limit"] = json!(huge); r }),
    1 => ("candidate_size", { let mut r = base(json!("rust")); r["candidate_size"] = json!(huge); r }),
    2 => ("bmw_block_size", { let mut r = base(json!("rust search")); r["execution"] = json!("bmw"); r["bmw_block_size"] = json!(huge); r }),
    3 => ("aggs.top_hits.size", { let mut r = base(ma); r["aggs"] = json!({"a": {"type": "top_hits", "size": huge}}); r }),
    4 => ("aggs.top_hits.from", { let mut r = base(ma); r["aggs"] = json!({"a": {"type": "top_hits", "size": 1, "from": huge}}); r }),
    5 => ("aggs.terms.size", { let mut r = base(ma); r["aggs"] = json!({"a": {"type": "terms", "field": "tag", "size": huge}}); r }),
    6 => ("aggs.terms.shard_size", { let mut r = base(ma); r["aggs"] = json!({"a": {"type": "terms", "field": "tag", "size": 2, "shard_size": huge}}); r }),
    7 => ("aggs.composite.size", { let mut r = base(ma); r["aggs"] = json!({"a": {"type": "composite", "size": huge, "sources": [{"type": "terms", "name": "t", "field": "tag"}]}}); r }),
    8 => ("aggs.moving_avg.predict", { let mut r = base(ma); r["aggs"] = json!({"h": {"type": "histogram", "field": "n", "interval": 5.0, "aggs": {"m": {"type": "moving_avg", "buckets_path": "_count", "window": 2, "predict": huge}}}}); r }),
    9 => ("aggs.moving_avg.window", { let mut r = base(ma); r["aggs"] = json!({"h": {"type": "histogram", "field": "n", "interval": 5.0, "aggs": {"m": {"type": "moving_avg", "buckets_path": "_count", "window": huge}}}}); r }),
    10 => ("aggs.cardinality.precision_threshold", { let mut r = base(ma); r["aggs"] = json!({"a": {"type": "cardinality", "field": "tag", "precision_threshold": huge}}); r }),
    11 => ("aggs.bucket_sort.size", { let mut r = base(ma); r["aggs"] = json!({"h": {"type": "terms", "field": "tag", "aggs": {"b": {"type": "bucket_sort", "sort": [{"_count": "desc"}], "size": huge}}}}); r }),
    12 => ("aggs.bucket_sort.from", { let mut r = base(ma); r["aggs"] = json!({"h": {"type": "terms", "field": "tag", "aggs": {"b": {"type": "bucket_sort", "sort": [{"_count": "desc"}], "from": huge}}}}); r }),
    13 => ("aggs.significant_terms.size", { let mut r = base(json!("rust")); r["aggs"] = json!({"a": {"type": "significant_terms", "field": "tag", "size": huge}}); r }),
    14 => ("aggs.rare_terms.size", { let mut r = base(ma); r["aggs"] = json!({"a": {"type": "rare_terms", "field": "tag", "size": huge}}); r }),
    15 => ("aggs.sampling.size", { let mut r = base(ma); r["aggs"] = json!({"a": {"type": "terms", "field": "tag", "sampling": {"size": huge}}}); r }),
    16 => ("highlight.number_of_fragments", { let mut r = base(json!("rust")); r["highlight"] = json!({"fields": {"body": {"number_of_fragments": huge}}}); r["return_stored"] = json!(true); r }),
    17 => ("highlight.fragment_size", { let mut r = base(json!("rust")); r["highlight"] = json!({"fields": {"body": {"fragment_size": huge}}}); r }),
    18 => ("collapse.inner_hits.size", { let mut r = base(ma); r["collapse"] = json!({"field": "tag", "inner_hits": {"size": huge}}); r }),
    19 => ("collapse.inner_hits.from", { let mut r = base(ma); r["collapse"] = json!({"field": "tag", "inner_hits": {"size": 2, "from": huge}}); r }),
    20 => ("suggest.size", { let mut r = base(ma); r["suggest"] = json!({"s": {"type": "completion", "field": "body", "prefix": "r", "size": huge}}); r }),
    21 => ("rescore.window_size", { let mut r = base(json!("rust")); r["rescore"] = json!({"window_size": huge, "query": {"type": "term", "field": "body", "value": "search"}}); r }),
    22 => ("fuzzy.max_expansions", { let mut r = base(json!("rust")); r["fuzzy"] = json!({"max_edits": 2, "max_expansions": huge, "prefix_length": 0, "min_length": 0}); r }),
    23 => ("prefix.max_expansions", base(json!({"type": "prefix", "field": "body", "value": "r", "max_expansions": huge}))),
    24 => ("phrase.slop", base(json!({"type": "phrase", "field": "body", "terms": ["rust", "search"], "slop": huge}))),
    _ => ("bool.minimum_should_match", base(json!({"type": "bool", "should": [{"type": "term", "field": "body", "value": "rust"}], "minimum_should_match": huge}))),
  };
  (label.to_string(), req)
}

// ---------------------------------------------------------------- rescore stream

/// rescore queries; `all_match` = the query's matcher accepts every document, so that a
/// document the rescore phase drops is exactly one the query gives no score to
pub fn rescore_query(rng: &mut Rng) -> (Value, bool) {
  match rng.below(9) {
    // weight applies to one tag only; everything else stays below min_score and is rejected
    0 | 1 => (
      json!({"type": "function_score", "query": {"type": "match_all"},
             "functions": [{"type": "weight", "weight": 2.0, "filter": {"KeywordEq": {"field": "tag", "value": *rng.pick(&TAGS)}}}],
             "score_mode": "sum", "boost_mode": "multiply", "min_score": 2.0}),
      true,
    ),
    // division by zero for documents with n = k (missing n reads 0)
    2 | 3 => (json!({"type": "script_score", "query": {"type": "match_all"}, "script": format!("1 / (n - {})", rng.below(8))}), true),
    // rejects every document
    4 => (json!({"type": "script_score", "query": {"type": "match_all"}, "script": *rng.pick(&["1 / (x - x)", "1/0", "n * 1e308 * 1e308"])}), true),
    // non-finite / below-threshold scores through functions
    5 => (
      json!({"type": "function_score", "query": {"type": "match_all"},
             "functions": [{"type": "field_value_factor", "field": *rng.pick(&["n", "x"]), "modifier": *rng.pick(&["log", "sqrt", "reciprocal", "none"]), "missing": weird_f64(rng)}],
             "boost_mode": *rng.pick(&["replace", "multiply", "sum"]), "min_score": *rng.pick(&[0.0, 1.0, 3.0])}),
      true,
    ),
    6 => (json!({"type": "function_score", "query": {"type": "match_all"}, "functions": [], "min_score": *rng.pick(&[0.5, 1.5])}), true),
    // ordinary rescoring queries (matcher selects documents: only the finder applies)
    7 => (json!({"type": "term", "field": "body", "value": *rng.pick(&["rust", "search", "engine"])}), false),
    _ => (
      json!({"type": "script_score", "query": {"type": "term", "field": "body", "value": *rng.pick(&["rust", "search"])}, "script": *rng.pick(&["_score / (n - 3)", "_score * 2", "1 / (n - n)"])}),
      false,
    ),
  }
}

/// first-pass queries whose ranking mixes the segments
pub fn first_pass_query(rng: &mut Rng) -> Value {
  match rng.below(7) {
    0 | 1 => json!({"type": "rank_feature", "field": *rng.pick(&["n", "x"]), "modifier": *rng.pick(&["sqrt", "none", "log1p"]), "missing": 0.0}),
    2 => json!({"type": "function_score", "query": {"type": "match_all"}, "functions": [{"type": "field_value_factor", "field": "n", "missing": 1.0}], "boost_mode": "replace"}),
    3 => json!({"type": "match_all"}),
    4 => json!({"type": "term", "field": "body", "value": *rng.pick(&["rust", "search", "engine", "fast"])}),
    5 => json!("rust search engine fast lite index"),
    _ => json!({"type": "bool", "should": [{"type": "term", "field": "body", "value": "rust"}, {"type": "rank_feature", "field": "n", "missing": 0.0}]}),
  }
}

/// 2–3 commits of 2–6 documents each (several segments whose documents interleave in rank)
pub fn commits_multi(rng: &mut Rng, schema: &Value) -> Value {
  let ncommits = 2 + rng.below(2);
  let mut out = Vec::new();
  let mut id = 0;
  for _ in 0..ncommits {
    let n = 2 + rng.below(5);
    let docs: Vec<Value> = (0..n)
      .map(|_| {
        id += 1;
        let mut d = doc(rng, schema, id);
        // most documents carry n and a tag: the rejection rules above look at them
        if rng.chance(4, 5) {
          d["n"] = json!(rng.range(0, 9));
        }
        if rng.chance(4, 5) {
          d["tag"] = json!(*rng.pick(&TAGS));
        }
        d
      })
      .collect();
    out.push(json!({"add": docs, "delete": []}));
  }
  Value::Array(out)
}
