//! C17 — corrupted index files are detected.
//! A small index (2–3 segments with a tombstone, pending WAL operations) is built once per
//! case; each mutation (single-byte xor with a mask, truncation, or explicit replacement of a
//! file) is applied to a copy, the copy is opened and probed (reader searches, then a new writer
//! whose recovered queue is read, an upsert and a commit, then a search again).  Outcome classes:
//! error | same | different | panic.  Finder: segment and manifest files must give error or
//! same; the WAL must give the intact prefix of its operations (or an error).  Correspondence:
//! the model's `openSegment` (real CRC-32 over the original and the damaged bytes) predicts
//! whether the checksums stop a damaged segment file, and the model's WAL replay predicts the
//! recovered queue.
use crate::idx;
use crate::proto::Driver;
use crate::rng::Rng;
use crate::summary::Summary;
use crate::util::{guarded, hex, scratch};
use crate::{Prop, Tier};
use searchlite_core::api::Index;
use serde_json::{json, Value};
use std::path::{Path, PathBuf};

pub struct C17;
pub static P: C17 = C17;

const WORDS: [&str; 8] = ["rust", "search", "engine", "fast", "lite", "index", "query", "token"];
const TAGS: [&str; 3] = ["red", "green", "blue"];

fn schema() -> Value {
  json!({
    "text_fields": [{"name":"body","analyzer":"default","stored":true,"indexed":true}],
    "keyword_fields": [{"name":"tag","stored":true,"indexed":true,"fast":true}],
    "numeric_fields": [{"name":"n","i64":true,"fast":true,"stored":true}]
  })
}

fn copy_dir(from: &Path, to: &Path) {
  let _ = std::fs::create_dir_all(to);
  if let Ok(rd) = std::fs::read_dir(from) {
    for e in rd.flatten() {
      if e.path().is_file() {
        let _ = std::fs::copy(e.path(), to.join(e.file_name()));
      }
    }
  }
}

/// files in a reproducible order: manifest, log, then per segment (manifest order) its five files
fn file_list(dir: &Path) -> Vec<(String, PathBuf)> {
  let mut out = vec![("manifest".to_string(), dir.join("MANIFEST.json")), ("wal".to_string(), dir.join("wal.log"))];
  if let Ok(txt) = std::fs::read_to_string(dir.join("MANIFEST.json")) {
    if let Ok(m) = serde_json::from_str::<Value>(&txt) {
      for (i, seg) in m["segments"].as_array().cloned().unwrap_or_default().iter().enumerate() {
        for k in ["terms", "postings", "docstore", "fast", "meta"] {
          if let Some(p) = seg["paths"][k].as_str() {
            let name = Path::new(p).file_name().unwrap().to_string_lossy().to_string();
            out.push((format!("seg{i}.{k}"), dir.join(name)));
          }
        }
      }
    }
  }
  out
}

fn strip(resp: &Value) -> Value {
  // ids, scores, stored fields, totals and aggregations — no timings or profile
  json!({"hits": resp["hits"].as_array().map(|a| a.iter().map(|h| json!([h["doc_id"], h["score"], h["fields"]])).collect::<Vec<_>>()),
         "total": resp["total_hits_estimate"], "aggs": resp["aggregations"]})
}

fn searches(idx: &Index) -> Result<Value, String> {
  let reader = idx.reader().map_err(|e| format!("reader: {e}"))?;
  let mut out = Vec::new();
  for req in [
    json!({"query":{"type":"match_all"},"limit":100,"return_stored":true,"execution":"bm25"}),
    json!({"query":"rust engine","limit":100,"return_stored":false,"execution":"bm25"}),
    json!({"query":{"type":"match_all"},"filter":{"KeywordEq":{"field":"tag","value":"red"}},"limit":100,"return_stored":false,
           "aggs":{"t":{"type":"terms","field":"tag"},"s":{"type":"stats","field":"n"}}}),
    json!({"query":{"type":"match_all"},"filter":{"I64Range":{"field":"n","min":2,"max":40}},"limit":100,"return_stored":false,
           "sort":[{"field":"n","order":"desc"}]}),
  ] {
    match idx::search(&reader, &req) {
      idx::Outcome::Ok(v) => out.push(strip(&v)),
      idx::Outcome::Err(e) => return Err(format!("search: {e}")),
      idx::Outcome::Panic(p) => return Err(format!("PANIC search: {p}")),
    }
  }
  Ok(json!(out))
}

/// full probe of a directory: (searches, recovered queue, searches after upsert+commit)
fn probe(dir: &Path) -> Result<Value, String> {
  let mut o = idx::opts(dir, false);
  o.create_if_missing = false;
  let idx = Index::open(o).map_err(|e| format!("open: {e}"))?;
  let r1 = searches(&idx)?;
  let queue;
  {
    let mut w = idx.writer().map_err(|e| format!("writer: {e}"))?;
    queue = w.verif_queue();
    w.add_document(&idx::doc(&json!({"_id":"d1","body":"rust upsert probe","tag":"blue","n":7}))).map_err(|e| format!("add: {e}"))?;
    w.commit().map_err(|e| format!("commit: {e}"))?;
  }
  let r2 = searches(&idx)?;
  // and once more from disk
  let mut o2 = idx::opts(dir, false);
  o2.create_if_missing = false;
  let idx2 = Index::open(o2).map_err(|e| format!("reopen: {e}"))?;
  let r3 = searches(&idx2)?;
  Ok(json!({"r1": r1, "queue": queue.iter().map(|(a, id)| json!([a, id])).collect::<Vec<_>>(), "r2": r2, "r3": r3}))
}

fn classify(base: &Value, got: &Result<Result<Value, String>, String>, is_wal: bool) -> (&'static str, Value) {
  match got {
    Err(p) => ("panic", json!(p)),
    Ok(Err(e)) if e.starts_with("PANIC") => ("panic", json!(e)),
    Ok(Err(e)) => ("error", json!(e)),
    Ok(Ok(v)) => {
      if is_wal {
        // for the log only the pre-commit searches and the queue are comparable
        if v["r1"] == base["r1"] {
          ("same", v["queue"].clone())
        } else {
          ("different", json!({"r1": v["r1"]}))
        }
      } else if v == base {
        ("same", json!(null))
      } else {
        let which = ["r1", "queue", "r2", "r3"].iter().find(|k| v[**k] != base[**k]).copied().unwrap_or("?");
        ("different", json!({"first_difference": which, "got": v[which], "want": base[which]}))
      }
    }
  }
}

impl Prop for C17 {
  fn id(&self) -> &'static str {
    "C17"
  }
  fn rule(&self) -> &'static str {
    "case = one generated index (2-3 commits, one deletion, 1-3 pending log operations) plus a list of mutations (file chosen by weight over manifest/log/segment files, then single-byte xor with mask 0x01/0x80/0xFF at a sampled offset, or truncation to a sampled length, or explicit replacement); each mutation is one evaluation on a fresh copy of the directory; non-trivial when the mutation actually changes the file bytes; distinct = distinct (case, mutation) JSON.  thorough: many more cases and mutations (sampled; the space is too large to enumerate per run)"
  }
  fn count(&self, tier: Tier) -> usize {
    tier.pick(32, 600)
  }
  fn isolate(&self) -> bool {
    // parsing a damaged file may request a gigantic allocation and abort the process
    true
  }
  fn gen(&self, rng: &mut Rng, tier: Tier, _i: usize) -> Value {
    let ncommits = 2 + rng.below(2);
    let mut did = 0;
    let commits: Vec<Value> = (0..ncommits)
      .map(|_| {
        let nd = 2 + rng.below(4);
        let docs: Vec<Value> = (0..nd)
          .map(|_| {
            did += 1;
            let nw = 2 + rng.below(5);
            let body: Vec<&str> = (0..nw).map(|_| *rng.pick(&WORDS)).collect();
            let tag = *rng.pick(&TAGS);
            json!({"_id": format!("d{did}"), "body": body.join(" "), "tag": tag, "n": rng.below(50)})
          })
          .collect();
        json!(docs)
      })
      .collect();
    let npend = 1 + rng.below(3);
    let pending: Vec<Value> = (0..npend)
      .map(|k| {
        if rng.chance(1, 3) {
          json!({"op":"delete","id": format!("d{}", 1 + rng.below(did))})
        } else {
          let tag = *rng.pick(&TAGS);
          json!({"op":"add","doc":{"_id": format!("p{k}"), "body": "pending rust doc", "tag": tag, "n": rng.below(50)}})
        }
      })
      .collect();
    let nm = tier.pick(60, 200);
    let muts: Vec<Value> = (0..nm)
      .map(|_| {
        // weights: manifest 3, wal 2, segment files 5
        let sel = rng.below(10);
        let file = if sel < 3 { json!("manifest") } else if sel < 5 { json!("wal") } else { json!(rng.f64()) };
        if rng.chance(1, 5) {
          json!({"kind":"truncate","file":file,"frac":rng.f64()})
        } else {
          let mask = [1u64, 0x80, 0xFF][rng.below(3)];
          json!({"kind":"flip","file":file,"frac":rng.f64(),"mask":mask})
        }
      })
      .collect();
    json!({"commits": commits, "delete": format!("d{}", 1 + rng.below(2)), "pending": pending, "mutations": muts})
  }

  fn run_case(&self, drv: &mut Driver, case: &Value, s: &mut Summary) {
    let case = if case.get("case").is_some() { &case["case"] } else { case };
    let base_dir = scratch();
    let dir = base_dir.path().join("idx");
    // ---- build
    let built = guarded(|| -> Result<(), String> {
      let idx = idx::create(&dir, &schema(), false)?;
      for (ci, docs) in case["commits"].as_array().cloned().unwrap_or_default().iter().enumerate() {
        idx::add_commit(&idx, docs.as_array().unwrap())?;
        if ci == 0 {
          if let Some(id) = case["delete"].as_str() {
            idx::delete_commit(&idx, &[id.to_string()])?;
          }
        }
      }
      let mut w = idx.writer().map_err(|e| e.to_string())?;
      for p in case["pending"].as_array().cloned().unwrap_or_default() {
        if p["op"] == "add" {
          w.add_document(&idx::doc(&p["doc"])).map_err(|e| e.to_string())?;
        } else {
          w.delete_document(p["id"].as_str().unwrap_or("")).map_err(|e| e.to_string())?;
        }
      }
      drop(w); // syncs the log
      Ok(())
    });
    if let Err(e) | Ok(Err(e)) = built {
      s.fail("build", "cannot build the index for a corruption case", case, json!(e));
      return;
    }
    let files = file_list(&dir);
    let seg_files: Vec<usize> = (2..files.len()).collect();
    // The manifest stores the paths the segment files were written at, so every probe runs at
    // the SAME path: the pristine files are kept aside and restored before each probe.
    let pristine = base_dir.path().join("pristine");
    copy_dir(&dir, &pristine);
    let restore = || {
      let _ = std::fs::remove_dir_all(&dir);
      copy_dir(&pristine, &dir);
    };
    // ---- baseline (the probe commits, so the directory is restored afterwards)
    let base = match guarded(|| probe(&dir)) {
      Ok(Ok(v)) => v,
      other => {
        s.fail("baseline", "probe of the intact index failed", case, json!(format!("{other:?}")));
        return;
      }
    };
    let base_queue = base["queue"].clone();
    restore();
    let wal_bytes = std::fs::read(dir.join("wal.log")).unwrap_or_default();
    // record boundaries of the intact log, from the model
    let wal_model = drv.call("C02", json!({"op":"replay","data":hex(&wal_bytes)}));
    for (mi, mu) in case["mutations"].as_array().cloned().unwrap_or_default().iter().enumerate() {
      let fi = match &mu["file"] {
        Value::String(x) if x == "manifest" => 0,
        Value::String(x) if x == "wal" => 1,
        Value::Number(n) => {
          if seg_files.is_empty() {
            0
          } else {
            seg_files[((n.as_f64().unwrap_or(0.0) * seg_files.len() as f64) as usize).min(seg_files.len() - 1)]
          }
        }
        _ => 0,
      };
      let (fname, fpath) = &files[fi];
      let orig = std::fs::read(fpath).unwrap_or_default();
      let mut cur = orig.clone();
      let mut pos = 0usize;
      match mu["kind"].as_str().unwrap_or("") {
        "truncate" => {
          pos = ((mu["frac"].as_f64().unwrap_or(0.0) * cur.len() as f64) as usize).min(cur.len().saturating_sub(1));
          cur.truncate(pos);
        }
        "flip" => {
          if !cur.is_empty() {
            pos = ((mu["frac"].as_f64().unwrap_or(0.0) * cur.len() as f64) as usize).min(cur.len() - 1);
            cur[pos] ^= mu["mask"].as_u64().unwrap_or(1) as u8;
          }
        }
        "set" => {
          cur = crate::util::unhex(mu["hex"].as_str().unwrap_or(""));
        }
        "subst" => {
          // first occurrence of a text replaced by another of the same length
          let from = mu["from"].as_str().unwrap_or("").as_bytes().to_vec();
          let to = mu["to"].as_str().unwrap_or("").as_bytes().to_vec();
          if let Some(i) = cur.windows(from.len().max(1)).position(|w| w == &from[..]) {
            pos = i;
            cur.splice(i..i + from.len(), to);
          }
        }
        _ => {}
      }
      let ctx_lo = pos.saturating_sub(12);
      let ctx = String::from_utf8_lossy(&orig[ctx_lo..(pos + 12).min(orig.len())]).to_string();
      let sub = json!({"case": {"commits": case["commits"], "delete": case["delete"], "pending": case["pending"], "mutations": [mu]},
                       "file": fname, "offset": pos, "context": ctx});
      s.case(&sub, cur != orig);
      let _ = mi;
      std::fs::write(fpath, &cur).unwrap();
      let got = guarded(|| probe(&dir));
      let is_wal = fi == 1;
      let (class, detail) = classify(&base, &got, is_wal);
      s.count(&format!("{}.{}", fname.split('.').last().unwrap_or(fname), class));
      let obs = json!({"class": class, "detail": detail});
      match (class, is_wal) {
        ("panic", _) => s.fail(&format!("corrupt.panic.{}", fname.split('.').last().unwrap_or(fname)), "panic on a corrupted file", &sub, obs.clone()),
        ("different", false) => s.fail(
          &format!("corrupt.silent.{}", fname.split('.').last().unwrap_or(fname)),
          "a corrupted file silently changes results",
          &sub,
          obs.clone(),
        ),
        ("different", true) => s.fail("corrupt.silent.wal-committed", "a corrupted log changes committed search results", &sub, obs.clone()),
        _ => {}
      }
      if is_wal && class == "same" {
        // the recovered queue must be the operations of the intact prefix of the log
        let mm = drv.call("C02", json!({"op":"replay","data":hex(&cur)}));
        let got_q: Vec<Value> = detail.as_array().cloned().unwrap_or_default();
        let model_q: Vec<Value> = mm["pending"].as_array().cloned().unwrap_or_default().iter().map(|e| json!([e["op"] == "add", e["id"]])).collect();
        if got_q != model_q {
          s.disagree("wal.recovered-queue", &sub, json!(got_q), json!(model_q));
        }
        // finder (no model): a prefix of the intact queue's operations in order … computed on
        // records: the queue of the damaged log must be a prefix of the intact log's *record*
        // sequence interpreted up to the damaged record
        let intact: Vec<Value> = wal_model["entries"].as_array().cloned().unwrap_or_default();
        let mut ok = false;
        for cut in 0..=intact.len() {
          let mut q: Vec<Value> = Vec::new();
          for e in intact.iter().take(cut) {
            if e["op"] == "commit" {
              q.clear();
            } else {
              q.push(json!([e["op"] == "add", e["id"]]));
            }
          }
          if q == got_q {
            ok = true;
            break;
          }
        }
        if !ok {
          s.fail("corrupt.wal-not-prefix", "the queue recovered from a damaged log is not the queue of an intact prefix", &sub, json!({"recovered": got_q, "intact_queue": base_queue}));
        }
      }
      if !is_wal && fi >= 2 && cur != orig {
        // correspondence: the model's openSegment with the real CRC-32
        let m = drv.call("C17", json!({"op":"segment","files":[{"name": fname, "orig": hex(&orig), "cur": hex(&cur)}]}));
        let model_err = m["opens"] == json!(false);
        let real_err = class == "error" || class == "panic";
        if model_err != real_err {
          s.disagree("segment.open", &sub, obs, m);
        }
      }
      restore();
    }
  }
}
