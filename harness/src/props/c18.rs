//! C18 — collapse returns the best hit of each group.
//! Finder (implementation only): the same request without collapse and with a limit covering
//! all matches gives the full ranking; the collapsed response is checked against it (distinct
//! groups, representative = best ranked of its group, group order, inner hits = window of the
//! other members under the inner sort).
//! Correspondence: `SL.Post.search` (mechanism model) on the matched hits vs the real response.
use crate::proto::Driver;
use crate::rng::Rng;
use crate::summary::Summary;
use crate::{Prop, Tier};
use serde_json::{json, Value};
use std::collections::{BTreeMap, BTreeSet, HashMap};

#[path = "post_common.rs"]
pub mod common;
use common::*;

pub struct C18;
pub static P: C18 = C18;

/// copy the option keys of `case["req"]` onto the base request
pub fn full_req(case: &Value) -> Value {
  let mut r = base_req(case);
  if let Some(m) = case["req"].as_object() {
    for (k, v) in m {
      if !v.is_null() {
        r[k.as_str()] = v.clone();
      }
    }
  }
  r
}

/// the request that yields the ranking the post-processing step works on: same query, filter,
/// sort, execution, explain flag; no collapse/rescore/cursor; limit covering everything
pub fn ranking_req(case: &Value, sort: &Value) -> Value {
  let mut r = base_req(case);
  r["sort"] = sort.clone();
  for k in ["execution", "explain"] {
    if !case["req"][k].is_null() {
      r[k] = case["req"][k].clone();
    }
  }
  r
}

impl Prop for C18 {
  fn id(&self) -> &'static str {
    "C18"
  }
  fn rule(&self) -> &'static str {
    "case = random corpus (4..40 docs, 1..3 segments, optional deletes, ~10% docs without collapse value, skewed group sizes) + query (exact fast-field scores / constant / BM25) + optional filter + collapse request with random main sort, inner_hits (sort/from/size or absent), limit, candidate_size, execution, explain; non-trivial = the collapse field has a group with >= 2 matching members AND the response is checked against the uncollapsed full ranking; distinct = distinct case JSON"
  }
  fn count(&self, tier: Tier) -> usize {
    tier.pick(300, 10000)
  }
  fn gen(&self, rng: &mut Rng, _tier: Tier, _i: usize) -> Value {
    let corpus = gen_corpus(rng, 4, 40);
    let n = corpus["docs"].as_array().map(|a| a.len()).unwrap_or(0);
    let limit = match rng.below(10) {
      0..=4 => 1 + rng.below(8),
      5..=7 => n + 5,
      _ => 9 + rng.below(12),
    };
    let mut collapse = json!({"field": "g"});
    if !rng.chance(3, 10) {
      let mut ih = json!({});
      if !rng.chance(2, 5) {
        ih["size"] = json!(rng.below(5));
      }
      if rng.chance(1, 2) {
        ih["from"] = json!(rng.below(4));
      }
      ih["sort"] = if rng.chance(2, 5) { json!([]) } else { gen_sort(rng) };
      collapse["inner_hits"] = ih;
    }
    let mut req = json!({"limit": limit, "sort": gen_sort(rng), "execution": gen_exec(rng), "collapse": collapse});
    if rng.chance(3, 20) {
      req["candidate_size"] = json!(limit + rng.below(10));
    }
    if rng.chance(1, 10) {
      req["explain"] = json!(true);
    }
    let query = gen_query(rng);
    settle_exec(&query, &mut req);
    json!({"corpus": corpus, "query": query, "filter": gen_filter(rng), "req": req})
  }

  fn run_case(&self, drv: &mut Driver, case: &Value, s: &mut Summary) {
    let built = match build(&case["corpus"]) {
      Ok(b) => b,
      Err(e) => {
        s.disagree("harness.build", case, json!(e), json!(null));
        return;
      }
    };
    let lay = match layout(&built.reader, &case["corpus"]) {
      Ok(l) => l,
      Err(e) => {
        s.disagree("harness.layout", case, json!(e), json!(null));
        return;
      }
    };
    let req = full_req(case);
    let sort = req["sort"].clone();
    let rk = ranking_req(case, &sort);
    let full = match run(&built.reader, &rk) {
      Ok(r) => r,
      Err(e) => {
        s.case(case, false);
        s.count(&format!("ranking_error:{}", e.chars().take(40).collect::<String>()));
        return;
      }
    };
    let resp = match run(&built.reader, &req) {
      Ok(r) => r,
      Err(e) => {
        s.case(case, true);
        s.fail("collapse.error", "collapsed request fails although the uncollapsed request succeeds", case, json!(e));
        return;
      }
    };
    // group value per id, from the corpus
    let gval: HashMap<String, Option<String>> = case["corpus"]["docs"].as_array().cloned().unwrap_or_default().iter().map(|d| (d["_id"].as_str().unwrap_or("").to_string(), d["g"].as_str().map(|x| x.to_string()))).collect();
    let pos_f: HashMap<String, usize> = full.hits.iter().enumerate().map(|(i, h)| (h.doc_id.clone(), i)).collect();
    let mut sizes: BTreeMap<String, usize> = BTreeMap::new();
    for h in &full.hits {
      if let Some(Some(g)) = gval.get(&h.doc_id) {
        *sizes.entry(g.clone()).or_insert(0) += 1;
      }
    }
    let nontrivial = sizes.values().any(|n| *n >= 2);
    s.case(case, nontrivial);
    s.count(&format!("groups:{}", sizes.len().min(6)));
    s.count(&format!("max_group:{}", sizes.values().max().cloned().unwrap_or(0).min(8)));
    s.count(if plan_json(&sort) == json!([{"f":"score","desc":true}]) { "sort:score_fast" } else { "sort:other" });
    let ih = req["collapse"]["inner_hits"].clone();
    s.count(if ih.is_null() { "inner:none" } else { "inner:some" });
    s.count(&format!("segments:{}", lay.nseg));

    // ---------------- finder: the statement on the implementation alone ----------------
    let top_k = top_k_of(&req);
    let fetched = fetched_ids(&full.hits, &lay, &req);
    let mut seen: BTreeSet<String> = BTreeSet::new();
    let mut last_pos: Option<usize> = None;
    // inner-sort ranking (second oracle run) when inner hits are requested
    let inner_rank: Option<HashMap<String, usize>> = if ih.is_null() {
      None
    } else {
      match run(&built.reader, &ranking_req(case, &ih["sort"])) {
        Ok(r) => Some(r.hits.iter().enumerate().map(|(i, h)| (h.doc_id.clone(), i)).collect()),
        Err(_) => None,
      }
    };
    // deep-fetch twin of the request (limit and candidate_size covering everything, so every group
    // is present), for classification
    let deep = {
      let mut r = req.clone();
      r["candidate_size"] = json!(ALL);
      r["limit"] = json!(ALL);
      run(&built.reader, &r).ok()
    };
    let main_uses_score = plan_json(&sort).as_array().map(|a| a.iter().any(|p| p["f"] == "score")).unwrap_or(false);
    let inner_uses_score = !ih.is_null() && plan_json(&ih["sort"]).as_array().map(|a| a.iter().any(|p| p["f"] == "score")).unwrap_or(false);
    for (hi, h) in resp.hits.iter().enumerate() {
      let g = match gval.get(&h.doc_id).cloned().flatten() {
        Some(g) => g,
        None => {
          s.fail("collapse.hit-without-value", "a returned hit has no value in the collapse field", case, json!({"hit": h.doc_id}));
          continue;
        }
      };
      if !seen.insert(g.clone()) {
        s.fail("collapse.duplicate-group", "two returned hits share a collapse value", case, json!({"group": g, "hits": hit_ids(&resp.hits)}));
      }
      let p = match pos_f.get(&h.doc_id) {
        Some(p) => *p,
        None => {
          s.fail("collapse.hit-not-in-ranking", "a returned hit is not a match of the uncollapsed request", case, json!({"hit": h.doc_id}));
          continue;
        }
      };
      let group: Vec<&str> = full.hits.iter().filter(|x| gval.get(&x.doc_id).cloned().flatten().as_deref() == Some(g.as_str())).map(|x| x.doc_id.as_str()).collect();
      if group.first().copied() != Some(h.doc_id.as_str()) {
        // classification: with a fetch depth covering everything (implementation only), is the
        // representative of this group the best one?
        let deep_rep: Option<String> = deep.as_ref().and_then(|d| d.hits.iter().find(|x| gval.get(&x.doc_id).cloned().flatten().as_deref() == Some(g.as_str()))).map(|x| x.doc_id.clone());
        let obs = json!({"group": g, "returned": h.doc_id, "best": group.first(), "with_candidate_size_all": deep_rep, "segments": lay.nseg, "top_k": top_k});
        if deep_rep.as_deref() == group.first().copied() && !fetched.contains(group[0]) {
          s.fail("collapse.rep-beyond-fetched", "on the score fast path each segment ranks only its own max(limit,candidate_size)+1 best: the best document of a group is not fetched while a worse member from another segment is, and becomes the representative", case, obs);
        } else {
          s.fail("collapse.rep-not-best", "the returned hit is not the best-ranked document of its group", case, obs);
        }
        // inner hits relative to a wrong representative are not judged
        last_pos = Some(p);
        continue;
      }
      if let Some(lp) = last_pos {
        if p < lp {
          s.fail("collapse.group-order", "groups are not in the order of their best hits", case, json!({"hits": hit_ids(&resp.hits)}));
        }
      }
      last_pos = Some(p);
      if !close32(h.score, full.hits[p].score) {
        s.fail("collapse.score-changed", "collapse changed a hit's score", case, json!({"hit": h.doc_id, "collapsed": h.score, "plain": full.hits[p].score}));
      }
      let inner: Vec<String> = h.inner_hits.as_ref().map(|v| hit_ids(v)).unwrap_or_default();
      if ih.is_null() {
        if !inner.is_empty() {
          s.fail("collapse.inner-unrequested", "inner hits returned without inner_hits in the request", case, json!({"hit": h.doc_id, "inner": inner}));
        }
        continue;
      }
      let others: Vec<&str> = group.iter().copied().filter(|x| *x != h.doc_id.as_str()).collect();
      if let Some(bad) = inner.iter().find(|x| !others.contains(&x.as_str())) {
        s.fail("collapse.inner-foreign", "an inner hit is the representative itself or belongs to another group", case, json!({"hit": h.doc_id, "inner": inner, "bad": bad}));
        continue;
      }
      if let Some(rank) = &inner_rank {
        let mut sorted: Vec<&str> = others.clone();
        sorted.sort_by_key(|x| rank.get(*x).cloned().unwrap_or(usize::MAX));
        let from = ih["from"].as_u64().unwrap_or(0) as usize;
        let size = ih["size"].as_u64().map(|x| x as usize).unwrap_or(usize::MAX);
        let want: Vec<String> = sorted.iter().skip(from).take(size).map(|x| x.to_string()).collect();
        if want != inner {
          // classification: does fetching deeper (implementation only) give the expected window?
          let deep_inner: Option<Vec<String>> = deep.as_ref().and_then(|d| d.hits.iter().find(|x| x.doc_id == h.doc_id)).map(|x| x.inner_hits.as_ref().map(|v| hit_ids(v)).unwrap_or_default());
          let beyond = group.iter().any(|x| !fetched.contains(*x));
          let obs = json!({"hit": h.doc_id, "hit_index": hi, "group": g, "inner": inner, "expected": want, "with_candidate_size_all": deep_inner, "top_k": top_k});
          if deep_inner.as_ref() == Some(&want) && beyond {
            s.fail("collapse.inner-beyond-fetched", "inner hits are the window of the group members among the fetched max(limit,candidate_size)+1 hits only, not of the group", case, obs);
          } else if !main_uses_score && inner_uses_score {
            s.fail("collapse.inner-score-sort-without-scores", "inner sort uses _score but the main sort does not, so scores were never computed and inner hits come in document order", case, obs);
          } else {
            s.fail("collapse.inner-window", "inner hits are not (drop from . take size) of the other group members under the inner sort", case, obs);
          }
        }
      }
    }
    // not part of the statement, recorded as distribution only
    if resp.hits.len() < (req["limit"].as_u64().unwrap_or(0) as usize).min(sizes.len()) {
      s.count("note:fewer_groups_than_limit_although_more_exist");
    }
    if resp.total_groups != Some(sizes.len() as u64) {
      s.count("note:total_groups_counts_fetched_hits_only");
    }

    // ---------------- correspondence: mechanism model vs implementation ----------------
    let scores = match raw_scores(&built.reader, &rk, &full) {
      Ok(x) => x,
      Err(e) => {
        s.disagree("harness.raw_scores", case, json!(e), json!(null));
        return;
      }
    };
    let m = drv.call("C18", model_req(&req, &lay, model_hits(&lay, &scores, None), None, false));
    if let Some(d) = compare(&m, &resp, &lay, total_is_exact(&req, &case["query"])) {
      s.disagree("post.search", case, json!({"diff": d, "hits": hit_ids(&resp.hits), "total_groups": resp.total_groups}), m);
    }
  }
}
