//! C19 — rescoring only affects the rescore window.
//! Finder (implementation only): the initial ranking (same request without rescore, limit
//! covering everything) and the rescore query run on its own give per-document scores; the
//! expected response is recomputed from them (window rescored by the documented combination,
//! `min_score` rejects dropped, window re-sorted, rest unchanged) and compared with the real one.
//! A mismatch is classified by re-running the request with `candidate_size` covering all
//! matches (implementation only): if that repairs it, the cause is the fetch depth.
//! Correspondence: `SL.Post.search` (mechanism model) vs the real response.
use super::c18::common::*;
use super::c18::{full_req, ranking_req};
use crate::proto::Driver;
use crate::rng::Rng;
use crate::summary::Summary;
use crate::{Prop, Tier};
use serde_json::{json, Value};
use std::collections::HashMap;

pub struct C19;
pub static P: C19 = C19;

fn combine(mode: &str, a: f32, r: f32) -> f32 {
  match mode {
    "multiply" => a * r,
    "max" => a.max(r),
    "min" => a.min(r),
    _ => a + r,
  }
}

/// does the page equal the expected page (ids in order, scores within tolerance)?
fn page_eq(got: &[(String, f32)], want: &[(String, f32)]) -> bool {
  got.len() == want.len() && got.iter().zip(want.iter()).all(|(a, b)| a.0 == b.0 && close32(a.1, b.1))
}

impl Prop for C19 {
  fn id(&self) -> &'static str {
    "C19"
  }
  fn rule(&self) -> &'static str {
    "case = random corpus (6..40 docs, 1..3 segments) + initial query (exact fast-field scores / constant / BM25) + rescore {window_size 0..limit+5 (sometimes 50), score_mode in total/multiply/sum/max/min, rescore query = function_score over a second fast field with optional min_score / filtered weight / BM25 term / dis_max, bool and query strings that use one term in two scoring clauses} + limit 1..10, optional candidate_size, sort (70% default), execution, explain; non-trivial = window_size > 0, at least 2 matches, and the rescore query changes or rejects at least one document of the window; distinct = distinct case JSON"
  }
  fn count(&self, tier: Tier) -> usize {
    tier.pick(300, 10000)
  }
  fn gen(&self, rng: &mut Rng, _tier: Tier, _i: usize) -> Value {
    let corpus = gen_corpus(rng, 6, 40);
    let limit = 1 + rng.below(10);
    let window = if rng.chance(1, 12) { 50 } else { rng.below(limit + 6) };
    let mut req = json!({
      "limit": limit,
      "sort": if rng.chance(7, 10) { json!([]) } else { gen_sort(rng) },
      "execution": gen_exec(rng),
      "rescore": {"window_size": window, "score_mode": *rng.pick(&MODES), "query": gen_rescore_query(rng)},
    });
    if rng.chance(1, 5) {
      req["candidate_size"] = json!(limit + rng.below(8));
    }
    if rng.chance(3, 20) {
      req["explain"] = json!(true);
    }
    let query = gen_query(rng);
    settle_exec(&query, &mut req);
    json!({"corpus": corpus, "query": query, "filter": gen_filter(rng), "req": req})
  }

  fn run_case(&self, drv: &mut Driver, case: &Value, s: &mut Summary) {
    let built = match build(&case["corpus"]) {
      Ok(b) => b,
      Err(e) => {
        s.disagree("harness.build", case, json!(e), json!(null));
        return;
      }
    };
    let lay = match layout(&built.reader, &case["corpus"]) {
      Ok(l) => l,
      Err(e) => {
        s.disagree("harness.layout", case, json!(e), json!(null));
        return;
      }
    };
    let req = full_req(case);
    let exec = req["execution"].as_str().unwrap_or("wand").to_string();
    let plan = plan_json(&req["sort"]);
    let rk = ranking_req(case, &req["sort"]);
    let initial = match run(&built.reader, &rk) {
      Ok(r) => r,
      Err(e) => {
        s.case(case, false);
        s.count(&format!("ranking_error:{}", e.chars().take(40).collect::<String>()));
        return;
      }
    };
    let outcomes = match rescore_outcomes(&built.reader, &req["rescore"]["query"], &exec) {
      Ok(o) => o,
      Err(e) => {
        s.case(case, false);
        s.count(&format!("rescore_query_error:{}", e.chars().take(40).collect::<String>()));
        return;
      }
    };
    let resp = match run(&built.reader, &req) {
      Ok(r) => r,
      Err(e) => {
        s.case(case, true);
        s.fail("rescore.error", "request with rescore fails although both queries succeed on their own", case, json!(e));
        return;
      }
    };
    let w = req["rescore"]["window_size"].as_u64().unwrap_or(0) as usize;
    let mode = req["rescore"]["score_mode"].as_str().unwrap_or("total").to_string();
    let limit = req["limit"].as_u64().unwrap_or(1) as usize;
    let top_k = top_k_of(&req);
    let out_of = |id: &str| outcomes.get(id).cloned().unwrap_or(RescOut::NoMatch);

    // ---------------- expected response (spec), from implementation runs only ----------------
    let rank0: HashMap<String, usize> = initial.hits.iter().enumerate().map(|(i, h)| (h.doc_id.clone(), i)).collect();
    let wn = w.min(initial.hits.len());
    let mut win: Vec<OHit> = Vec::new();
    let mut rejected = 0;
    let mut changed = 0;
    for h in &initial.hits[..wn] {
      let base = OHit { id: h.doc_id.clone(), score: h.score, pos: lay.pos[&h.doc_id], flds: lay.flds[&h.doc_id].clone() };
      match out_of(&h.doc_id) {
        RescOut::NoMatch => win.push(base),
        RescOut::Rejected => rejected += 1,
        RescOut::Val(r) => {
          let c = combine(&mode, h.score, r);
          if c.to_bits() != h.score.to_bits() {
            changed += 1;
          }
          win.push(OHit { score: c, ..base });
        }
      }
    }
    win.sort_by(|a, b| cmp_plan(&plan, a, b));
    let mut expected: Vec<(String, f32)> = win.iter().map(|h| (h.id.clone(), h.score)).collect();
    expected.extend(initial.hits[wn..].iter().map(|h| (h.doc_id.clone(), h.score)));
    let want_page: Vec<(String, f32)> = expected.iter().take(limit).cloned().collect();
    let want_next = expected.len() > limit;
    let got: Vec<(String, f32)> = resp.hits.iter().map(|h| (h.doc_id.clone(), h.score)).collect();

    let nontrivial = wn > 0 && initial.hits.len() >= 2 && (rejected > 0 || changed > 0);
    s.case(case, nontrivial);
    s.count(&format!("mode:{mode}"));
    s.count(if w == 0 { "window:0" } else if w <= limit { "window:<=limit" } else if w <= req["candidate_size"].as_u64().unwrap_or(0).max(limit as u64) as usize + 1 { "window:limit+1..max(limit,candidate_size)+1" } else { "window:>max(limit,candidate_size)+1" });
    s.count(&format!("rejected_in_window:{}", rejected.min(3)));
    s.count(&format!("segments:{}", lay.nseg));
    s.count(if plan == json!([{"f":"score","desc":true}]) { "sort:score_fast" } else { "sort:other" });

    // ---------------- finder ----------------
    let ok = page_eq(&got, &want_page) && resp.next_cursor.is_some() == want_next;
    if !ok {
      // classification by a deep-fetch twin (implementation only): same request, limit and
      // candidate_size covering every match, so rescore_hits sees the whole ranking
      let deep = {
        let mut r = req.clone();
        r["candidate_size"] = json!(ALL);
        r["limit"] = json!(ALL);
        run(&built.reader, &r).ok()
      };
      let deep_all: Option<Vec<(String, f32)>> = deep.as_ref().map(|d| d.hits.iter().map(|h| (h.doc_id.clone(), h.score)).collect());
      let deep_page: Option<Vec<(String, f32)>> = deep_all.as_ref().map(|d| d.iter().take(limit).cloned().collect());
      let deep_ok = deep_all.as_ref().map(|d| page_eq(deep_page.as_ref().unwrap(), &want_page) && (d.len() > limit) == want_next).unwrap_or(false);
      let obs = json!({"got": got, "expected": want_page, "got_next": resp.next_cursor.is_some(), "expected_next": want_next,
        "page_with_full_fetch": deep_page, "window": w, "top_k": top_k, "matches": initial.hits.len(), "rejected_in_window": rejected,
        "initial": initial.hits.iter().take(top_k.max(w).min(30) + 2).map(|h| (h.doc_id.clone(), h.score)).collect::<Vec<_>>()});
      // a hit from behind the window placed before a hit of the window
      let slides = |list: &[(String, f32)]| {
        list.iter().enumerate().any(|(i, a)| rank0.get(&a.0).map(|r| *r >= wn).unwrap_or(false) && list[i + 1..].iter().any(|b| rank0.get(&b.0).map(|r| *r < wn).unwrap_or(false)))
      };
      // the surviving window hits come first and are right; only what follows them (the refill
      // from behind the window) is short or, with per-segment fetching, wrong
      let surv = (wn - rejected).min(got.len()).min(want_page.len());
      let is_prefix = got.len() <= want_page.len() && page_eq(&got[..surv], &want_page[..surv]);
      let legacy_top_k = req["candidate_size"].as_u64().unwrap_or(0).max(limit as u64) as usize + 1;
      // a rescored window hit whose score is not `original (+) the rescore query's own score`
      let score_bad = got.iter().any(|(id, sc)| match rank0.get(id) {
        Some(r) if *r < wn => match out_of(id) {
          RescOut::Val(v) => !close32(*sc, combine(&mode, initial.hits[*r].score, v)),
          _ => false,
        },
        _ => false,
      });
      if score_bad && shared_scoring_term(&req["rescore"]["query"]) {
        // repaired by /repo d465454 (status fixed: reported as a violation again)
        s.fail("rescore.shared-term-first-leaf-only", "the rescore query uses one term in two scoring clauses; rescore_hits scored it under the first leaf only, so the rescored score is not original (+) the rescore query's own score for that document", case, obs);
      } else if deep_ok && rejected > 0 && is_prefix {
        s.fail("rescore.page-short-after-drops", "min_score removals are not refilled from beyond the fetched max(limit,candidate_size,window_size)+1 hits: page shorter than limit, completed with hits from one segment's surplus, or next_cursor missing although more matches exist", case, obs);
      } else if deep_ok && w > legacy_top_k && initial.hits.len() > legacy_top_k {
        // repaired by /repo 089be57 (status fixed in known_findings.json: reported as a violation again)
        s.fail("rescore.window-beyond-fetched", "window_size exceeds the hits that are fetched before rescoring: hits of the window are neither rescored nor returned", case, obs);
      } else if rejected > 0 && deep_all.as_ref().map(|g| slides(g)).unwrap_or(false) {
        s.fail("rescore.tail-slides-into-window", "after min_score removals the re-sorted prefix is again window_size long, so hits that were never rescored are sorted in among the rescored ones", case, obs);
      } else {
        // which part of the statement fails, for the signature
        let mut sig = "rescore.mismatch";
        for (id, sc) in &got {
          match rank0.get(id) {
            None => sig = "rescore.hit-not-in-ranking",
            Some(r) if *r < wn => match out_of(id) {
              RescOut::Rejected => sig = "rescore.min-score-kept",
              RescOut::NoMatch => {
                if !close32(*sc, initial.hits[*r].score) {
                  sig = "rescore.score";
                }
              }
              RescOut::Val(v) => {
                if !close32(*sc, combine(&mode, initial.hits[*r].score, v)) {
                  sig = "rescore.score";
                }
              }
            },
            Some(r) => {
              if !close32(*sc, initial.hits[*r].score) {
                sig = "rescore.outside-window-changed";
              }
            }
          }
        }
        s.fail(sig, "response differs from: window rescored by the documented combination, rejects dropped, window re-sorted, rest unchanged", case, obs);
      }
    }
    // final_score of explanations
    if req["explain"].as_bool().unwrap_or(false) {
      for h in &resp.hits {
        match &h.explanation {
          Some(e) if e.final_score.to_bits() == h.score.to_bits() => {}
          other => s.fail("rescore.explanation-final", "explanation missing or final_score differs from the hit score", case, json!({"hit": h.doc_id, "score": h.score, "final": other.as_ref().map(|e| e.final_score)})),
        }
      }
    }

    // ---------------- correspondence ----------------
    let scores = match raw_scores(&built.reader, &rk, &initial) {
      Ok(x) => x,
      Err(e) => {
        s.disagree("harness.raw_scores", case, json!(e), json!(null));
        return;
      }
    };
    let m = drv.call("C19", model_req(&req, &lay, model_hits(&lay, &scores, Some(&outcomes)), None, false));
    if let Some(d) = compare(&m, &resp, &lay, total_is_exact(&req, &case["query"])) {
      s.disagree("post.search", case, json!({"diff": d, "hits": got}), m);
    }
  }
}
