//! C20 — explain and profile do not change results.
//! Finder (implementation only): every random request is run with explain/profile off/on
//! (4 variants); hits, order, scores, inner hits, totals, cursor and aggregations must agree with
//! the flags-off response, and with explain every explanation's final score is the hit score.
//! A difference is classified by a deep-fetch twin (flags off, `candidate_size` covering all
//! matches): if that twin equals the explain-on response the cause is the fetch depth.
//! Correspondence: `SL.Post.search` (mechanism model, explain flag included) vs each variant.
use super::c18::common::*;
use super::c18::{full_req, ranking_req};
use crate::proto::Driver;
use crate::rng::Rng;
use crate::summary::Summary;
use crate::{Prop, Tier};
use searchlite_core::api::{Hit, SearchResult};
use serde_json::{json, Value};

pub struct C20;
pub static P: C20 = C20;

/// first difference between two responses, ignoring `explanation` and `profile`
pub fn diff_results(a: &SearchResult, b: &SearchResult) -> Option<String> {
  if a.hits.len() != b.hits.len() {
    return Some(format!("hit count {} vs {}", a.hits.len(), b.hits.len()));
  }
  let mut bits_equal = true;
  for (i, (x, y)) in a.hits.iter().zip(b.hits.iter()).enumerate() {
    if x.doc_id != y.doc_id {
      return Some(format!("hit {i}: {} vs {}", x.doc_id, y.doc_id));
    }
    if !close32(x.score, y.score) {
      return Some(format!("hit {i} ({}): score {} vs {}", x.doc_id, x.score, y.score));
    }
    bits_equal &= x.score.to_bits() == y.score.to_bits();
    let ix: Vec<(String, f32)> = x.inner_hits.as_ref().map(|v| v.iter().map(|h| (h.doc_id.clone(), h.score)).collect()).unwrap_or_default();
    let iy: Vec<(String, f32)> = y.inner_hits.as_ref().map(|v| v.iter().map(|h| (h.doc_id.clone(), h.score)).collect()).unwrap_or_default();
    if ix.len() != iy.len() || ix.iter().zip(iy.iter()).any(|(p, q)| p.0 != q.0 || !close32(p.1, q.1)) {
      return Some(format!("hit {i} ({}): inner hits {:?} vs {:?}", x.doc_id, ix, iy));
    }
  }
  if a.total_hits_estimate != b.total_hits_estimate {
    return Some(format!("total_hits_estimate {} vs {}", a.total_hits_estimate, b.total_hits_estimate));
  }
  if a.total_groups != b.total_groups {
    return Some(format!("total_groups {:?} vs {:?}", a.total_groups, b.total_groups));
  }
  if a.next_cursor.is_some() != b.next_cursor.is_some() || (bits_equal && a.next_cursor != b.next_cursor) {
    return Some(format!("next_cursor {:?} vs {:?}", a.next_cursor, b.next_cursor));
  }
  if !value_close(&canon_aggs(a), &canon_aggs(b)) {
    return Some(format!("aggregations/suggest {} vs {}", canon_aggs(a), canon_aggs(b)));
  }
  None
}

/// scores set to 0, cursors reduced to presence
fn normalize(r: &SearchResult) -> SearchResult {
  fn z(h: &Hit) -> Hit {
    let mut h = h.clone();
    h.score = 0.0;
    h.inner_hits = h.inner_hits.as_ref().map(|v| v.iter().map(z).collect());
    h
  }
  let mut r = r.clone();
  r.hits = r.hits.iter().map(z).collect();
  r.next_cursor = r.next_cursor.as_ref().map(|_| "present".to_string());
  r
}

fn all_zero(r: &SearchResult) -> bool {
  r.hits.iter().all(|h| h.score == 0.0 && h.inner_hits.as_ref().map(|v| v.iter().all(|i| i.score == 0.0)).unwrap_or(true))
}

fn explanations_ok(hits: &[Hit]) -> Option<String> {
  for h in hits {
    match &h.explanation {
      None => return Some(format!("{}: no explanation", h.doc_id)),
      Some(e) => {
        if e.final_score.to_bits() != h.score.to_bits() {
          return Some(format!("{}: final_score {} but hit score {}", h.doc_id, e.final_score, h.score));
        }
        if let Some(r) = &e.rescore {
          if r.combined_score.to_bits() != h.score.to_bits() {
            return Some(format!("{}: rescore.combined_score {} but hit score {}", h.doc_id, r.combined_score, h.score));
          }
        }
      }
    }
    if let Some(inner) = &h.inner_hits {
      if let Some(e) = explanations_ok(inner) {
        return Some(format!("inner of {}: {e}", h.doc_id));
      }
    }
  }
  None
}

impl Prop for C20 {
  fn id(&self) -> &'static str {
    "C20"
  }
  fn rule(&self) -> &'static str {
    "case = random corpus (4..40 docs, 1..3 segments) + query + optional filter + request with random sort (score fast path or field/mixed sorts), limit 1..12, optional candidate_size, execution, rescore (35%), collapse with inner hits (35%), aggregations (30%), second page of a cursor walk (15%); each case is run with (explain, profile) in {00, 01, 10, 11}; non-trivial = at least 2 matches and at least one of rescore/collapse/field sort/cursor/aggregations is present (the flags can only matter there); distinct = distinct case JSON"
  }
  fn count(&self, tier: Tier) -> usize {
    tier.pick(300, 10000)
  }
  fn gen(&self, rng: &mut Rng, _tier: Tier, _i: usize) -> Value {
    let corpus = gen_corpus(rng, 4, 40);
    let limit = 1 + rng.below(12);
    let mut req = json!({"limit": limit, "sort": gen_sort(rng), "execution": gen_exec(rng)});
    if rng.chance(1, 5) {
      req["candidate_size"] = json!(limit + rng.below(8));
    }
    if rng.chance(7, 20) {
      let window = if rng.chance(1, 10) { 50 } else { rng.below(limit + 6) };
      req["rescore"] = json!({"window_size": window, "score_mode": *rng.pick(&MODES), "query": gen_rescore_query(rng)});
    }
    if rng.chance(7, 20) {
      let mut c = json!({"field": "g"});
      if rng.chance(2, 3) {
        let mut ih = json!({"sort": if rng.chance(1, 2) { json!([]) } else { gen_sort(rng) }});
        if rng.chance(1, 2) {
          ih["size"] = json!(rng.below(4));
        }
        if rng.chance(1, 3) {
          ih["from"] = json!(rng.below(3));
        }
        c["inner_hits"] = ih;
      }
      req["collapse"] = c;
    }
    if rng.chance(3, 10) {
      req["aggs"] = std_aggs();
    }
    let query = gen_query(rng);
    settle_exec(&query, &mut req);
    json!({"corpus": corpus, "query": query, "filter": gen_filter(rng), "req": req, "page2": rng.chance(3, 20)})
  }

  fn run_case(&self, drv: &mut Driver, case: &Value, s: &mut Summary) {
    let built = match build(&case["corpus"]) {
      Ok(b) => b,
      Err(e) => {
        s.disagree("harness.build", case, json!(e), json!(null));
        return;
      }
    };
    let lay = match layout(&built.reader, &case["corpus"]) {
      Ok(l) => l,
      Err(e) => {
        s.disagree("harness.layout", case, json!(e), json!(null));
        return;
      }
    };
    let mut req = full_req(case);
    let exec = req["execution"].as_str().unwrap_or("wand").to_string();
    // optional: second page (cursor of the flags-off first page)
    let mut cursor: Option<(String, f32, usize)> = None;
    if case["page2"].as_bool().unwrap_or(false) {
      if let Ok(first) = run(&built.reader, &req) {
        if let (Some(c), Some(last)) = (first.next_cursor.clone(), first.hits.last()) {
          req["cursor"] = json!(c);
          cursor = Some((last.doc_id.clone(), last.score, first.hits.len()));
        }
      }
    }
    let base = match run(&built.reader, &req) {
      Ok(r) => r,
      Err(e) => {
        s.case(case, false);
        s.count(&format!("base_error:{}", e.chars().take(40).collect::<String>()));
        return;
      }
    };
    let fast = plan_json(&req["sort"]) == json!([{"f":"score","desc":true}]);
    let has_resc = !req["rescore"].is_null();
    let has_coll = !req["collapse"].is_null();
    let nontrivial = base.total_hits_estimate >= 2 && (has_resc || has_coll || !fast || cursor.is_some() || !req["aggs"].is_null());
    s.case(case, nontrivial);
    s.count(if fast { "sort:score_fast" } else { "sort:other" });
    if has_resc {
      s.count("with_rescore");
    }
    if has_coll {
      s.count("with_collapse");
    }
    if cursor.is_some() {
      s.count("second_page");
    }
    if !req["aggs"].is_null() {
      s.count("with_aggs");
    }
    let outcomes = if has_resc { rescore_outcomes(&built.reader, &req["rescore"]["query"], &exec).ok() } else { None };
    let mut deep_cache: Option<Option<SearchResult>> = None;

    for (explain, profile) in [(false, false), (false, true), (true, false), (true, true)] {
      let mut r = req.clone();
      r["explain"] = json!(explain);
      r["profile"] = json!(profile);
      let v = match run(&built.reader, &r) {
        Ok(v) => v,
        Err(e) => {
          s.fail(if explain { "explain.error" } else { "profile.error" }, "request fails with the flag although it succeeds without", case, json!({"explain": explain, "profile": profile, "error": e}));
          continue;
        }
      };
      // ---------------- finder ----------------
      if explain || profile {
        if let Some(d) = diff_results(&base, &v) {
          let obs = json!({"explain": explain, "profile": profile, "diff": d, "flags_off": hit_ids(&base.hits), "flags_on": hit_ids(&v.hits),
            "total_groups_off": base.total_groups, "total_groups_on": v.total_groups, "next_off": base.next_cursor.is_some(), "next_on": v.next_cursor.is_some()});
          if explain && !fast && (has_resc || has_coll) {
            // deep-fetch twin: flags off, candidate_size covering all matches
            let deep = deep_cache.get_or_insert_with(|| {
              let mut t = req.clone();
              t["candidate_size"] = json!(ALL);
              run(&built.reader, &t).ok()
            });
            let differs_from_base = deep.as_ref().map(|t| diff_results(t, &base).is_some()).unwrap_or(false);
            if differs_from_base && deep.as_ref().map(|t| diff_results(t, &v).is_none()).unwrap_or(false) {
              s.fail("explain.fetch-depth", "with explain and a sort other than plain _score desc every match of a segment is ranked and reaches rescoring/collapse, without explain only max(limit,candidate_size,window_size)+1: hits, inner hits, total_groups or next_cursor differ", case, obs);
              continue;
            }
          }
          // recurrence of the defect repaired by /repo 8218789 / a5f1a65 (status fixed: a violation
          // again): sort without _score, query without custom scoring, every hit of the flags-off
          // response carries score 0 and the responses agree modulo scores
          if explain && legacy_score_mode_off(&req) && all_zero(&base) && base.total_hits_estimate > 0 && !base.hits.is_empty()
            && diff_results(&normalize(&base), &normalize(&v)).is_none()
          {
            s.fail("explain.scores-only-with-explain", "under a sort without _score (and a query without custom scoring) hit scores are 0 without explain and the real scores with explain", case, obs);
            continue;
          }
          // only total_hits_estimate differs, on the pruned score fast path: WAND/BMW prune without
          // explain, but explain installs a score hook and a hook disables pruning (/repo efe566e),
          // so the estimate becomes the exact count
          let pruned_class = fast && matches!(req["execution"].as_str(), Some("wand") | Some("bmw") | None) && req["aggs"].is_null() && !has_hook(&req["query"]);
          if explain && pruned_class && v.total_hits_estimate >= base.total_hits_estimate {
            let mut b2 = base.clone();
            b2.total_hits_estimate = v.total_hits_estimate;
            if diff_results(&b2, &v).is_none() {
              s.fail("explain.total-estimate-under-pruning", "default sort with wand/bmw and no aggregations: total_hits_estimate is the pruned estimate without explain and the exact count with explain (explain installs a score hook, a score hook disables pruning)", case, obs);
              continue;
            }
          }
          s.fail(if explain { "explain.result-changed" } else { "profile.result-changed" }, "response (ignoring explanation/profile) differs from the flags-off response", case, obs);
        }
      }
      if explain {
        if let Some(e) = explanations_ok(&v.hits) {
          s.fail("explain.final-score", "an explanation is missing or its final score is not the hit score", case, json!({"profile": profile, "what": e}));
        }
      }
      if profile != v.profile.is_some() {
        s.fail("profile.presence", "profile block present/absent against the flag", case, json!({"explain": explain, "profile": profile}));
      }
      // ---------------- correspondence ----------------
      // matched hits + scores as the post-processing step of *this* variant sees them
      let mut rk = ranking_req(case, &req["sort"]);
      rk["explain"] = json!(explain);
      let ranking = match run(&built.reader, &rk) {
        Ok(x) => x,
        Err(_) => continue,
      };
      let scores = match raw_scores(&built.reader, &rk, &ranking) {
        Ok(x) => x,
        Err(_) => continue,
      };
      let cur = cursor.as_ref().map(|(id, sc, n)| (id.as_str(), *sc, *n));
      let m = drv.call("C20", model_req(&r, &lay, model_hits(&lay, &scores, outcomes.as_ref()), cur, false));
      if let Some(d) = compare(&m, &v, &lay, total_is_exact(&r, &case["query"])) {
        s.disagree("post.search", case, json!({"explain": explain, "profile": profile, "diff": d, "hits": hit_ids(&v.hits), "total_groups": v.total_groups, "next": v.next_cursor.is_some()}), m);
      }
    }
  }
}
