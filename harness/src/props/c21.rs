//! C21 — highlights are well-formed for any text.
//!
//! One case = a small corpus of random texts over ASCII / Latin-1 / CJK / emoji alphabets (one
//! stored text field `body`), a query built from one document's own words, a per-field
//! highlight request (fragment size around 2·|longest query word| .. 80 bytes and huge, 0 / 1 / 2 /
//! 3..4 / very many fragments, explicit / default / empty tags)
//! and the legacy `highlight_field` snippet in the same search.  One evaluation per hit.
//!
//! Finder (implementation alone), for every returned fragment and snippet: non-empty; contains
//! `pre X post` with non-empty `X`; with all tags removed it is a substring of the stored text;
//! at most `fragment_size` characters; at most `number_of_fragments` fragments; the tagged text is,
//! as a whole, a match of the query's terms/phrases.
//! Correspondence: `SL.Highlight.fieldHighlights/makeSnippet (sliceCode)` vs the implementation,
//! byte for byte; the regex results the model takes as inputs (`find_at` on the text, matches
//! inside each fragment) come from the real `regex` crate with the pattern built as in
//! `index/highlight.rs`; the hypotheses of the theorems about those inputs (`RegexOk`) are
//! evaluated on every case.
use crate::idx;
use crate::proto::Driver;
use crate::rng::Rng;
use crate::summary::Summary;
use crate::util::{hex, scratch, unhex};
use crate::{Prop, Tier};
use regex::{Regex, RegexBuilder};
use serde_json::{json, Value};

/// `true`: the model mirrors the repaired slicing (`sliceSnap`, window ends moved to character
/// boundaries); `false`: the original `text.get(start..end).unwrap_or("")`
const SNAP: bool = true;

pub struct C21;
pub static P: C21 = C21;

const ASCII_W: [&str; 14] = ["rust", "Search", "engine", "fast", "lite", "index", "Query", "x", "go", "token", "b2", "cache", "Zig", "heap"];
const LATIN_W: [&str; 8] = ["é", "über", "niño", "café", "façade", "smörgås", "àé", "ñ"];
const CJK_W: [&str; 6] = ["日本", "検索", "語", "東京都", "全文", "引擎"];
const EMOJI: [&str; 4] = ["😀", "🚀", "🔍", "✨"];
const SEPS: [&str; 6] = [" ", " ", ", ", ". ", " - ", "; "];

fn schema_json() -> Value {
  json!({"doc_id_field": "_id", "text_fields": [{"name": "body", "analyzer": "default", "stored": true, "indexed": true}], "keyword_fields": [], "numeric_fields": []})
}

fn gen_word(rng: &mut Rng, alpha: usize) -> String {
  // alpha: 0 ascii, 1 latin-1 mix, 2 cjk mix, 3 everything
  let pick_ascii = |rng: &mut Rng| rng.pick(&ASCII_W).to_string();
  match alpha {
    0 => pick_ascii(rng),
    1 => if rng.chance(1, 2) { rng.pick(&LATIN_W).to_string() } else { pick_ascii(rng) },
    2 => if rng.chance(1, 2) { rng.pick(&CJK_W).to_string() } else { pick_ascii(rng) },
    _ => match rng.below(3) { 0 => rng.pick(&LATIN_W).to_string(), 1 => rng.pick(&CJK_W).to_string(), _ => pick_ascii(rng) },
  }
}

fn gen_text(rng: &mut Rng, alpha: usize) -> String {
  let span = if rng.chance(1, 3) { 40 } else { 14 };
  let n = 2 + rng.below(span);
  let mut t = String::new();
  // sometimes a long run of one multi-byte word first (pushes later windows off boundaries)
  if alpha != 0 && rng.chance(1, 4) {
    let w = if alpha == 2 { *rng.pick(&CJK_W) } else { *rng.pick(&LATIN_W) };
    for _ in 0..(3 + rng.below(20)) {
      t.push_str(w);
    }
    t.push(' ');
  }
  for i in 0..n {
    if i > 0 {
      t.push_str(*rng.pick(&SEPS));
    }
    if alpha == 3 && rng.chance(1, 5) {
      t.push_str(*rng.pick(&EMOJI));
      t.push(' ');
    }
    t.push_str(&gen_word(rng, alpha));
  }
  t
}

/// the pattern of `highlight_fragments`: phrase alternatives first, then the terms
fn build_regex(phrases: &[Vec<String>], terms: &[String]) -> Option<Regex> {
  let mut pats: Vec<String> = Vec::new();
  for ph in phrases.iter().filter(|p| !p.is_empty()) {
    let joined = ph.iter().map(|p| regex::escape(p)).collect::<Vec<_>>().join(r"\W+");
    pats.push(format!(r"\b{joined}\b"));
  }
  pats.extend(terms.iter().filter(|t| !t.is_empty()).map(|t| format!(r"\b{}\b", regex::escape(t))));
  if pats.is_empty() {
    return None;
  }
  RegexBuilder::new(&pats.join("|")).case_insensitive(true).build().ok()
}

fn dedup(v: Vec<String>) -> Vec<String> {
  let mut seen = std::collections::HashSet::new();
  v.into_iter().filter(|t| seen.insert(t.clone())).collect()
}

struct Frag<'a> {
  what: &'static str,
  s: &'a str,
  size: usize,
  pre: &'a str,
  post: &'a str,
  /// index of the visited match this fragment belongs to
  k: usize,
}

/// `(start, end)` of the fragment window as `index/highlight.rs` computes it
fn window(mstart: usize, size: usize, len: usize) -> (usize, usize) {
  let s = mstart.saturating_sub(size / 2);
  (s, len.min(s.saturating_add(size)))
}

/// the `find_at` iteration of the loop: (offset, match) pairs
fn visit(re: &Regex, text: &str, n: usize) -> Vec<(usize, (usize, usize))> {
  let mut out = Vec::new();
  let mut off = 0usize;
  for _ in 0..n {
    match re.find_at(text, off) {
      Some(m) => {
        out.push((off, (m.start(), m.end())));
        off = m.end();
      }
      None => break,
    }
  }
  out
}

/// ask the model: first the raw slices (empty re-match table), then the real regex on each
/// slice, then the tagged fragments.  Returns (fragments as bytes, on_boundary flags, hypotheses ok).
fn model_fragments(drv: &mut Driver, re: &Regex, text: &str, visited: &[(usize, (usize, usize))], size: usize, nfrag: usize, pre: &str, post: &str, snippet: bool, has_pattern: bool) -> Result<(Vec<Vec<u8>>, Vec<bool>, Vec<String>), String> {
  let find: Vec<Value> = visited.iter().map(|(o, (s, e))| json!([o, s, e])).collect();
  let base = json!({"op": "highlight", "text": hex(text.as_bytes()), "find": find, "size": size, "nfrag": nfrag, "pre": hex(pre.as_bytes()), "post": hex(post.as_bytes()), "snippet": snippet, "has_pattern": has_pattern, "snap": SNAP});
  let mut r0 = base.clone();
  r0["rematch"] = json!([]);
  let m0 = drv.call("C21", r0);
  if m0["ok"] != json!(true) {
    return Err(format!("model: {m0}"));
  }
  let mut table = Vec::new();
  let mut hyp = Vec::new();
  let slices: Vec<Vec<u8>> = m0["untagged"].as_array().map(|a| a.iter().map(|h| unhex(h.as_str().unwrap_or(""))).collect()).unwrap_or_default();
  for sl in slices.iter() {
    let Ok(st) = std::str::from_utf8(sl) else {
      return Err("model slice is not UTF-8 although `get` succeeded".into());
    };
    let spans: Vec<Value> = re.find_iter(st).map(|m| json!([m.start(), m.end()])).collect();
    if !st.is_empty() && spans.is_empty() {
      hyp.push(format!("re_finds: no match inside the non-empty fragment {st:?}"));
    }
    table.push(json!([hex(sl), spans]));
  }
  let mut r1 = base;
  r1["rematch"] = Value::Array(table);
  let m1 = drv.call("C21", r1);
  if m1["ok"] != json!(true) {
    return Err(format!("model: {m1}"));
  }
  if m1["spans_ok"].as_array().map(|a| a.iter().any(|b| b != &json!(true))).unwrap_or(true) {
    hyp.push("re_spans: regex spans inside a fragment are not ordered/disjoint/non-empty/in range".into());
  }
  let frags = m1["fragments"].as_array().map(|a| a.iter().map(|h| unhex(h.as_str().unwrap_or(""))).collect()).unwrap_or_default();
  let onb = m1["on_boundary"].as_array().map(|a| a.iter().map(|b| b.as_bool().unwrap_or(false)).collect()).unwrap_or_default();
  Ok((frags, onb, hyp))
}

impl Prop for C21 {
  fn id(&self) -> &'static str {
    "C21"
  }
  fn rule(&self) -> &'static str {
    "case = (3..8 documents of 2..40 words over one of four alphabets: ASCII | ASCII+Latin-1 | ASCII+CJK | all incl. emoji, optionally led by a long multi-byte run; query = 1..2 distinct words of one document as query string / term / bool-should, or (1 in 5) a two-word phrase of adjacent words as bool{must phrase, should term}; highlight on `body` with fragment_size = 2*|longest query text| -1 / exactly / +1 / anywhere up to 80 / >= 1000, number_of_fragments 0 | 1 | 2 | 3..4 | 50..1049, tags <em> | [[ ]] | default | both empty; highlight_field snippet in the same request); one evaluation per hit; non-trivial when a fragment or snippet was returned for the hit and the first window does not cover the whole text; distinct = distinct (case, hit id) JSON"
  }
  fn count(&self, tier: Tier) -> usize {
    tier.pick(1500, 60000)
  }
  fn gen(&self, rng: &mut Rng, _tier: Tier, i: usize) -> Value {
    let alpha = i % 4;
    let ndocs = 3 + rng.below(6);
    let docs: Vec<Value> = (0..ndocs).map(|d| json!({"_id": format!("d{d}"), "body": gen_text(rng, alpha)})).collect();
    // query words: from one document's own words (alphanumeric runs)
    let src = docs[rng.below(ndocs)]["body"].as_str().unwrap().to_string();
    let mut words: Vec<String> = src.split(|c: char| !c.is_alphanumeric()).filter(|w| !w.is_empty()).map(|w| w.to_string()).collect();
    words.sort();
    words.dedup_by(|a, b| a.to_lowercase() == b.to_lowercase());
    rng.shuffle(&mut words);
    // keep query-string operators out of the query
    words.retain(|w| !["and", "or", "not", "to"].contains(&w.to_lowercase().as_str()));
    if words.is_empty() {
      words.push("rust".into());
    }
    let nq = 1 + rng.below(2.min(words.len()));
    let mut qw: Vec<String> = words[..nq].to_vec();
    let mut qkind = rng.below(3);
    let mut maxlen = qw.iter().map(|w| w.len()).max().unwrap_or(1);
    // 1 case in 5: a phrase of two adjacent words of the source document (bool must phrase +
    // should term of its first word, which supplies the scored postings)
    let seq: Vec<String> = src.split(|c: char| !c.is_alphanumeric()).filter(|w| !w.is_empty()).map(|w| w.to_string()).collect();
    let mut phrase = Value::Null;
    if rng.chance(1, 5) && seq.len() >= 2 {
      let k = rng.below(seq.len() - 1);
      phrase = json!([seq[k], seq[k + 1]]);
      qw = vec![seq[k].clone()];
      qkind = 3;
      maxlen = seq[k].len() + seq[k + 1].len() + 3;
    }
    let lo = 2 * maxlen;
    // fragment_size: at and around the premise's boundary 2*|match| (one below = premise false,
    // exactly, one above), anywhere up to 80, and far larger than any text
    let size = match rng.below(8) {
      0 | 1 => lo,
      2 => lo + 1,
      3 => lo.saturating_sub(1),
      4 => 1000 + rng.below(100000),
      _ => lo + rng.below(81usize.saturating_sub(lo).max(1)),
    };
    // number_of_fragments: the boundary values 0, 1, 2 and large counts next to 3..4
    let nfrag = match rng.below(10) {
      0 | 1 => 0,
      2 | 3 => 1,
      4 | 5 => 2,
      6 => 50 + rng.below(1000),
      _ => 3 + rng.below(2),
    };
    // tags: explicit, bracket-like, default (absent), and both empty
    let tags = match rng.below(4) {
      0 => json!(["<em>", "</em>"]),
      1 => json!(["[[", "]]"]),
      2 => json!(["", ""]),
      _ => Value::Null,
    };
    json!({"docs": docs, "words": qw, "phrase": phrase, "qkind": qkind, "size": size, "nfrag": nfrag, "tags": tags})
  }

  fn run_case(&self, drv: &mut Driver, case: &Value, s: &mut Summary) {
    let only = case.get("only").and_then(|c| c.as_str()).map(|c| c.to_string());
    let case = if only.is_some() { &case["case"] } else { case };
    let docs: Vec<Value> = case["docs"].as_array().cloned().unwrap_or_default();
    let words: Vec<String> = case["words"].as_array().map(|a| a.iter().map(|w| w.as_str().unwrap_or("").to_string()).collect()).unwrap_or_default();
    let size = case["size"].as_u64().unwrap_or(40) as usize;
    let nfrag = case["nfrag"].as_u64().unwrap_or(1) as usize;
    let (pre, post) = match case["tags"].as_array() {
      Some(a) => (a[0].as_str().unwrap_or("<em>").to_string(), a[1].as_str().unwrap_or("</em>").to_string()),
      None => ("<em>".to_string(), "</em>".to_string()),
    };
    let phrase_words: Vec<String> = case["phrase"].as_array().map(|a| a.iter().map(|w| w.as_str().unwrap_or("").to_string()).collect()).unwrap_or_default();
    let query = match case["qkind"].as_u64().unwrap_or(0) {
      3 if !phrase_words.is_empty() => json!({"type": "bool", "must": [{"type": "phrase", "field": "body", "terms": phrase_words}], "should": words.iter().map(|w| json!({"type": "term", "field": "body", "value": w})).collect::<Vec<_>>()}),
      1 if words.len() == 1 => json!({"type": "term", "field": "body", "value": words[0]}),
      2 => json!({"type": "bool", "should": words.iter().map(|w| json!({"type": "term", "field": "body", "value": w})).collect::<Vec<_>>()}),
      _ => json!(words.join(" ")),
    };
    let mut hf = json!({"fragment_size": size, "number_of_fragments": nfrag});
    if case["tags"].is_array() {
      hf["pre_tag"] = json!(pre);
      hf["post_tag"] = json!(post);
    }
    let req = json!({"query": query, "limit": 20, "return_stored": true, "highlight_field": "body", "highlight": {"fields": {"body": hf}}});

    let dir = scratch();
    let schema_v = schema_json();
    let resp = (|| -> Result<Value, String> {
      let index = idx::create(dir.path(), &schema_v, true)?;
      idx::add_commit(&index, &docs)?;
      let reader = index.reader().map_err(|e| e.to_string())?;
      match idx::search(&reader, &req) {
        idx::Outcome::Ok(v) => Ok(v),
        o => Err(format!("search: {}", o.to_json())),
      }
    })();
    let resp = match resp {
      Ok(v) => v,
      Err(e) => {
        s.fail("highlight.error", "index build or search with highlight failed", case, json!(e));
        return;
      }
    };
    // highlight terms as the reader derives them: analysed query tokens, first-seen order; for
    // the per-field highlight each is analysed again with the field's search analyzer
    let schema = match idx::schema(&schema_v) {
      Ok(x) => x,
      Err(_) => return,
    };
    let an = match schema.build_analyzers() {
      Ok(a) => a,
      Err(_) => return,
    };
    let sa = an.search_analyzer("body").expect("analyzer");
    let hl_terms: Vec<String> = dedup(words.iter().flat_map(|w| sa.analyze(w).into_iter().map(|t| t.text)).collect());
    let field_terms: Vec<String> = dedup(hl_terms.iter().flat_map(|w| sa.analyze(w).into_iter().map(|t| t.text)).collect());
    // phrases: every phrase term analysed with the field's search analyzer (`normalize_phrase_terms`)
    let phrases: Vec<Vec<String>> = if phrase_words.is_empty() {
      Vec::new()
    } else {
      let seq: Vec<String> = phrase_words.iter().flat_map(|w| sa.analyze(w).into_iter().map(|t| t.text)).collect();
      if seq.is_empty() { vec![phrase_words.clone()] } else { vec![seq] }
    };
    if !phrases.is_empty() {
      s.count("phrase_query");
    }
    let re_field = build_regex(&phrases, &field_terms);
    let re_snip = build_regex(&phrases, &hl_terms);
    let maxlen_terms = field_terms.iter().map(|t| t.len()).max().unwrap_or(0);

    let hits = resp["hits"].as_array().cloned().unwrap_or_default();
    if hits.is_empty() {
      s.count("no_hits");
    }
    for h in hits.iter() {
      let id = h["doc_id"].as_str().unwrap_or("").to_string();
      if only.as_ref().map(|o| *o != id).unwrap_or(false) {
        continue;
      }
      let sub = json!({"case": case, "only": id});
      let Some(text) = docs.iter().find(|d| d["_id"] == json!(id)).and_then(|d| d["body"].as_str()) else {
        s.fail("highlight.unknown-hit", "hit id is not a document of the corpus", &sub, json!(id));
        continue;
      };
      if h["fields"]["body"].as_str() != Some(text) {
        s.fail("highlight.stored-text", "stored field text of the hit differs from the indexed document", &sub, h["fields"].clone());
        continue;
      }
      let frags: Vec<String> = h["highlights"]["body"].as_array().map(|a| a.iter().map(|f| f.as_str().unwrap_or("").to_string()).collect()).unwrap_or_default();
      let snippet: Option<String> = h["snippet"].as_str().map(|x| x.to_string());
      // the regex engine's view of the text (inputs of the model, also used for signatures)
      let vis_f = re_field.as_ref().map(|re| visit(re, text, nfrag)).unwrap_or_default();
      let vis_s = re_snip.as_ref().map(|re| visit(re, text, 1)).unwrap_or_default();
      let first_window = vis_f.first().map(|(_, (ms, _))| window(*ms, size, text.len()));
      let nontrivial = (!frags.is_empty() || snippet.is_some()) && first_window.map(|(a, b)| a > 0 || b < text.len()).unwrap_or(false);
      s.case(&sub, nontrivial);
      s.count(if text.is_ascii() { "text_ascii" } else { "text_multibyte" });
      s.add("fragments_returned", frags.len() as u64);
      if snippet.is_some() {
        s.count("snippet_returned");
      }
      // the property's premise: fragment size >= 2 * matched text (bytes; all visited matches)
      let premise_f = vis_f.iter().all(|(_, (a, b))| 2 * (b - a) <= size) && 2 * maxlen_terms <= size;
      let premise_s = vis_s.iter().all(|(_, (a, b))| 2 * (b - a) <= 120);
      if !premise_f {
        s.count("premise_false_size_lt_2x_match");
      }

      // ---------------- finder: the five clauses on the implementation alone ----------------
      let mut items: Vec<Frag> = Vec::new();
      if premise_f {
        for (k, f) in frags.iter().enumerate() {
          items.push(Frag { what: "highlight", s: f, size, pre: &pre, post: &post, k });
        }
      }
      if premise_s {
        if let Some(sn) = snippet.as_ref() {
          items.push(Frag { what: "snippet", s: sn, size: 120, pre: "**", post: "**", k: 0 });
        }
      }
      // "at most number_of_fragments fragments per field" — for every count, 0 included, and
      // independent of the size premise
      if pre.is_empty() && post.is_empty() {
        s.count("tags_empty");
      }
      s.count(match nfrag { 0 => "nfrag_0", 1 => "nfrag_1", 2 => "nfrag_2", 3..=4 => "nfrag_3_4", _ => "nfrag_large" });
      if frags.len() > nfrag {
        s.fail("highlight.too-many-fragments", "more than number_of_fragments fragments returned for the field", &sub, json!({"fragments": frags, "number_of_fragments": nfrag}));
      }
      for it in items.iter() {
        let vis = if it.what == "snippet" { &vis_s } else { &vis_f };
        // signature predicate of the known finding: the window of this fragment's match starts
        // or ends inside a multi-byte character
        let off_boundary = vis.get(it.k).map(|(_, (ms, _))| {
          let (a, b) = window(*ms, it.size, text.len());
          !text.is_char_boundary(a) || !text.is_char_boundary(b)
        }).unwrap_or(false);
        let mut bad: Vec<&'static str> = Vec::new();
        if it.s.is_empty() {
          bad.push("empty-fragment");
        }
        // `pre X post` with non-empty X (for the snippet pre == post == "**"), and X is, as a
        // whole, a match of the query's terms/phrases
        let re_it = if it.what == "snippet" { re_snip.as_ref() } else { re_field.as_ref() };
        // with both tags empty the tagging is invisible: the clause becomes "the fragment
        // contains a match of the query" and X is that match
        let no_tags = it.pre.is_empty() && it.post.is_empty();
        let tagged_x: Option<&str> = if no_tags {
          re_it.and_then(|re| re.find(it.s)).map(|m| m.as_str())
        } else {
          it.s.find(it.pre).and_then(|p| {
            let rest = &it.s[p + it.pre.len()..];
            rest.find(it.post).map(|q| &rest[..q])
          })
        };
        let tagged = tagged_x.map(|x| !x.is_empty()).unwrap_or(false);
        if tagged {
          let x = tagged_x.unwrap_or("");
          let whole = re_it.and_then(|re| re.find(x)).map(|m| m.start() == 0 && m.end() == x.len()).unwrap_or(false);
          if !whole {
            bad.push("tagged-text-not-a-match");
          }
        }
        if !tagged {
          bad.push("no-tagged-match");
        }
        let untagged = if no_tags { it.s.to_string() } else if it.pre == it.post { it.s.replace(it.pre, "") } else { it.s.replace(it.pre, "").replace(it.post, "") };
        if !text.contains(&untagged) {
          bad.push("not-substring");
        }
        if untagged.chars().count() > it.size {
          bad.push("too-long");
        }
        for b in bad {
          let obs = json!({"kind": it.what, "fragment": it.s, "fragment_index": it.k, "text": text, "size": it.size, "window_off_char_boundary": off_boundary});
          if off_boundary {
            s.fail("highlight.non-boundary-slice", "a fragment is empty / has no tagged match because the byte window around the match starts or ends inside a multi-byte character (text.get(start..end) fails)", &sub, obs);
          } else {
            s.fail(&format!("highlight.{b}"), "a returned fragment violates the well-formedness clause named in the signature", &sub, obs);
          }
        }
      }

      // ---------------- correspondence with the model ----------------
      if let Some(re) = re_field.as_ref() {
        match model_fragments(drv, re, text, &vis_f, size, nfrag, &pre, &post, false, true) {
          Ok((mf, _onb, hyp)) => {
            let imp: Vec<Vec<u8>> = frags.iter().map(|f| f.as_bytes().to_vec()).collect();
            if mf != imp {
              s.disagree("highlight.fragments", &sub, json!({"fragments": frags}), json!({"fragments": mf.iter().map(|b| String::from_utf8_lossy(b).to_string()).collect::<Vec<_>>()}));
            }
            s.traces_validated += 1;
            if premise_f {
              for hmsg in hyp {
                // a fragment that contains its match but in which the regex finds nothing
                s.disagree("highlight.hypothesis", &sub, json!({"fragments": frags}), json!(hmsg));
              }
            }
          }
          Err(e) => s.disagree("highlight.model-error", &sub, json!({"fragments": frags}), json!(e)),
        }
      }
      if let Some(re) = re_snip.as_ref() {
        match model_fragments(drv, re, text, &vis_s, 120, 1, "**", "**", true, true) {
          Ok((mf, _, _)) => {
            let imp: Vec<Vec<u8>> = snippet.iter().map(|f| f.as_bytes().to_vec()).collect();
            if mf != imp {
              s.disagree("highlight.snippet", &sub, json!({"snippet": snippet}), json!({"snippet": mf.iter().map(|b| String::from_utf8_lossy(b).to_string()).collect::<Vec<_>>()}));
            }
          }
          Err(e) => s.disagree("highlight.model-error", &sub, json!({"snippet": snippet}), json!(e)),
        }
      }
    }
  }
  fn finish(&self, _tier: Tier, s: &mut Summary) {
    s.notes.push("regex results (find_at on the text, matches inside each fragment) are inputs of the model and come from the real regex crate; traces_validated = hits whose RegexOk hypotheses were evaluated".into());
  }
}
