//! C22 — completion suggestions are consistent with the term dictionary.
//!
//! One case = schema (text field `body` with one of three analyzers + keyword field `tag`),
//! a corpus, 2–3 segment layouts of the same corpus (one commit = one segment, unique ids, no
//! deletions) and a handful of completion requests (prefix / fuzzy).
//!
//! Oracle dictionary: every document is analysed with the REAL analyzers
//! (`Schema::build_analyzers`), giving term → set of documents; per layout that yields the
//! per-segment dictionaries `(term, df)` which are the model's input.
//!
//! Finder (implementation alone): ≤ size, sorted by (score desc, text asc) on the returned
//! scores, texts distinct, every option an indexed term with the analysed prefix / within
//! `max_edits` (own Levenshtein over chars) sharing the first `prefix_length` chars; while fewer
//! distinct terms than the scan cap match: `doc_freq` = number of documents containing the term
//! and identical options across layouts; same request twice = same answer.
//! Correspondence: `SL.Suggest.suggest` on the oracle dictionaries vs the implementation
//! (texts, doc_freq exact; scores ×6 with tolerance; neighbours with model-equal scores may swap
//! in fuzzy mode only).
use crate::idx;
use crate::proto::Driver;
use crate::rng::Rng;
use crate::summary::Summary;
use crate::util::scratch;
use crate::{Prop, Tier};
use searchlite_core::Schema;
use serde_json::{json, Value};
use std::collections::{BTreeMap, BTreeSet};

pub struct C22;
pub static P: C22 = C22;

const TOL: f64 = 2e-5;
const DEFAULT_SUGGEST_SCAN: usize = 64;
const MAX_SUGGEST_CANDIDATES: usize = 256;

fn schema_json(kind: u64) -> Value {
  let (analyzers, analyzer) = match kind {
    1 => (json!([{"name": "en", "tokenizer": "default", "filters": ["lowercase", {"stemmer": "english"}]}]), "en"),
    2 => (json!([{"name": "ws", "tokenizer": "whitespace", "filters": ["lowercase"]}]), "ws"),
    _ => (json!([]), "default"),
  };
  json!({
    "doc_id_field": "_id",
    "analyzers": analyzers,
    "text_fields": [{"name": "body", "analyzer": analyzer, "stored": true, "indexed": true}],
    "keyword_fields": [{"name": "tag", "stored": true, "indexed": true, "fast": false}],
    "numeric_fields": []
  })
}

/// syllable vocabulary with many shared prefixes and near neighbours, some non-ASCII
const SYL: [&str; 12] = ["ru", "ra", "st", "s", "t", "b", "by", "é", "ü", "日", "本", "a"];

fn word(rng: &mut Rng) -> String {
  let n = 1 + rng.below(4);
  let mut w = String::new();
  for _ in 0..n {
    // bias towards the first syllables so that prefixes are shared
    let k = if rng.chance(2, 3) { rng.below(5) } else { rng.below(SYL.len()) };
    w.push_str(SYL[k]);
  }
  w
}

fn mixed_case(rng: &mut Rng, w: &str) -> String {
  if rng.chance(1, 5) {
    w.chars().enumerate().map(|(i, c)| if i == 0 { c.to_uppercase().next().unwrap_or(c) } else { c }).collect()
  } else {
    w.to_string()
  }
}

fn lev(a: &[char], b: &[char]) -> usize {
  let mut prev: Vec<usize> = (0..=b.len()).collect();
  for i in 0..a.len() {
    let mut cur = vec![i + 1; b.len() + 1];
    for j in 0..b.len() {
      let c = if a[i] == b[j] { 0 } else { 1 };
      cur[j + 1] = (prev[j + 1] + 1).min(cur[j] + 1).min(prev[j] + c);
    }
    prev = cur;
  }
  prev[b.len()]
}

struct Req {
  field: String,
  prefix: String,
  size: usize,
  fuzzy: Option<(usize, usize, usize, usize)>, // max_edits, prefix_length, max_expansions, min_length
}

fn parse_req(v: &Value) -> Req {
  Req {
    field: v["field"].as_str().unwrap_or("body").to_string(),
    prefix: v["prefix"].as_str().unwrap_or("").to_string(),
    size: v["size"].as_u64().unwrap_or(5) as usize,
    fuzzy: v.get("fuzzy").filter(|f| !f.is_null()).map(|f| {
      (
        f["max_edits"].as_u64().unwrap_or(1) as usize,
        f["prefix_length"].as_u64().unwrap_or(1) as usize,
        f["max_expansions"].as_u64().unwrap_or(50) as usize,
        f["min_length"].as_u64().unwrap_or(3) as usize,
      )
    }),
  }
}

fn suggest_json(r: &Req) -> Value {
  let mut o = json!({"type": "completion", "field": r.field, "prefix": r.prefix, "size": r.size});
  if let Some((me, pl, mx, ml)) = r.fuzzy {
    o["fuzzy"] = json!({"max_edits": me, "prefix_length": pl, "max_expansions": mx, "min_length": ml});
  }
  o
}

/// the analysed prefix: last token of the search analyzer, else the raw prefix (text fields);
/// ASCII-lowercased prefix (keyword fields)
fn analysed_input(schema: &Schema, r: &Req) -> Result<String, String> {
  if r.field == "tag" {
    return Ok(r.prefix.to_ascii_lowercase());
  }
  let an = schema.build_analyzers().map_err(|e| e.to_string())?;
  let a = an.search_analyzer(&r.field).ok_or("no search analyzer")?;
  Ok(a.analyze(&r.prefix).last().map(|t| t.text.clone()).unwrap_or_else(|| r.prefix.clone()))
}

/// per document: the set of indexed terms of `field`
fn doc_terms(schema: &Schema, field: &str, docs: &[Value]) -> Result<Vec<BTreeSet<String>>, String> {
  let an = schema.build_analyzers().map_err(|e| e.to_string())?;
  let mut out = Vec::new();
  for d in docs {
    let mut set = BTreeSet::new();
    if field == "tag" {
      if let Some(s) = d["tag"].as_str() {
        set.insert(s.to_ascii_lowercase());
      }
    } else {
      let a = an.index_analyzer(field).ok_or("no index analyzer")?;
      for t in a.analyze(d[field].as_str().unwrap_or("")) {
        set.insert(t.text);
      }
    }
    out.push(set);
  }
  Ok(out)
}

fn scan_cap(r: &Req) -> usize {
  match r.fuzzy {
    None => r.size.saturating_mul(5).clamp(DEFAULT_SUGGEST_SCAN, MAX_SUGGEST_CANDIDATES),
    Some((_, _, mx, _)) => mx.min(MAX_SUGGEST_CANDIDATES).max(r.size),
  }
}

/// the property's membership clause: starts with the analysed prefix, or (fuzzy) within
/// `edits` of it sharing its first `prefix_length` characters
fn member(r: &Req, input: &str, term: &str, edits: usize) -> bool {
  if term.is_empty() {
    return false;
  }
  match r.fuzzy {
    None => term.starts_with(input),
    Some((_, pl, _, _)) => {
      let a: Vec<char> = input.chars().collect();
      let b: Vec<char> = term.chars().collect();
      let p = pl.min(a.len());
      b.len() >= p && a[..p] == b[..p] && lev(&a, &b) <= edits
    }
  }
}

/// terms the scan can accept (the code caps `max_edits` at 2): what "terms that match" means
/// when counting against the scan cap
fn qualifies(r: &Req, input: &str, term: &str) -> bool {
  member(r, input, term, r.fuzzy.map(|f| f.0.min(2)).unwrap_or(0))
}

#[derive(Clone, Debug, PartialEq)]
struct Opt {
  text: String,
  score: f64,
  df: u64,
}

fn options_of(resp: &Value, name: &str) -> Vec<Opt> {
  resp["suggest"][name]["options"]
    .as_array()
    .map(|a| {
      a.iter()
        .map(|o| Opt { text: o["text"].as_str().unwrap_or("").to_string(), score: o["score"].as_f64().unwrap_or(f64::NAN), df: o["doc_freq"].as_u64().unwrap_or(u64::MAX) })
        .collect()
    })
    .unwrap_or_default()
}

fn opts_json(o: &[Opt]) -> Value {
  Value::Array(o.iter().map(|x| json!({"text": x.text, "score": x.score, "doc_freq": x.df})).collect())
}

/// two option lists agree up to float noise: same length, scores pairwise close, doc_freq equal
/// per text, and texts equal position by position except inside runs of (nearly) equal scores
fn equivalent(a: &[Opt], b: &[Opt], exact: bool) -> bool {
  if exact {
    return a == b;
  }
  if a.len() != b.len() {
    return false;
  }
  for i in 0..a.len() {
    if !idx::close(a[i].score, b[i].score, TOL) {
      return false;
    }
  }
  // runs of close scores in `a`
  let mut i = 0;
  while i < a.len() {
    let mut j = i + 1;
    while j < a.len() && idx::close(a[j].score, a[i].score, 4.0 * TOL) {
      j += 1;
    }
    let last_run = j == a.len();
    let sa: BTreeSet<(&str, u64)> = a[i..j].iter().map(|o| (o.text.as_str(), o.df)).collect();
    let sb: BTreeSet<(&str, u64)> = b[i..j].iter().map(|o| (o.text.as_str(), o.df)).collect();
    // the last run may be cut by `size`: members may differ there, but a shared text must
    // carry the same doc_freq
    if sa != sb && !last_run {
      return false;
    }
    if last_run {
      for x in a[i..j].iter() {
        if let Some(y) = b[i..j].iter().find(|y| y.text == x.text) {
          if y.df != x.df {
            return false;
          }
        }
      }
    }
    i = j;
  }
  true
}

impl Prop for C22 {
  fn id(&self) -> &'static str {
    "C22"
  }
  fn rule(&self) -> &'static str {
    "case = (schema with analyzer default | lowercase+english stemmer | whitespace+lowercase, corpus of 6..60 docs over a syllable vocabulary incl. non-ASCII and mixed case, 2..3 segment layouts of the same corpus with 1..4 commits each and shuffled document order, 6 completion requests: text or keyword field, prefix of a corpus word / two-word prefix / empty / unknown, size 1..12, fuzzy options in 1 of 2 requests with max_edits 0..3, prefix_length 0..2, max_expansions 0..60, min_length 0..4; every 6th case is dense: 25..75 distinct words, 40..100 documents of 6..13 words, so that the prefix-mode scan cap of >= 64 expansions is reached); one evaluation per (case, request); non-trivial when some layout has >= 2 segments and the implementation returned >= 1 option; distinct = distinct (case, request) JSON"
  }
  fn count(&self, tier: Tier) -> usize {
    tier.pick(400, 12000)
  }
  fn gen(&self, rng: &mut Rng, _tier: Tier, i: usize) -> Value {
    let kind = (i % 3) as u64;
    // 1 case in 6 is "dense": many distinct words, long documents — every segment holds most
    // of the vocabulary, so the prefix-mode scan cap (>= 64 expansions) comes into play
    let dense = i % 6 == 5;
    let vspan = if dense { 50 } else if rng.chance(1, 3) { 60 } else { 24 };
    let nvocab = if dense { 25 + rng.below(vspan) } else { 4 + rng.below(vspan) };
    let vocab: Vec<String> = (0..nvocab).map(|_| word(rng)).collect();
    let dspan = if dense { 60 } else if rng.chance(1, 4) { 55 } else { 20 };
    let ndocs = if dense { 40 + rng.below(dspan) } else { 6 + rng.below(dspan) };
    let docs: Vec<Value> = (0..ndocs)
      .map(|d| {
        let n = if dense { 6 + rng.below(8) } else { 1 + rng.below(7) };
        let ws: Vec<String> = (0..n).map(|_| { let w = rng.pick(&vocab).clone(); mixed_case(rng, &w) }).collect();
        let sep = if rng.chance(1, 6) { ", " } else { " " };
        let tag = { let w = rng.pick(&vocab).clone(); mixed_case(rng, &w) };
        json!({"_id": format!("d{d}"), "body": ws.join(sep), "tag": tag})
      })
      .collect();
    // layouts: partitions of a shuffled document order into 1..4 commits
    let nlay = 2 + rng.below(2);
    let mut layouts = Vec::new();
    for l in 0..nlay {
      let mut order: Vec<usize> = (0..ndocs).collect();
      rng.shuffle(&mut order);
      let nseg = if l == 0 { 1 } else { 2 + rng.below(3) };
      let mut segs: Vec<Vec<usize>> = vec![Vec::new(); nseg];
      for (k, d) in order.iter().enumerate() {
        // every segment gets at least one document
        let s = if k < nseg { k } else { rng.below(nseg) };
        segs[s].push(*d);
      }
      layouts.push(segs);
    }
    let mut reqs = Vec::new();
    for _ in 0..6 {
      let field = if rng.chance(1, 5) { "tag" } else { "body" };
      let w = rng.pick(&vocab).clone();
      let chars: Vec<char> = w.chars().collect();
      let prefix = match rng.below(10) {
        0 => String::new(),
        1 => {
          let first = rng.pick(&vocab).clone();
          let cut = rng.below(chars.len() + 1);
          format!("{} {}", first, chars[..cut].iter().collect::<String>())
        }
        2 => "zq".to_string(),
        3 => mixed_case(rng, &w),
        4 => w.clone(),
        _ => chars[..1 + rng.below(chars.len())].iter().collect::<String>(),
      };
      let size = if rng.chance(1, 12) { 0 } else { 1 + rng.below(12) };
      let mut r = json!({"field": field, "prefix": prefix, "size": size});
      if rng.chance(1, 2) {
        let mx = match rng.below(15) { 0 => 0, 1 | 2 | 3 => 1 + rng.below(6), _ => 10 + rng.below(51) };
        let me = if rng.chance(1, 10) { 0 } else { 1 + rng.below(3) };
        let ml = if rng.chance(1, 4) { rng.below(5) } else { rng.below(2) };
        r["fuzzy"] = json!({"max_edits": me, "prefix_length": rng.below(3), "max_expansions": mx, "min_length": ml});
      }
      reqs.push(r);
    }
    json!({"schema": schema_json(kind), "docs": docs, "layouts": layouts, "requests": reqs, "mem": i % 4 != 0})
  }

  fn run_case(&self, drv: &mut Driver, case: &Value, s: &mut Summary) {
    let only = case.get("only").and_then(|c| c.as_u64()).map(|c| c as usize);
    let case = if only.is_some() { &case["case"] } else { case };
    let schema = match idx::schema(&case["schema"]) {
      Ok(x) => x,
      Err(e) => {
        s.notes.push(format!("C22 bad schema in case: {e}"));
        return;
      }
    };
    let docs: Vec<Value> = case["docs"].as_array().cloned().unwrap_or_default();
    let layouts: Vec<Vec<Vec<usize>>> = serde_json::from_value(case["layouts"].clone()).unwrap_or_default();
    let reqs: Vec<Req> = case["requests"].as_array().map(|a| a.iter().map(parse_req).collect()).unwrap_or_default();
    let mem = case["mem"].as_bool().unwrap_or(true);

    // ---- run the implementation: one index per layout, all requests in one search ----
    let mut sug = serde_json::Map::new();
    for (k, r) in reqs.iter().enumerate() {
      sug.insert(format!("r{k}"), suggest_json(r));
    }
    let sreq = json!({"query": {"type": "match_all"}, "limit": 1, "suggest": Value::Object(sug)});
    let mut responses: Vec<Value> = Vec::new();
    let mut repeat_ok = true;
    let mut dirs = Vec::new();
    for lay in layouts.iter() {
      let dir = scratch();
      let built = (|| -> Result<Value, String> {
        let index = idx::create(dir.path(), &case["schema"], mem)?;
        for seg in lay.iter() {
          let batch: Vec<Value> = seg.iter().map(|d| docs[*d].clone()).collect();
          idx::add_commit(&index, &batch)?;
        }
        let reader = index.reader().map_err(|e| e.to_string())?;
        if reader.segments.len() != lay.len() {
          return Err(format!("expected {} segments, reader has {}", lay.len(), reader.segments.len()));
        }
        let a = idx::search(&reader, &sreq);
        let b = idx::search(&reader, &sreq);
        match (&a, &b) {
          (idx::Outcome::Ok(x), idx::Outcome::Ok(y)) => {
            if x["suggest"] != y["suggest"] {
              repeat_ok = false;
            }
            Ok(x.clone())
          }
          _ => Err(format!("search: {}", a.to_json())),
        }
      })();
      dirs.push(dir);
      match built {
        Ok(v) => responses.push(v),
        Err(e) => {
          s.fail("suggest.error", "building the index or the suggest request failed", case, json!(e));
          return;
        }
      }
    }
    if !repeat_ok {
      s.fail("suggest.nondeterministic", "the same request on the same reader gave two different suggestion lists", case, json!(null));
    }

    for (k, r) in reqs.iter().enumerate() {
      if only.map(|o| o != k).unwrap_or(false) {
        continue;
      }
      let sub = json!({"case": case, "only": k});
      let name = format!("r{k}");
      let input = match analysed_input(&schema, r) {
        Ok(x) => x,
        Err(e) => {
          s.notes.push(format!("C22 analyser: {e}"));
          continue;
        }
      };
      let dterms = match doc_terms(&schema, &r.field, &docs) {
        Ok(x) => x,
        Err(e) => {
          s.notes.push(format!("C22 analyser: {e}"));
          continue;
        }
      };
      // corpus-level truth: term -> number of documents containing it
      let mut total: BTreeMap<String, u64> = BTreeMap::new();
      for set in dterms.iter() {
        for t in set {
          *total.entry(t.clone()).or_insert(0) += 1;
        }
      }
      let enabled = match r.fuzzy {
        None => true,
        Some((me, _, mx, ml)) => input.chars().count() >= ml && mx != 0 && me.min(2) != 0,
      };
      let matching: Vec<&String> = total.keys().filter(|t| qualifies(r, &input, t)).collect();
      let cap = scan_cap(r);
      let below_cap = matching.len() < cap;
      let results: Vec<Vec<Opt>> = responses.iter().map(|v| options_of(v, &name)).collect();
      let multi = layouts.iter().any(|l| l.len() >= 2);
      s.case(&sub, multi && results.iter().any(|o| !o.is_empty()));
      s.count(if r.fuzzy.is_some() { "mode_fuzzy" } else { "mode_prefix" });
      s.count(if r.field == "tag" { "field_keyword" } else { "field_text" });
      if !enabled {
        s.count("fuzzy_disabled_by_options");
      }
      if results.iter().all(|o| o.is_empty()) {
        s.count("no_options");
      }
      if !below_cap {
        s.count("matching_terms_at_or_above_cap");
      }
      s.add("options_returned", results.iter().map(|o| o.len() as u64).sum());

      // per layout: segment dictionaries and number of qualifying (segment, term) pairs
      let mut seg_dicts: Vec<Vec<Vec<(String, u64)>>> = Vec::new();
      let mut pairs: Vec<usize> = Vec::new();
      for lay in layouts.iter() {
        let mut ds = Vec::new();
        let mut np = 0usize;
        for seg in lay.iter() {
          let mut m: BTreeMap<String, u64> = BTreeMap::new();
          for d in seg {
            for t in dterms[*d].iter() {
              *m.entry(t.clone()).or_insert(0) += 1;
            }
          }
          np += m.keys().filter(|t| qualifies(r, &input, t)).count();
          ds.push(m.into_iter().collect::<Vec<_>>());
        }
        seg_dicts.push(ds);
        pairs.push(if enabled { np } else { 0 });
      }
      if pairs.iter().any(|p| *p > cap) {
        s.count("some_layout_pairs_above_cap");
        if r.fuzzy.is_none() {
          s.count("some_layout_pairs_above_cap_prefix_mode");
        }
        if below_cap {
          s.count("pairs_above_cap_but_terms_below_cap");
        }
      }

      // ---------------- finder: the property on the implementation alone ----------------
      for (li, opts) in results.iter().enumerate() {
        let obs = json!({"layout": li, "input": input, "options": opts_json(opts)});
        if opts.len() > r.size {
          s.fail("suggest.size", "more than `size` options returned", &sub, obs.clone());
        }
        for w in opts.windows(2) {
          let ok = w[0].score > w[1].score || (w[0].score == w[1].score && w[0].text < w[1].text);
          if !ok {
            s.fail("suggest.order", "options not sorted by score descending then text ascending (or a text is repeated)", &sub, obs.clone());
            break;
          }
        }
        for o in opts.iter() {
          let Some(n) = total.get(&o.text) else {
            s.fail("suggest.not-indexed", "an option is not an indexed term of the field", &sub, obs.clone());
            continue;
          };
          if !member(r, &input, &o.text, r.fuzzy.map(|f| f.0).unwrap_or(0)) {
            let sig = if r.fuzzy.is_some() { "suggest.fuzzy-membership" } else { "suggest.prefix" };
            s.fail(sig, "an option does not start with the analysed prefix / is not within max_edits sharing the first prefix_length characters", &sub, obs.clone());
          }
          if below_cap && o.df != *n {
            if pairs[li] > cap {
              s.fail(
                "suggest.cap-counts-segment-pairs",
                "doc_freq is smaller than the number of documents containing the term although fewer distinct terms than the scan cap match: the cap is consumed once per (segment, term)",
                &sub,
                json!({"layout": li, "input": input, "term": o.text, "doc_freq": o.df, "documents_containing_term": n, "matching_terms": matching.len(), "matching_segment_term_pairs": pairs[li], "scan_cap": cap}),
              );
            } else {
              s.fail("suggest.doc-freq", "doc_freq differs from the number of documents containing the term (below the scan cap)", &sub, json!({"layout": li, "term": o.text, "doc_freq": o.df, "expected": n}));
            }
          }
        }
      }
      if below_cap {
        for li in 1..results.len() {
          if !equivalent(&results[0], &results[li], r.fuzzy.is_none()) {
            let obs = json!({"input": input, "layout_0": opts_json(&results[0]), "layout_n": li, "options_n": opts_json(&results[li]), "matching_terms": matching.len(), "pairs": pairs, "scan_cap": cap});
            if pairs[0] > cap || pairs[li] > cap {
              s.fail("suggest.cap-counts-segment-pairs", "options differ between two segment layouts of the same corpus although fewer distinct terms than the scan cap match: the cap is consumed once per (segment, term)", &sub, obs);
            } else {
              s.fail("suggest.layout", "options differ between two segment layouts of the same corpus (below the scan cap)", &sub, obs);
            }
          }
        }
      }

      // ---------------- correspondence with the model ----------------
      for (li, opts) in results.iter().enumerate() {
        let segs_json: Vec<Value> = seg_dicts[li].iter().map(|d| Value::Array(d.iter().map(|(t, n)| json!([t, n])).collect())).collect();
        let fz = match r.fuzzy {
          None => Value::Null,
          Some((me, pl, mx, ml)) => json!({"max_edits": me, "prefix_length": pl, "max_expansions": mx, "min_length": ml}),
        };
        let m = drv.call("C22", json!({"op": "suggest", "segs": segs_json, "input": input, "size": r.size, "fuzzy": fz}));
        let imp = json!({"layout": li, "input": input, "options": opts_json(opts)});
        if m["ok"] != json!(true) {
          s.disagree("suggest.model-error", &sub, imp, m);
          continue;
        }
        let mo: Vec<Opt> = m["options"].as_array().map(|a| a.iter().map(|o| Opt { text: o["text"].as_str().unwrap_or("").to_string(), score: o["score6"].as_f64().unwrap_or(f64::NAN) / 6.0, df: o["doc_freq"].as_u64().unwrap_or(u64::MAX) }).collect()).unwrap_or_default();
        let all: BTreeMap<String, (f64, u64)> = m["all"].as_array().map(|a| a.iter().map(|o| (o["text"].as_str().unwrap_or("").to_string(), (o["score6"].as_f64().unwrap_or(f64::NAN) / 6.0, o["doc_freq"].as_u64().unwrap_or(u64::MAX)))).collect()).unwrap_or_default();
        let mut ok = mo.len() == opts.len();
        if ok {
          for i in 0..opts.len() {
            // the implementation's i-th option must be a model candidate with the model's
            // doc_freq and score, and its score must equal the model's i-th score
            match all.get(&opts[i].text) {
              Some((sc, df)) => {
                if *df != opts[i].df || !idx::close(*sc, opts[i].score, TOL) || !idx::close(mo[i].score, opts[i].score, TOL) {
                  ok = false;
                }
              }
              None => ok = false,
            }
            if opts[i].text != mo[i].text && r.fuzzy.is_none() {
              ok = false;
            }
          }
        }
        if !ok {
          s.disagree("suggest.options", &sub, imp, json!({"options": m["options"], "all": m["all"]}));
        }
      }
    }
    drop(dirs);
  }
  fn finish(&self, _tier: Tier, s: &mut Summary) {
    s.notes.push("scores: the model carries 6*score exactly; the implementation accumulates f32 — compared with relative tolerance 2e-5".into());
  }
}
