//! C23 — not built yet (stub).
use crate::proto::Driver;
use crate::rng::Rng;
use crate::summary::Summary;
use crate::{Prop, Tier};
use serde_json::{json, Value};

pub struct Stub;
pub static P: Stub = Stub;

impl Prop for Stub {
  fn id(&self) -> &'static str {
    "C23"
  }
  fn rule(&self) -> &'static str {
    "stub"
  }
  fn count(&self, _tier: Tier) -> usize {
    0
  }
  fn gen(&self, _rng: &mut Rng, _tier: Tier, _i: usize) -> Value {
    json!(null)
  }
  fn run_case(&self, _drv: &mut Driver, _case: &Value, _s: &mut Summary) {}
}
