//! C23 — HTTP writes acknowledged as queued are never silently dropped.
//! One real `searchlite_http` server per case (in process, own loopback port, own index
//! directory); the case is a sequence of raw request bodies for `/add` (NDJSON), `/bulk`,
//! `/delete`, `/commit`, `/refresh`, `/compact`, `/search`.
//! Correspondence: after EVERY request the response class, the pending operations of the log
//! file (the implementation's own `Wal::last_pending_ops` on the index directory) and the
//! contents a `/search` match_all returns are compared with `SL.HttpWrites.mechTrace`
//! (`denote` + `mechStep`, `repaired = REPAIRED`).
//! Finder (implementation alone, no model): an acknowledged request (2xx with `queued`) appends
//! exactly its own operations to the log; a rejected request leaves the log as it was (in
//! particular none of its own documents and none of the earlier acknowledged operations lost);
//! after every successful `/commit` the contents equal the fold, in order, of all acknowledged
//! operations since the previous commit over the previous contents (stored fields = what the
//! implementation stores for that document in a fresh single-document index) and the log is
//! empty; no other request changes what `/search` returns.
use super::c04::{canon, canon_map, model_contents, ref_stored};
use super::c24::httpc::*;
use crate::proto::Driver;
use crate::rng::Rng;
use crate::summary::Summary;
use crate::util::scratch;
use crate::{Prop, Tier};
use searchlite_core::storage::FsStorage;
use searchlite_core::wal::{Wal, WalEntry};
use serde_json::{json, Value};
use std::collections::{BTreeMap, HashMap};
use std::path::Path;

pub struct C23;
pub static P: C23 = C23;

/// which denotation of the model the implementation is compared with: `true` = the code as it
/// exists since /repo commit 69e89dd (`add_documents`: the whole batch is validated before
/// anything is appended), `false` = the legacy handler (a failing `/add` or `/bulk` truncated the
/// whole log).  The finder does not depend on it.
const REPAIRED: bool = true;

/// `VERIF_C23_REPAIRED=0|1` overrides the constant (experiments only)
fn repaired() -> bool {
  match std::env::var("VERIF_C23_REPAIRED").as_deref() {
    Ok("1") => true,
    Ok("0") => false,
    _ => REPAIRED,
  }
}

/// signature of the original defect (known_findings.json: fixed in 69e89dd) — any occurrence is
/// a regression
const KNOWN_DROP: &str = "http.acked-write-dropped-by-later-rejected-request";

const WORDS: [&str; 6] = ["rust", "search", "engine", "fast", "lite", "index"];

fn schema_of(i: u64) -> Value {
  match i % 2 {
    // every field stored: compaction allowed
    0 => json!({"doc_id_field":"_id",
      "text_fields":[{"name":"body","analyzer":"default","stored":true,"indexed":true}],
      "keyword_fields":[{"name":"tag","stored":true,"indexed":true,"fast":true}],
      "numeric_fields":[{"name":"n","i64":true,"fast":true,"stored":true}]}),
    // `n` fast but not stored: `/compact` of two or more segments is refused (500)
    _ => json!({"doc_id_field":"_id",
      "text_fields":[{"name":"body","analyzer":"default","stored":true,"indexed":true}],
      "keyword_fields":[{"name":"tag","stored":true,"indexed":true,"fast":true}],
      "numeric_fields":[{"name":"n","i64":true,"fast":true,"stored":false}]}),
  }
}

// ---------------------------------------------------------------------------------------------
// generator
// ---------------------------------------------------------------------------------------------

fn valid_doc(rng: &mut Rng, version: &mut u64) -> Value {
  *version += 1;
  let id = format!("d{}", rng.below(6));
  let nw = 1 + rng.below(3);
  let mut words: Vec<String> = (0..nw).map(|_| rng.pick(&WORDS).to_string()).collect();
  words.push(format!("v{version}"));
  let mut d = json!({"_id": id, "body": words.join(" ")});
  match rng.below(4) {
    0 => {
      let t = ["a", "b", "c"][rng.below(3)];
      d["tag"] = json!(t);
    }
    1 => {
      let second = ["b", "c"][rng.below(2)];
      d["tag"] = json!(["a", second]);
    }
    _ => {}
  }
  if rng.chance(1, 2) {
    d["n"] = json!(rng.below(50));
  }
  d
}

/// a JSON object that `add_documents` rejects (`validate_document`)
fn invalid_doc(rng: &mut Rng, version: &mut u64) -> Value {
  let mut d = valid_doc(rng, version);
  match rng.below(11) {
    9 => d["extra"] = json!("not in the schema"),
    10 => d["body.raw"] = json!(1),
    0 | 1 => {
      d.as_object_mut().unwrap().remove("_id");
    }
    2 => d["_id"] = json!(7),
    3 => d["_id"] = json!(""),
    4 => d["_id"] = json!(" \t"),
    5 => d["n"] = json!("seven"),
    6 => d["n"] = json!(1.5),
    7 => d["tag"] = json!(["a", 3]),
    _ => d["body"] = Value::Null,
  }
  d
}

fn bad_line(rng: &mut Rng) -> String {
  ["{\"_id\": \"d1\", \"body\": ", "[1, 2]", "\"just a string\"", "nope", "{\"_id\": \"d1\"}}"][rng.below(5)].to_string()
}

fn ndjson(lines: &[String], rng: &mut Rng) -> String {
  let mut out = String::new();
  for l in lines {
    out.push_str(l);
    out.push_str(if rng.chance(1, 8) { "\r\n" } else { "\n" });
    if rng.chance(1, 10) {
      out.push_str(if rng.chance(1, 2) { "\n" } else { "   \n" });
    }
  }
  out
}

fn gen_batch(rng: &mut Rng, version: &mut u64, invalid: bool) -> Vec<Value> {
  let n = 1 + rng.below(4);
  let mut docs: Vec<Value> = (0..n).map(|_| valid_doc(rng, version)).collect();
  if invalid {
    let at = rng.below(n);
    docs[at] = invalid_doc(rng, version);
    if rng.chance(1, 4) {
      let at2 = rng.below(n);
      docs[at2] = invalid_doc(rng, version);
    }
  }
  docs
}

fn gen_request(rng: &mut Rng, version: &mut u64) -> Value {
  let r = rng.below(100);
  match r {
    0..=27 => {
      let lines: Vec<String> = gen_batch(rng, version, false).iter().map(|d| d.to_string()).collect();
      json!({"ep": "add", "body": ndjson(&lines, rng)})
    }
    28..=34 => {
      let lines: Vec<String> = gen_batch(rng, version, true).iter().map(|d| d.to_string()).collect();
      json!({"ep": "add", "body": ndjson(&lines, rng)})
    }
    35..=38 => {
      let inv = rng.chance(1, 3);
      let mut lines: Vec<String> = gen_batch(rng, version, inv).iter().map(|d| d.to_string()).collect();
      let at = rng.below(lines.len() + 1);
      lines.insert(at, bad_line(rng));
      json!({"ep": "add", "body": ndjson(&lines, rng)})
    }
    39..=40 => {
      let body = ["", "\n", "  \n\n"][rng.below(3)];
      json!({"ep": "add", "body": body})
    }
    41..=53 => json!({"ep": "bulk", "body": json!({"docs": gen_batch(rng, version, false)}).to_string()}),
    54..=58 => json!({"ep": "bulk", "body": json!({"docs": gen_batch(rng, version, true)}).to_string()}),
    59..=62 => {
      let body = match rng.below(5) {
        0 => json!({"docs": []}).to_string(),
        1 => json!({"docs": [valid_doc(rng, version), 5]}).to_string(),
        2 => "{\"docs\": [".to_string(),
        3 => json!({"documents": [valid_doc(rng, version)]}).to_string(),
        _ => json!({"docs": {"_id": "d1"}}).to_string(),
      };
      json!({"ep": "bulk", "body": body})
    }
    63..=73 => {
      let n = 1 + rng.below(3);
      let ids: Vec<String> = (0..n).map(|_| if rng.chance(1, 6) { "zz".to_string() } else { format!("d{}", rng.below(6)) }).collect();
      json!({"ep": "delete", "body": json!({"ids": ids}).to_string()})
    }
    74..=77 => {
      let body = match rng.below(7) {
        0 => json!({"ids": []}).to_string(),
        1 => json!({"ids": ["d1", ""]}).to_string(),
        2 => json!({"ids": [" d2"]}).to_string(),
        3 => json!({"ids": ["d3", "d0\u{1}"]}).to_string(),
        4 => json!({"ids": ["d4\t"]}).to_string(),
        5 => json!({"ids": ["d1", 2]}).to_string(),
        _ => "{\"ids\": [\"d1\"".to_string(),
      };
      json!({"ep": "delete", "body": body})
    }
    78..=90 => json!({"ep": "commit"}),
    91..=92 => json!({"ep": "refresh"}),
    93..=95 => json!({"ep": "compact"}),
    _ => json!({"ep": "search"}),
  }
}

// ---------------------------------------------------------------------------------------------
// the harness's reading of a request body (what reaches the library) — serde_json only
// ---------------------------------------------------------------------------------------------

/// model request for a case request
fn classify(req: &Value) -> Value {
  let ep = req["ep"].as_str().unwrap_or("");
  let body = req["body"].as_str().unwrap_or("");
  match ep {
    "add" => {
      let mut docs = Vec::new();
      for line in body.split('\n') {
        let t = line.trim();
        if t.is_empty() {
          continue;
        }
        match serde_json::from_str::<Value>(t) {
          Ok(v) if v.is_object() => docs.push(v),
          _ => return json!({"kind": "malformed"}),
        }
      }
      json!({"kind": "add", "docs": docs})
    }
    "bulk" => match serde_json::from_str::<Value>(body) {
      Ok(v) => match v.get("docs").and_then(|d| d.as_array()) {
        Some(a) if v.is_object() => {
          // an empty array is answered `missing_documents` before the elements are looked at
          if !a.is_empty() && a.iter().any(|d| !d.is_object()) {
            json!({"kind": "malformed"})
          } else {
            json!({"kind": "bulk", "docs": a})
          }
        }
        _ => json!({"kind": "malformed"}),
      },
      Err(_) => json!({"kind": "malformed"}),
    },
    "delete" => match serde_json::from_str::<Value>(body) {
      Ok(v) => match v.get("ids").and_then(|d| d.as_array()) {
        Some(a) if v.is_object() && a.iter().all(|x| x.is_string()) => json!({"kind": "delete", "ids": a}),
        _ => json!({"kind": "malformed"}),
      },
      Err(_) => json!({"kind": "malformed"}),
    },
    other => json!({"kind": other}),
  }
}

/// the operations the request carries: (is_add, id, document)
fn own_ops(m: &Value) -> Vec<(bool, String, Option<Value>)> {
  match m["kind"].as_str().unwrap_or("") {
    "add" | "bulk" => m["docs"]
      .as_array()
      .map(|a| a.iter().map(|d| (true, d["_id"].as_str().unwrap_or("").to_string(), Some(d.clone()))).collect())
      .unwrap_or_default(),
    "delete" => m["ids"].as_array().map(|a| a.iter().map(|i| (false, i.as_str().unwrap_or("").to_string(), None)).collect()).unwrap_or_default(),
    _ => Vec::new(),
  }
}

type Op = (bool, String, Option<Value>);

fn ops_json(q: &[Op]) -> Value {
  Value::Array(q.iter().map(|(a, i, _)| json!([a, i])).collect())
}

fn same_ops(a: &[Op], b: &[Op]) -> bool {
  a.len() == b.len() && a.iter().zip(b).all(|(x, y)| x.0 == y.0 && x.1 == y.1 && x.2.as_ref().map(canon) == y.2.as_ref().map(canon))
}

fn wal_pending(dir: &Path) -> Result<Vec<Op>, String> {
  let st = FsStorage::new(dir.to_path_buf());
  let entries = Wal::last_pending_ops(&st, &dir.join("wal.log")).map_err(|e| e.to_string())?;
  Ok(
    entries
      .into_iter()
      .filter_map(|e| match e {
        WalEntry::AddDoc(d) => {
          let id = d.fields.get("_id").and_then(|v| v.as_str()).unwrap_or("").to_string();
          Some((true, id, Some(Value::Object(d.fields.into_iter().collect()))))
        }
        WalEntry::DeleteDocId(id) => Some((false, id, None)),
        WalEntry::Commit => None,
      })
      .collect(),
  )
}

/// id → stored fields, through the service
fn http_contents(port: u16) -> Result<BTreeMap<String, Value>, String> {
  let req = json!({"query": {"type": "match_all"}, "limit": 100000, "return_stored": true, "execution": "bm25"});
  let r = post_json(port, "/search", &req);
  if r.status != Some(200) {
    return Err(format!("search status {:?}: {}", r.status, r.body_text()));
  }
  let v = r.json().ok_or("search body is not JSON")?;
  let mut out = BTreeMap::new();
  for h in v["hits"].as_array().cloned().unwrap_or_default() {
    let id = h["doc_id"].as_str().unwrap_or("").to_string();
    if out.insert(id.clone(), canon(&h["fields"])).is_some() {
      return Err(format!("duplicate live id {id}"));
    }
  }
  Ok(out)
}

fn apply(exp: &mut BTreeMap<String, Value>, ops: &[Op]) {
  for (is_add, id, doc) in ops {
    if *is_add {
      exp.insert(id.clone(), doc.clone().unwrap_or(Value::Null));
    } else {
      exp.remove(id);
    }
  }
}

/// expected contents (raw documents) → what the implementation stores for them
fn stored_of(schema: &Value, exp: &BTreeMap<String, Value>, cache: &mut HashMap<String, Result<Value, String>>) -> Result<BTreeMap<String, Value>, String> {
  let mut out = BTreeMap::new();
  for (id, raw) in exp {
    out.insert(id.clone(), ref_stored(schema, raw, cache)?);
  }
  Ok(out)
}

fn start_server(dir: &Path, refresh: bool, schema: &Value) -> Result<Server, String> {
  let mut last = String::new();
  for _ in 0..4 {
    let sv = Server::start(dir, &ServerCfg { refresh_on_commit: refresh, ..Default::default() })?;
    let r = post_json(sv.port, "/init", schema);
    if r.status != Some(200) && r.status != Some(409) {
      last = format!("/init: {:?} {}", r.status, r.body_text());
      continue;
    }
    // make sure the port is served by *this* case's server (ports are picked concurrently)
    let st = simple(sv.port, "GET", "/stats", None, b"");
    let ours = st.json().map(|v| v["index_path"].as_str().map(|p| Path::new(p) == dir).unwrap_or(false)).unwrap_or(false);
    if ours {
      return Ok(sv);
    }
    last = "port answered by another server".into();
  }
  Err(last)
}

// ---------------------------------------------------------------------------------------------
// concurrent stream: acknowledged writes racing with /commit
// ---------------------------------------------------------------------------------------------

fn gen_concurrent(rng: &mut Rng) -> Value {
  let clients = 3;
  let mut version = 0u64;
  let mut all = Vec::new();
  for c in 0..clients {
    let n = 24 + rng.below(12);
    let mut ops: Vec<Value> = Vec::new();
    let mut used: Vec<String> = Vec::new();
    for k in 0..n {
      version += 1;
      let pick_old = !used.is_empty() && rng.chance(1, 6);
      if pick_old && rng.chance(1, 2) {
        let id = used[rng.below(used.len())].clone();
        ops.push(json!({"delete": id}));
        continue;
      }
      let id = if pick_old { used[rng.below(used.len())].clone() } else { format!("c{c}-{k}") };
      let mut d = json!({"_id": id, "body": format!("{} v{version}", rng.pick(&WORDS))});
      if rng.chance(1, 3) {
        d["n"] = json!(rng.below(50));
      }
      used.push(id);
      ops.push(if rng.chance(1, 4) { json!({"bulk": d}) } else { json!({"add": d}) });
    }
    all.push(Value::Array(ops));
  }
  json!({"kind": "concurrent", "schema": 0, "refresh_on_commit": rng.chance(1, 3), "clients": all, "staged_rounds": 5 + rng.below(4)})
}

/// pause point control for the staged rounds
#[derive(Default)]
struct Stage {
  m: std::sync::Mutex<StageSt>,
  cv: std::sync::Condvar,
}
#[derive(Default)]
struct StageSt {
  armed: bool,
  paused: bool,
  released: bool,
}

fn send_op(port: u16, op: &Value) -> bool {
  let r = if let Some(d) = op.get("add") {
    simple(port, "POST", "/add", Some("application/x-ndjson"), format!("{d}\n").as_bytes())
  } else if let Some(d) = op.get("bulk") {
    post_json(port, "/bulk", &json!({"docs": [d]}))
  } else {
    post_json(port, "/delete", &json!({"ids": [op["delete"].clone()]}))
  };
  let st = r.status.unwrap_or(0);
  (200..300).contains(&st) && r.json().map(|j| j["queued"] == json!(1)).unwrap_or(false)
}

fn model_req(op: &Value) -> Value {
  if let Some(d) = op.get("add") {
    json!({"kind": "add", "docs": [d]})
  } else if let Some(d) = op.get("bulk") {
    json!({"kind": "bulk", "docs": [d]})
  } else {
    json!({"kind": "delete", "ids": [op["delete"].clone()]})
  }
}

fn run_concurrent(drv: &mut Driver, case: &Value, s: &mut Summary) {
  use std::sync::atomic::{AtomicBool, AtomicU64, Ordering};
  use std::sync::Arc;
  use std::time::{Duration, Instant};
  let schema = schema_of(case["schema"].as_u64().unwrap_or(0));
  let refresh = case["refresh_on_commit"] == json!(true);
  let clients: Vec<Vec<Value>> = case["clients"].as_array().map(|a| a.iter().map(|c| c.as_array().cloned().unwrap_or_default()).collect()).unwrap_or_default();
  let rounds = case["staged_rounds"].as_u64().unwrap_or(0) as usize;
  let tmp = scratch();
  let dir = tmp.path().join("idx");
  let sv = match start_server(&dir, refresh, &schema) {
    Ok(sv) => sv,
    Err(e) => {
      s.disagree("http.server-start", case, json!(e), json!(null));
      return;
    }
  };
  let port = sv.port;
  let stage = Arc::new(Stage::default());
  {
    let st = stage.clone();
    searchlite_core::storage::verif::install_points(
      dir.clone(),
      Arc::new(move |_root, kind, name| {
        if kind == "exit" && name == "writer.new" {
          let mut g = st.m.lock().unwrap();
          if g.armed {
            g.armed = false;
            g.paused = true;
            st.cv.notify_all();
            let deadline = Instant::now() + Duration::from_secs(3);
            while !g.released && Instant::now() < deadline {
              g = st.cv.wait_timeout(g, Duration::from_millis(50)).unwrap().0;
            }
          }
        }
      }),
    );
  }

  // ---- storm: clients write while one thread commits in a tight loop ----
  let done = AtomicBool::new(false);
  let commits = AtomicU64::new(0);
  let commit_errors = AtomicU64::new(0);
  let mut acked: Vec<Vec<(Value, bool)>> = Vec::new();
  std::thread::scope(|sc| {
    let committer = sc.spawn(|| {
      while !done.load(Ordering::SeqCst) {
        let r = simple(port, "POST", "/commit", None, b"");
        if r.status == Some(200) {
          commits.fetch_add(1, Ordering::SeqCst);
        } else {
          commit_errors.fetch_add(1, Ordering::SeqCst);
        }
      }
    });
    let hs: Vec<_> = clients.iter().map(|ops| sc.spawn(move || ops.iter().map(|op| (op.clone(), send_op(port, op))).collect::<Vec<_>>())).collect();
    for h in hs {
      acked.push(h.join().unwrap_or_default());
    }
    done.store(true, Ordering::SeqCst);
    let _ = committer.join();
  });

  // ---- staged rounds: an /add is held right after its writer was created (both locks held in
  // the code as it is) while a /commit arrives; then the /add goes on and is acknowledged ----
  let mut staged: Vec<(Value, bool)> = Vec::new();
  let mut paused_rounds = 0usize;
  for r in 0..rounds {
    let op = json!({"add": {"_id": format!("s-{r}"), "body": format!("staged v{r}")}});
    {
      let mut g = stage.m.lock().unwrap();
      *g = StageSt { armed: true, paused: false, released: false };
    }
    let ok = std::thread::scope(|sc| {
      let a = sc.spawn(|| send_op(port, &op));
      let t0 = Instant::now();
      {
        let mut g = stage.m.lock().unwrap();
        while !g.paused && t0.elapsed() < Duration::from_secs(3) {
          g = stage.cv.wait_timeout(g, Duration::from_millis(20)).unwrap().0;
        }
        if g.paused {
          paused_rounds += 1;
        }
      }
      let c = sc.spawn(|| simple(port, "POST", "/commit", None, b"").status == Some(200));
      std::thread::sleep(Duration::from_millis(25));
      {
        let mut g = stage.m.lock().unwrap();
        g.armed = false;
        g.released = true;
        stage.cv.notify_all();
      }
      let ok = a.join().unwrap_or(false);
      if c.join().unwrap_or(false) {
        commits.fetch_add(1, Ordering::SeqCst);
      } else {
        commit_errors.fetch_add(1, Ordering::SeqCst);
      }
      ok
    });
    staged.push((op, ok));
  }
  searchlite_core::storage::verif::uninstall_points(&dir);
  acked.push(staged);

  // ---- quiesce, final commit, observe ----
  let fin = simple(port, "POST", "/commit", None, b"");
  let contents = http_contents(port);
  let ctx = json!({"case": case});
  s.add("concurrent.requests", acked.iter().map(|c| c.len() as u64).sum());
  s.add("concurrent.commits-completed", commits.load(Ordering::SeqCst));
  s.add("concurrent.staged-rounds-paused", paused_rounds as u64);
  let nontrivial = commits.load(Ordering::SeqCst) >= 2 + rounds as u64 && paused_rounds == rounds;
  s.case(case, nontrivial);
  if fin.status != Some(200) || commit_errors.load(Ordering::SeqCst) > 0 {
    s.fail("http.concurrent.commit-failed", "a /commit was not answered 200 during the concurrent stream", &ctx, json!({"final": fin.status, "errors": commit_errors.load(Ordering::SeqCst), "body": fin.body_text()}));
    return;
  }
  let contents = match contents {
    Ok(c) => c,
    Err(e) => {
      s.fail("http.search-failed", "match_all through /search failed or returned an id twice", &ctx, json!(e));
      return;
    }
  };

  // ---- finder: every acknowledged write is applied (per-client order; id ranges are disjoint) ----
  let mut expect: BTreeMap<String, Option<Value>> = BTreeMap::new();
  let mut uncertain: Vec<String> = Vec::new();
  let mut mreqs: Vec<Value> = Vec::new();
  for client in &acked {
    for (op, ok) in client {
      let (id, doc) = if let Some(d) = op.get("add").or(op.get("bulk")) { (d["_id"].as_str().unwrap_or("").to_string(), Some(d.clone())) } else { (op["delete"].as_str().unwrap_or("").to_string(), None) };
      if *ok {
        expect.insert(id, doc);
        mreqs.push(model_req(op));
      } else {
        s.count("concurrent.unacknowledged-write");
        uncertain.push(id);
      }
    }
  }
  let mut cache: HashMap<String, Result<Value, String>> = HashMap::new();
  let (mut missing, mut stale, mut undeleted, mut foreign) = (Vec::new(), Vec::new(), Vec::new(), Vec::new());
  for (id, want) in &expect {
    if uncertain.contains(id) {
      continue;
    }
    match (want, contents.get(id)) {
      (Some(_), None) => missing.push(id.clone()),
      (Some(d), Some(have)) => {
        if let Ok(w) = ref_stored(&schema, d, &mut cache) {
          if &w != have {
            stale.push(id.clone());
          }
        }
      }
      (None, Some(_)) => undeleted.push(id.clone()),
      (None, None) => {}
    }
  }
  for id in contents.keys() {
    if !expect.contains_key(id) && !uncertain.contains(id) {
      foreign.push(id.clone());
    }
  }
  if !(missing.is_empty() && stale.is_empty() && undeleted.is_empty() && foreign.is_empty()) {
    s.fail(
      "http.concurrent.acked-write-lost",
      "after concurrent acknowledged writes and commits, quiescence and a final /commit the contents lack acknowledged adds / hold stale versions / still hold documents whose deletion was acknowledged",
      &ctx,
      json!({"acknowledged_adds_missing": missing, "stale_versions": stale, "acknowledged_deletes_not_applied": undeleted, "unknown_ids": foreign,
             "acknowledged_writes": expect.len(), "commits_completed": commits.load(Ordering::SeqCst), "staged_rounds_paused": paused_rounds}),
    );
  }

  // ---- correspondence: the serial order client by client, then /commit (SL.HttpSched:
  // lock-first interleavings are serial; disjoint id ranges make every such order equivalent) ----
  if uncertain.is_empty() {
    mreqs.push(json!({"kind": "commit"}));
    let m = drv.call("C23", json!({"op": "run", "repaired": repaired(), "schema": schema, "reqs": mreqs}));
    let last = m["steps"].as_array().and_then(|a| a.last().cloned()).unwrap_or(Value::Null);
    if m["ok"] != json!(true) {
      s.disagree("http.driver", &ctx, json!(null), m);
    } else if model_contents(&last["contents"]) != contents {
      let mc = model_contents(&last["contents"]);
      let only_model: Vec<&String> = mc.keys().filter(|k| !contents.contains_key(*k)).collect();
      let only_impl: Vec<&String> = contents.keys().filter(|k| !mc.contains_key(*k)).collect();
      s.disagree("http.concurrent.contents", &ctx, json!({"ids_only_in_impl": only_impl, "n": contents.len()}), json!({"ids_only_in_model": only_model, "n": mc.len()}));
    }
  }
}

impl Prop for C23 {
  fn id(&self) -> &'static str {
    "C23"
  }
  fn rule(&self) -> &'static str {
    "case = (schema variant, refresh-on-commit flag, 12..36 raw HTTP requests: /add NDJSON and /bulk bodies with valid batches, batches containing a document add_documents rejects (missing/non-string/blank _id, wrong field type, null, unknown field) at a random position, unparsable lines/bodies, empty bodies; /delete with valid, unknown, invalid and malformed ids; /commit, /refresh, /compact, /search) against one live in-process server; after EVERY request response class, pending operations of wal.log and /search contents are compared with the model and the finder predicates are evaluated; a case is non-trivial when some successful /commit applied operations of at least two acknowledged requests AND some request was rejected while acknowledged operations were pending.  Every 12th case is CONCURRENT: 3 client threads send single-document /add, /bulk and /delete requests on disjoint id ranges while another thread loops /commit (storm), then staged rounds hold an /add between writer creation and its append (pause point `exit writer.new`) while a /commit is sent, then everything quiesces, a final /commit, and the contents must hold every acknowledged add (last version per id) and no acknowledged delete (finder), and equal the model's contents for the serial order client by client (correspondence); non-trivial when at least two /commit completed during the storm and every staged round paused"
  }
  fn count(&self, tier: Tier) -> usize {
    tier.pick(60, 2000)
  }
  fn gen(&self, rng: &mut Rng, _tier: Tier, i: usize) -> Value {
    if i % 12 == 11 {
      return gen_concurrent(rng);
    }
    let n = 12 + rng.below(25);
    let mut version = 0u64;
    let reqs: Vec<Value> = (0..n).map(|_| gen_request(rng, &mut version)).collect();
    json!({"schema": if rng.chance(1, 4) { 1 } else { 0 }, "refresh_on_commit": rng.chance(1, 3), "reqs": reqs})
  }

  fn run_case(&self, drv: &mut Driver, case: &Value, s: &mut Summary) {
    if case["kind"] == json!("concurrent") {
      run_concurrent(drv, case, s);
      return;
    }
    let schema = schema_of(case["schema"].as_u64().unwrap_or(0));
    let refresh = case["refresh_on_commit"] == json!(true);
    let reqs = case["reqs"].as_array().cloned().unwrap_or_default();
    let tmp = scratch();
    let dir = tmp.path().join("idx");
    let sv = match start_server(&dir, refresh, &schema) {
      Ok(sv) => sv,
      Err(e) => {
        s.disagree("http.server-start", case, json!(e), json!(null));
        return;
      }
    };
    let port = sv.port;
    let mreqs: Vec<Value> = reqs.iter().map(classify).collect();
    let m = drv.call("C23", json!({"op": "run", "repaired": repaired(), "schema": schema, "reqs": mreqs}));
    let steps = m["steps"].as_array().cloned().unwrap_or_default();
    if m["ok"] != json!(true) || steps.len() != reqs.len() {
      s.disagree("http.driver", case, json!(null), m);
      return;
    }

    let mut cache: HashMap<String, Result<Value, String>> = HashMap::new();
    // finder state (implementation observations only)
    let mut committed: BTreeMap<String, Value> = BTreeMap::new(); // raw documents, as of the last commit
    let mut acked: Vec<Op> = Vec::new(); // acknowledged since the last commit
    let mut surviving: Vec<Op> = Vec::new(); // … minus what observed whole-log rollbacks removed
    let mut drops_since_commit = 0u32;
    let mut acked_reqs_since_commit = 0u32;
    let mut finder_on = true;
    let mut nt_commit = false;
    let mut nt_reject = false;
    let mut prev_contents: BTreeMap<String, Value> = BTreeMap::new();
    let mut prev_pending: Vec<Op> = Vec::new();

    for (k, req) in reqs.iter().enumerate() {
      let ep = req["ep"].as_str().unwrap_or("");
      let body = req["body"].as_str().unwrap_or("");
      let ctx = json!({"case": case, "at": k, "request": req});
      let r = match ep {
        "add" => simple(port, "POST", "/add", Some("application/x-ndjson"), body.as_bytes()),
        "bulk" => simple(port, "POST", "/bulk", Some("application/json"), body.as_bytes()),
        "delete" => simple(port, "POST", "/delete", Some("application/json"), body.as_bytes()),
        "commit" => simple(port, "POST", "/commit", None, b""),
        "refresh" => simple(port, "POST", "/refresh", None, b""),
        "compact" => simple(port, "POST", "/compact", None, b""),
        _ => post_json(port, "/search", &json!({"query": {"type": "match_all"}, "limit": 5, "return_stored": false})),
      };
      let status = r.status.unwrap_or(0);
      let rj = r.json().unwrap_or(Value::Null);
      let queued = if (200..300).contains(&status) { rj.get("queued").and_then(|q| q.as_u64()) } else { None };
      let err_type = rj["error"]["type"].as_str().unwrap_or("").to_string();
      let class = match (status, queued) {
        (200..=299, Some(n)) => json!({"class": "queued", "n": n}),
        (200..=299, None) => json!({"class": "done"}),
        (400..=499, _) => json!({"class": "rejected"}),
        (500..=599, _) => json!({"class": "server_error"}),
        _ => json!({"class": format!("no-response:{}", r.end)}),
      };
      let is_write = matches!(ep, "add" | "bulk" | "delete");
      s.count(&format!("req.{ep}.{}", class["class"].as_str().unwrap_or("")));
      if !err_type.is_empty() {
        s.count(&format!("error.{err_type}"));
      }

      // ---- observations ----
      let pending = match wal_pending(&dir) {
        Ok(p) => p,
        Err(e) => {
          s.fail("http.log-unreadable", "the pending operations of wal.log cannot be replayed between two requests", &ctx, json!(e));
          break;
        }
      };
      let contents = match http_contents(port) {
        Ok(c) => c,
        Err(e) => {
          s.fail("http.search-failed", "match_all through /search failed or returned an id twice", &ctx, json!(e));
          break;
        }
      };

      // ---- correspondence ----
      let step = &steps[k];
      if step["resp"] != class {
        s.disagree("http.response-class", &ctx, json!({"status": status, "class": class, "body": r.body_text()}), step["resp"].clone());
      }
      if step["pending"] != ops_json(&pending) {
        s.disagree("http.pending-log", &ctx, ops_json(&pending), step["pending"].clone());
      }
      let mcontents = model_contents(&step["contents"]);
      if mcontents != contents {
        s.disagree("http.contents", &ctx, json!(contents), json!(mcontents));
      }
      if is_write && step["rolls_back"].as_bool().unwrap_or(false) != (err_type == "add_failed") {
        s.disagree("http.reaches-rollback", &ctx, json!(err_type), step["rolls_back"].clone());
      }
      if step["handles"] != json!(0) {
        s.disagree("http.model-handles", &ctx, json!(0), step["handles"].clone());
      }

      // ---- finder: the property statement on the implementation alone ----
      if finder_on {
        let own = own_ops(&mreqs[k]);
        if is_write && queued.is_some() {
          // acknowledged
          if queued != Some(own.len() as u64) && mreqs[k]["kind"] != json!("malformed") {
            s.fail("http.ack-count", "the acknowledged `queued` count differs from the number of documents/ids sent", &ctx, json!({"queued": queued, "sent": own.len()}));
          }
          let mut want = prev_pending.clone();
          want.extend(own.iter().cloned());
          if !same_ops(&pending, &want) {
            finder_on = false;
            s.fail("http.acked-write-not-appended", "after an acknowledged request the log's pending operations are not (pending before ++ the request's documents/ids, in order)", &ctx, json!({"before": ops_json(&prev_pending), "after": ops_json(&pending), "own": ops_json(&own)}));
          }
          if !own.is_empty() {
            acked_reqs_since_commit += 1;
          }
          acked.extend(own.iter().cloned());
          surviving.extend(own.iter().cloned());
        } else if is_write {
          // rejected (or failed)
          if !acked.is_empty() {
            nt_reject = true;
          }
          if !same_ops(&pending, &prev_pending) {
            let lost_prefix = pending.len() < prev_pending.len() && same_ops(&pending, &prev_pending[..pending.len()]);
            if lost_prefix {
              let sig = if (ep == "add" || ep == "bulk") && err_type == "add_failed" && status == 400 { KNOWN_DROP.to_string() } else { format!("http.acked-write-dropped-by-rejected-request.{ep}.{err_type}") };
              s.fail(&sig, "a rejected write request removed operations from the log that earlier requests had been acknowledged for", &ctx, json!({"status": status, "error": err_type, "pending_before": ops_json(&prev_pending), "pending_after": ops_json(&pending)}));
              s.count("observed.drop-of-acknowledged-operations");
              drops_since_commit += 1;
              surviving.truncate(pending.len().min(surviving.len()));
            } else {
              finder_on = false;
              s.fail("http.rejected-request-changed-log", "a rejected write request left operations of its own in the log (or reordered it)", &ctx, json!({"status": status, "error": err_type, "pending_before": ops_json(&prev_pending), "pending_after": ops_json(&pending), "own": ops_json(&own)}));
            }
          }
        } else if ep == "commit" && (200..300).contains(&status) {
          let mut want_raw = committed.clone();
          apply(&mut want_raw, &acked);
          let want = stored_of(&schema, &want_raw, &mut cache);
          let mut surv_raw = committed.clone();
          apply(&mut surv_raw, &surviving);
          if acked_reqs_since_commit >= 2 {
            nt_commit = true;
            s.count(if drops_since_commit == 0 { "commit.of-2+-acknowledged-requests.no-drop-before" } else { "commit.of-2+-acknowledged-requests.after-a-drop" });
          }
          match want {
            Ok(w) if w == contents => committed = want_raw,
            Ok(w) => {
              let surv = stored_of(&schema, &surv_raw, &mut cache);
              if drops_since_commit > 0 && surv.as_ref().ok() == Some(&contents) {
                // the visible consequence of the drop(s) already observed on the log
                s.fail(KNOWN_DROP, "after /commit the contents lack acknowledged writes: exactly the operations a later rejected /add or /bulk removed from the log", &ctx, json!({"contents": contents, "fold_of_acknowledged": w}));
                committed = surv_raw;
              } else {
                finder_on = false;
                s.fail("http.commit-contents-mismatch", "after /commit the contents are not the fold, in order, of the acknowledged writes since the previous commit", &ctx, json!({"contents": contents, "fold_of_acknowledged": w}));
              }
            }
            Err(e) => {
              s.count("reference_projection_unavailable");
              let _ = e;
              finder_on = false;
            }
          }
          if !pending.is_empty() {
            s.fail("http.commit-left-log", "operations are still pending in the log after a successful /commit", &ctx, ops_json(&pending));
          }
          acked.clear();
          surviving.clear();
          drops_since_commit = 0;
          acked_reqs_since_commit = 0;
        } else {
          // /refresh, /compact, /search, failed /commit: nothing may change
          if !same_ops(&pending, &prev_pending) {
            s.fail("http.non-write-changed-log", "a request that is not a write changed the pending operations", &ctx, json!({"before": ops_json(&prev_pending), "after": ops_json(&pending)}));
          }
        }
        if !(ep == "commit" && (200..300).contains(&status)) && canon_map(&contents) != prev_contents && finder_on {
          finder_on = false;
          s.fail("http.contents-changed-without-commit", "a request other than a successful /commit changed what /search returns", &ctx, json!({"before": prev_contents, "after": contents}));
        }
      }
      prev_contents = contents;
      prev_pending = pending;
      if !sv.alive() {
        s.fail("http.server-died", "the server task ended during the sequence", &ctx, json!(null));
        break;
      }
    }
    s.case(case, nt_commit && nt_reject);
  }

  fn finish(&self, _tier: Tier, s: &mut Summary) {
    s.notes.push(format!("model denotation compared with: repaired = {}", repaired()));
  }
}
