//! C24 — probe (temporary)
use crate::proto::Driver;
use crate::rng::Rng;
use crate::summary::Summary;
use crate::util::scratch;
use crate::{Prop, Tier};
use serde_json::{json, Value};

#[path = "httpc.rs"]
pub mod httpc;
use httpc::*;

pub struct C24;
pub static P: C24 = C24;

fn show(tag: &str, r: &Resp) {
  eprintln!("{tag:40} -> {:?} end={} complete={} ct={:?} body={}", r.status, r.end, r.complete, r.header("content-type"), r.body_text());
}

impl Prop for C24 {
  fn id(&self) -> &'static str {
    "C24"
  }
  fn rule(&self) -> &'static str {
    "probe"
  }
  fn count(&self, _tier: Tier) -> usize {
    1
  }
  fn gen(&self, _rng: &mut Rng, _tier: Tier, _i: usize) -> Value {
    json!(null)
  }
  fn serial(&self) -> bool {
    true
  }
  fn run_case(&self, _drv: &mut Driver, _case: &Value, _s: &mut Summary) {
    let dir = scratch();
    let idx = dir.path().join("idx");
    let srv = Server::start(&idx, &ServerCfg { max_body: 4096, timeout_secs: 2, ..Default::default() }).expect("server");
    let p = srv.port;
    let schema = json!({"doc_id_field":"_id","text_fields":[{"name":"body","tokenizer":"default","stored":true,"indexed":true}],"keyword_fields":[],"numeric_fields":[]});
    show("GET /healthz", &simple(p, "GET", "/healthz", None, b""));
    show("GET /nope", &simple(p, "GET", "/nope", None, b""));
    show("GET /search", &simple(p, "GET", "/search", None, b""));
    show("POST /healthz", &simple(p, "POST", "/healthz", None, b""));
    let sreq = json!({"query":"rust","limit":3,"return_stored":true});
    show("POST /search before init", &post_json(p, "/search", &sreq));
    show("POST /search invalid before init", &simple(p, "POST", "/search", Some("application/json"), b"{\"query\":"));
    show("POST /add invalid before init", &simple(p, "POST", "/add", None, b"{nope"));
    show("POST /commit before init", &simple(p, "POST", "/commit", None, b""));
    show("GET /stats before init", &simple(p, "GET", "/stats", None, b""));
    show("POST /init bad schema", &post_json(p, "/init", &json!({"text_fields": 3})));
    show("POST /init", &post_json(p, "/init", &schema));
    show("POST /init again", &post_json(p, "/init", &schema));
    show("POST /init again invalid", &post_json(p, "/init", &json!({"x":1})));
    show("POST /add", &simple(p, "POST", "/add", Some("application/x-ndjson"), b"{\"_id\":\"1\",\"body\":\"rust search\"}\n{\"_id\":\"2\",\"body\":\"rust body\"}\n"));
    show("POST /commit", &simple(p, "POST", "/commit", None, b""));
    show("POST /search", &post_json(p, "/search", &sreq));
    show("POST /search limit0", &post_json(p, "/search", &json!({"query":"rust","limit":0,"return_stored":true})));
    let big = vec![b' '; 5000];
    show("POST /search CL>max", &simple(p, "POST", "/search", Some("application/json"), &big));
    show("GET /healthz CL>max", &simple(p, "POST", "/nope", Some("application/json"), &big));
    let mut bigjson = json!({"docs":[{"_id":"9","body":"x".repeat(5000)}]}).to_string().into_bytes();
    let h = vec![("Content-Type".to_string(), "application/json".to_string())];
    show("POST /bulk chunked oversize", &exchange(p, &SendPlan { first: chunked_bytes("POST", "/bulk", &h, &bigjson, 1000, true), wait_ms: 5000, ..Default::default() }));
    bigjson.push(b'\n');
    let nd = format!("{}\n", json!({"_id":"9","body":"x".repeat(5000)}));
    show("POST /add chunked oversize", &exchange(p, &SendPlan { first: chunked_bytes("POST", "/add", &[], nd.as_bytes(), 1000, true), wait_ms: 5000, ..Default::default() }));
    show("POST /add chunked ok", &exchange(p, &SendPlan { first: chunked_bytes("POST", "/add", &[], b"{\"_id\":\"3\",\"body\":\"x\"}\n", 7, true), wait_ms: 5000, ..Default::default() }));
    let cur = format!("a{}b", "é".repeat(20));
    show("POST /search cursor panic", &post_json(p, "/search", &json!({"query":"rust","limit":3,"return_stored":true,"cursor":cur})));
    show("POST /search leaf panic", &post_json(p, "/search", &json!({"query":"rust body:rust","limit":3,"return_stored":true})));
    show("POST /search bad cursor", &post_json(p, "/search", &json!({"query":"rust","limit":3,"return_stored":true,"cursor":"zz"})));
    show("POST /search no ct", &simple(p, "POST", "/search", None, sreq.to_string().as_bytes()));
    show("POST /search text/plain", &simple(p, "POST", "/search", Some("text/plain"), sreq.to_string().as_bytes()));
    show("POST /search missing field", &post_json(p, "/search", &json!({"query":"rust","limit":3})));
    show("POST /add bad utf8", &simple(p, "POST", "/add", None, &[0x7b, 0xff, 0xfe, 0x7d, 0x0a]));
    show("POST /add non-object", &simple(p, "POST", "/add", None, b"[1,2]\n"));
    show("POST /add no id", &simple(p, "POST", "/add", None, b"{\"body\":\"x\"}\n"));
    show("POST /add empty", &simple(p, "POST", "/add", None, b""));
    show("POST /bulk empty docs", &post_json(p, "/bulk", &json!({"docs":[]})));
    show("POST /delete ws id", &post_json(p, "/delete", &json!({"ids":[" a"]})));
    show("POST /delete ok", &post_json(p, "/delete", &json!({"ids":["1"]})));
    let body = b"{\"ids\":[\"1\"]}";
    show("POST /delete CL too large (wait)", &exchange(p, &SendPlan { first: request_bytes("POST", "/delete", &h, body, Some(body.len() + 10)), wait_ms: 6000, ..Default::default() }));
    show("POST /delete CL too large (halfclose)", &exchange(p, &SendPlan { first: request_bytes("POST", "/delete", &h, body, Some(body.len() + 10)), wait_ms: 6000, half_close: true, ..Default::default() }));
    show("POST /delete CL too small", &exchange(p, &SendPlan { first: request_bytes("POST", "/delete", &h, body, Some(body.len() - 3)), wait_ms: 6000, ..Default::default() }));
    show("POST /add chunked truncated(wait)", &exchange(p, &SendPlan { first: chunked_bytes("POST", "/add", &[], b"{\"_id\":\"3\",\"body\":\"x\"}\n", 7, false), wait_ms: 6000, ..Default::default() }));
    show("garbage", &exchange(p, &SendPlan { first: b"\x00\x01garbage\r\n\r\n".to_vec(), wait_ms: 3000, ..Default::default() }));
    show("bad version", &exchange(p, &SendPlan { first: b"GET /healthz HTTP/9.9\r\n\r\n".to_vec(), wait_ms: 3000, ..Default::default() }));
    show("HEAD /healthz", &exchange(p, &SendPlan { first: request_bytes("HEAD", "/healthz", &[], b"", None), wait_ms: 3000, ..Default::default() }));
    show("OPTIONS /search", &simple(p, "OPTIONS", "/search", None, b""));
    show("POST /search/", &post_json(p, "/search/", &sreq));
    show("POST //search", &post_json(p, "//search", &sreq));
    show("POST /search?x=1", &post_json(p, "/search?x=1", &sreq));
    show("POST /SEARCH", &post_json(p, "/SEARCH", &sreq));
    show("GET /inspect", &simple(p, "GET", "/inspect", None, b""));
    show("GET /stats", &simple(p, "GET", "/stats", None, b""));
    show("POST /compact", &simple(p, "POST", "/compact", None, b""));
    show("POST /refresh", &simple(p, "POST", "/refresh", None, b"junk"));
    show("GET /healthz", &simple(p, "GET", "/healthz", None, b""));
    eprintln!("alive={}", srv.alive());
  }
}
