//! C24 — HTTP requests always get a well-formed response.
//!
//! One case = one *session*: a fresh in-process `searchlite_http` server on a loopback port
//! and a scratch index directory, then a sequence of raw HTTP/1.1 requests (valid, mutated,
//! mis-framed, oversized, stalling, panicking the core, against a missing / corrupt index …).
//!
//! Correspondence: for every request the harness derives the abstract facts of
//! `SL.Http.Facts` *natively* (routing table, serde parsing with the repository's own types,
//! the library run directly on the index directory for the core outcome) and asks the model
//! for `respond route facts`; status and body shape must equal what came back on the socket.
//! Finder: the property's predicate on the implementation alone — a response arrives; non-2xx
//! ⇒ body `{"error":{"type","reason"}}`; 2xx ⇒ the endpoint's JSON; 404 / 409 / 413 / 4xx /
//! 500-on-panic where the statement demands them; `/healthz` answers after every request.
use crate::proto::Driver;
use crate::rng::Rng;
use crate::summary::Summary;
use crate::util::{guarded, hex, scratch, unhex};
use crate::{Prop, Tier};
use searchlite_core::api::types::{Document, IndexOptions, SearchRequest, StorageType};
use searchlite_core::api::Index;
use searchlite_core::Schema;
use serde_json::{json, Value};
use std::path::{Path, PathBuf};
use std::sync::atomic::{AtomicU8, Ordering};
use std::sync::Arc;

#[path = "httpc.rs"]
pub mod httpc;
use httpc::*;

pub struct C24;
pub static P: C24 = C24;

pub const ROUTES: [(&str, &str, &str); 11] = [
  ("healthz", "GET", "/healthz"),
  ("init", "POST", "/init"),
  ("add", "POST", "/add"),
  ("bulk", "POST", "/bulk"),
  ("delete", "POST", "/delete"),
  ("commit", "POST", "/commit"),
  ("refresh", "POST", "/refresh"),
  ("compact", "POST", "/compact"),
  ("search", "POST", "/search"),
  ("inspect", "GET", "/inspect"),
  ("stats", "GET", "/stats"),
];

/// axum's built-in cap for `Bytes`-based extractors (`DefaultBodyLimit`), 2 MiB
const AXUM_DEFAULT_LIMIT: usize = 2 * 1024 * 1024;

pub fn lib_opts(path: &Path, create: bool) -> IndexOptions {
  IndexOptions {
    path: path.to_path_buf(),
    create_if_missing: create,
    enable_positions: true,
    bm25_k1: 0.9,
    bm25_b: 0.4,
    storage: StorageType::Filesystem,
    #[cfg(feature = "vectors")]
    vector_defaults: None,
  }
}

#[derive(serde::Deserialize)]
#[allow(dead_code)]
struct BulkReq {
  docs: Vec<Value>,
}
#[derive(serde::Deserialize)]
#[allow(dead_code)]
struct DeleteReq {
  ids: Vec<String>,
}

pub fn schema_pool(i: usize) -> Value {
  match i % 3 {
    0 => json!({"doc_id_field":"_id","text_fields":[{"name":"body","tokenizer":"default","stored":true,"indexed":true}],"keyword_fields":[],"numeric_fields":[]}),
    1 => json!({"text_fields":[{"name":"body","analyzer":"default","stored":true,"indexed":true}],
                "keyword_fields":[{"name":"tag","stored":true,"indexed":true,"fast":true}],
                "numeric_fields":[{"name":"year","i64":true,"fast":true,"stored":true}]}),
    // `n` is fast but not stored: compaction of ≥ 2 segments refuses (500 compact_failed)
    _ => json!({"text_fields":[{"name":"body","analyzer":"default","stored":true,"indexed":true}],
                "keyword_fields":[],
                "numeric_fields":[{"name":"n","i64":true,"fast":true,"stored":false}]}),
  }
}

const WORDS: [&str; 8] = ["rust", "search", "engine", "fast", "lite", "index", "über", "日本"];

fn gen_doc(rng: &mut Rng, id: usize) -> Value {
  let n = 1 + rng.below(5);
  let body: Vec<&str> = (0..n).map(|_| *rng.pick(&WORDS)).collect();
  let mut d = json!({"_id": format!("d{id}"), "body": body.join(" ")});
  // members outside the session's schema are rejected when the document is queued
  // (unknown top-level fields), so extra members appear only now and then: schema 1 knows
  // tag/year, schema 2 knows n
  match rng.below(8) {
    0 => {
      d["tag"] = json!(["a", "b", "c"][rng.below(3)]);
      d["year"] = json!(2000 + rng.below(20));
    }
    1 => d["n"] = json!(rng.below(9)),
    _ => {}
  }
  d
}

fn ndjson(docs: &[Value]) -> Vec<u8> {
  let mut out = Vec::new();
  for d in docs {
    out.extend_from_slice(d.to_string().as_bytes());
    out.push(b'\n');
  }
  out
}

/// one NDJSON document padded so that the whole body has exactly `size` bytes
fn padded_ndjson(size: usize, id: &str) -> Vec<u8> {
  let base = format!("{{\"_id\":\"{id}\",\"body\":\"\"}}\n").len();
  let pad = size.saturating_sub(base);
  format!("{{\"_id\":\"{id}\",\"body\":\"{}\"}}\n", "x".repeat(pad)).into_bytes()
}

fn padded_bulk(size: usize, id: &str) -> Vec<u8> {
  let base = format!("{{\"docs\":[{{\"_id\":\"{id}\",\"body\":\"\"}}]}}").len();
  let pad = size.saturating_sub(base);
  format!("{{\"docs\":[{{\"_id\":\"{id}\",\"body\":\"{}\"}}]}}", "x".repeat(pad)).into_bytes()
}

/// text whose byte offsets do not line up with character boundaries: a short ASCII prefix of
/// random length, then characters of mixed UTF-8 widths (2, 3 and 4 bytes) until at least
/// `min_bytes` bytes — code that cuts such text at a byte index (error messages quoting the
/// input, snippets, previews) hits the middle of a character for most cut points
fn wide_text(rng: &mut Rng, min_bytes: usize) -> String {
  const WIDE: [&str; 12] = ["é", "ï", "ü", "ß", "日", "本", "語", "한", "€", "😀", "🦀", "𝄞"];
  let mut t = String::new();
  for _ in 0..rng.below(8) {
    t.push((b'a' + rng.below(26) as u8) as char);
  }
  // one time in three a single character repeated: with the ASCII prefix above every alignment
  // 0..3 of the character grid relative to a fixed cut point (255/256/512/1024/2048/4096 bytes
  // of the text or of a message that embeds it) comes up
  let uniform = if rng.chance(1, 3) { Some(WIDE[rng.below(WIDE.len())]) } else { None };
  while t.len() < min_bytes {
    t.push_str(uniform.unwrap_or_else(|| WIDE[rng.below(WIDE.len())]));
    if uniform.is_none() && rng.chance(1, 9) {
      t.push(' ');
    }
  }
  t
}

/// lengths around the places where texts get cut: short (40–520 bytes) and, where the body
/// limit of the session leaves room, long (1–5 KiB: messages capped at 1024/2048/4096 bytes)
fn wide_len(rng: &mut Rng, max_body: usize) -> usize {
  let long = [900usize, 1000, 1024, 1030, 1100, 1500, 2040, 2100, 3000, 4090, 4200, 5000];
  if rng.chance(1, 2) {
    let n = *rng.pick(&long);
    if n * 3 < max_body {
      return n;
    }
  }
  *rng.pick(&[40usize, 62, 66, 70, 90, 130, 200, 260, 520])
}

/// long NDJSON lines with multi-byte characters: invalid JSON, non-objects, rejected documents
fn wide_ndjson(rng: &mut Rng, max_body: usize) -> Vec<u8> {
  let n = wide_len(rng, max_body);
  let w = wide_text(rng, n);
  let line = match rng.below(8) {
    0 => format!("{{\"_id\":\"w1\",\"body\":\"{w}"),
    1 => w.clone(),
    2 => format!("{{\"_id\":\"w1\",\"body\":\"{w}\",}}"),
    3 => json!(w).to_string(),
    4 => json!({"_id": "w1", "body": [w, 5]}).to_string(),
    5 => {
      let mut d = json!({"_id": "w1", "body": "x"});
      d[w.as_str()] = json!(1);
      d.to_string()
    }
    6 => json!({"body": w}).to_string(),
    _ => format!("[\"{w}\", {w}]"),
  };
  let mut body = Vec::new();
  if rng.chance(1, 3) {
    body.extend_from_slice(b"{\"_id\":\"ok1\",\"body\":\"rust\"}\n");
  }
  if rng.chance(1, 4) {
    body.extend_from_slice(b"  \t");
  }
  body.extend_from_slice(line.as_bytes());
  body.push(b'\n');
  body
}

/// long bodies with multi-byte characters for the JSON endpoints: cut-off JSON, and valid
/// JSON whose wide member ends up in an error message (unknown field, bad cursor, bad id, …)
fn wide_json(rng: &mut Rng, max_body: usize) -> (&'static str, Vec<u8>) {
  let n = wide_len(rng, max_body);
  let w = wide_text(rng, n);
  match rng.below(14) {
    0 => ("/search", format!("{{\"query\":\"{w}").into_bytes()),
    1 => ("/search", format!("{{\"limit\":3,\"return_stored\":true,\"query\":{{\"type\":\"{w}\"}}}}").into_bytes()),
    2 => ("/search", json!({"query": {"type":"term","field": w, "value": "x"}, "limit": 3, "return_stored": true}).to_string().into_bytes()),
    3 => ("/search", json!({"query": "rust", "limit": 3, "return_stored": true, "sort": [{"field": w}]}).to_string().into_bytes()),
    4 => ("/search", json!({"query": "rust", "limit": 3, "return_stored": true, "cursor": w}).to_string().into_bytes()),
    5 => ("/search", json!({"query": w, "limit": 3, "return_stored": true, "highlight_field": w}).to_string().into_bytes()),
    6 => ("/search", json!({"query": "rust", "limit": 3, "return_stored": false, "aggs": {"a": {"type":"terms","field": w}}}).to_string().into_bytes()),
    7 => ("/search", json!({"query": {"type":"regex","field":"body","value": format!("({w}")}, "limit": 3, "return_stored": false}).to_string().into_bytes()),
    8 => ("/delete", json!({"ids": [format!(" {w}")]}).to_string().into_bytes()),
    9 => ("/delete", format!("{{\"ids\":[\"{w}\",]}}").into_bytes()),
    10 => {
      let mut d = json!({"_id": "w2", "body": "x"});
      d[w.as_str()] = json!(true);
      ("/bulk", json!({"docs": [d]}).to_string().into_bytes())
    }
    11 => ("/bulk", json!({"docs": [w]}).to_string().into_bytes()),
    12 => ("/init", json!({"text_fields":[{"name": w, "analyzer": w, "stored": true, "indexed": true}],"keyword_fields":[],"numeric_fields":[]}).to_string().into_bytes()),
    _ => ("/init", format!("{{\"text_fields\":[{{\"name\":\"{w}\"").into_bytes()),
  }
}

fn step(tag: &str, method: &str, path: &str, ct: Option<&str>, body: &[u8], framing: &str) -> Value {
  json!({"tag": tag, "method": method, "path": path, "ct": ct, "body": hex(body), "framing": framing})
}

fn mutate(rng: &mut Rng, body: &[u8]) -> Vec<u8> {
  let mut b = body.to_vec();
  if b.is_empty() {
    return vec![b'{'];
  }
  match rng.below(6) {
    0 => {
      let n = rng.below(b.len());
      b.truncate(n);
    }
    1 => {
      let i = rng.below(b.len());
      b[i] = rng.below(256) as u8;
    }
    2 => {
      let i = rng.below(b.len());
      b.remove(i);
    }
    3 => {
      let i = rng.below(b.len());
      let j = i + rng.below(b.len() - i);
      let seg = b[i..=j.min(b.len() - 1)].to_vec();
      b.splice(i..i, seg);
    }
    4 => {
      let i = rng.below(b.len());
      let ins = *rng.pick(&[&b"null"[..], b"[", b"}", b"\"", b"\\u0000", b"1e999", b"-", b"\xff\xfe", b","]);
      b.splice(i..i, ins.iter().copied());
    }
    _ => {
      // swap two bytes
      let i = rng.below(b.len());
      let j = rng.below(b.len());
      b.swap(i, j);
    }
  }
  b
}

fn search_pool(rng: &mut Rng) -> Value {
  let w = *rng.pick(&WORDS);
  match rng.below(9) {
    0 => json!({"query": w, "limit": 1 + rng.below(5), "return_stored": true}),
    1 => json!({"query": {"type":"term","field":"body","value": w}, "limit": 3, "return_stored": false}),
    2 => json!({"query": {"type":"match_all"}, "limit": 10, "return_stored": true, "execution": "bm25"}),
    3 => json!({"query": format!("{} {}", w, rng.pick(&WORDS)), "limit": 2, "return_stored": true, "execution": "bmw", "explain": true}),
    4 => json!({"query": w, "limit": 5, "return_stored": false, "aggs": {"n": {"type":"value_count","field":"body"}}}),
    5 => json!({"query": {"type":"match_all"}, "limit": 5, "return_stored": true, "sort": [{"field":"year","order":"desc"}]}),
    6 => json!({"query": w, "limit": 3, "return_stored": true, "highlight_field": "body"}),
    7 => json!({"query": {"type":"prefix","field":"body","value": w.chars().next().unwrap().to_string()}, "limit": 4, "return_stored": false}),
    _ => json!({"query": w, "limit": 3, "return_stored": true, "filter": {"KeywordEq": {"field":"tag","value":"a"}}}),
  }
}

/// requests that make the core return an error or panic
fn search_hostile(rng: &mut Rng) -> (String, Value) {
  match rng.below(8) {
    0 => ("search.cursor_garbage".into(), json!({"query":"rust","limit":3,"return_stored":true,"cursor":"zz"})),
    // 42 bytes that are not 42 chars: slices a multi-byte character (C16)
    1 => ("search.cursor_multibyte".into(), json!({"query":"rust","limit":3,"return_stored":true,"cursor": format!("a{}b", "é".repeat(20))})),
    // the same term key from two leaves trips a debug assertion (C16)
    2 => ("search.dup_leaf".into(), json!({"query":"rust body:rust","limit":3,"return_stored":true})),
    3 => ("search.unknown_field".into(), json!({"query":{"type":"term","field":"nope","value":"x"},"limit":3,"return_stored":true})),
    4 => ("search.sort_unknown".into(), json!({"query":"rust","limit":3,"return_stored":true,"sort":[{"field":"nope"}]})),
    5 => ("search.bad_regex".into(), json!({"query":{"type":"regex","field":"body","value":"(("},"limit":3,"return_stored":true})),
    6 => ("search.agg_unknown_field".into(), json!({"query":"rust","limit":3,"return_stored":false,"aggs":{"t":{"type":"terms","field":"nope"}}})),
    _ => ("search.huge_limit".into(), json!({"query":{"type":"match_all"},"limit": 4_000_000_000u64,"return_stored":false,"cursor": "0".repeat(42)})),
  }
}

const PATHS_UNKNOWN: [&str; 12] = ["/", "/nope", "/search/", "//search", "/SEARCH", "/add/1", "/healthz/x", "/v1/search", "/index", "/search%20", "/.", "/init/"];
const METHODS_OTHER: [&str; 5] = ["PUT", "DELETE", "PATCH", "OPTIONS", "HEAD"];
const CONTENT_TYPES_BAD: [Option<&str>; 5] = [None, Some("text/plain"), Some("application/x-ndjson"), Some("application/xml"), Some("json")];
const CONTENT_TYPES_OK: [&str; 3] = ["application/json", "application/json; charset=utf-8", "application/vnd.api+json"];

fn gen_step(rng: &mut Rng, max_body: usize, next_id: &mut usize, allow_stall: &mut u32) -> Value {
  let j = "application/json";
  let k = rng.below(100);
  let sreq = search_pool(rng);
  match k {
    0..=2 => step("healthz", "GET", "/healthz", None, b"", "cl"),
    3..=5 => {
      let (path, body) = wide_json(rng, max_body);
      step("wide.json", "POST", path, Some(j), &body, "cl")
    }
    6..=8 => step("stats", "GET", if rng.chance(1, 2) { "/stats" } else { "/inspect" }, None, b"", "cl"),
    9..=14 => {
      let s = schema_pool(rng.below(3));
      step("init.valid", "POST", "/init", Some(*rng.pick(&CONTENT_TYPES_OK)), s.to_string().as_bytes(), "cl")
    }
    15..=16 => {
      let bad = match rng.below(4) {
        0 => json!({"text_fields": 3}),
        1 => json!({"text_fields":[{"name":"body","analyzer":"nope","stored":true,"indexed":true}],"keyword_fields":[],"numeric_fields":[]}),
        2 => json!({"doc_id_field":"a.b","text_fields":[],"keyword_fields":[],"numeric_fields":[]}),
        _ => json!([1, 2, 3]),
      };
      step("init.invalid", "POST", "/init", Some(j), bad.to_string().as_bytes(), "cl")
    }
    17..=24 => {
      let n = 1 + rng.below(4);
      let docs: Vec<Value> = (0..n)
        .map(|_| {
          *next_id += 1;
          gen_doc(rng, *next_id % 12)
        })
        .collect();
      let framing = if rng.chance(1, 4) { format!("chunked:{}", 1 + rng.below(64)) } else { "cl".into() };
      step("add.valid", "POST", "/add", if rng.chance(1, 2) { Some("application/x-ndjson") } else { None }, &ndjson(&docs), &framing)
    }
    25..=26 => {
      let body = wide_ndjson(rng, max_body);
      step("wide.ndjson", "POST", "/add", None, &body, if rng.chance(1, 5) { "chunked:37" } else { "cl" })
    }
    27..=29 => {
      let body: Vec<u8> = match rng.below(8) {
        0 => b"{nope\n".to_vec(),
        1 => b"[1,2]\n".to_vec(),
        2 => b"{\"body\":\"no id\"}\n".to_vec(),
        3 => b"{\"_id\":\"w1\",\"body\":17}\n".to_vec(),
        4 => vec![0x7b, 0xff, 0xfe, 0x7d, 0x0a],
        5 => b"\n  \n\r\n".to_vec(),
        6 => b"{\"_id\":\"u1\",\"body\":\"ok\",\"zzz\":\"unknown field\"}\n".to_vec(),
        _ => b"{\"_id\":\"   \",\"body\":\"blank id\"}\n{\"_id\":\"ok\",\"body\":\"x\"}\n".to_vec(),
      };
      step("add.hostile", "POST", "/add", None, &body, "cl")
    }
    30..=34 => {
      let n = 1 + rng.below(3);
      let docs: Vec<Value> = (0..n)
        .map(|_| {
          *next_id += 1;
          gen_doc(rng, *next_id % 12)
        })
        .collect();
      step("bulk.valid", "POST", "/bulk", Some(j), json!({"docs": docs}).to_string().as_bytes(), "cl")
    }
    35..=37 => {
      let b = match rng.below(5) {
        0 => json!({"docs": []}),
        1 => json!({"docs": [1, "x"]}),
        2 => json!({"documents": [{"_id":"1"}]}),
        3 => json!({"docs": [{"body":"no id"}]}),
        _ => json!([[{"_id":"seq1","body":"struct as sequence"}]]),
      };
      step("bulk.hostile", "POST", "/bulk", Some(j), b.to_string().as_bytes(), "cl")
    }
    38..=41 => {
      let ids: Vec<String> = (0..1 + rng.below(3)).map(|_| format!("d{}", rng.below(12))).collect();
      step("delete.valid", "POST", "/delete", Some(j), json!({"ids": ids}).to_string().as_bytes(), "cl")
    }
    42..=44 => {
      let b = match rng.below(6) {
        0 => json!({"ids": []}),
        1 => json!({"ids": [" a"]}),
        2 => json!({"ids": ["a\u{0007}b"]}),
        3 => json!({"ids": [1, 2]}),
        4 => json!({"ids": ["   "]}),
        _ => json!({"id": ["d1"]}),
      };
      step("delete.hostile", "POST", "/delete", Some(j), b.to_string().as_bytes(), "cl")
    }
    45..=50 => step("commit", "POST", "/commit", None, if rng.chance(1, 3) { b"ignored body" } else { b"" }, "cl"),
    51..=52 => step("refresh", "POST", "/refresh", None, b"", "cl"),
    53..=55 => step("compact", "POST", "/compact", None, b"", "cl"),
    56..=63 => {
      let p = if rng.chance(1, 6) { "/search?pretty=1" } else { "/search" };
      step("search.valid", "POST", p, Some(*rng.pick(&CONTENT_TYPES_OK)), sreq.to_string().as_bytes(), "cl")
    }
    64..=69 => {
      let (tag, b) = search_hostile(rng);
      step(&tag, "POST", "/search", Some(j), b.to_string().as_bytes(), "cl")
    }
    70..=71 => {
      let mut b = sreq.clone();
      match rng.below(3) {
        0 => b["limit"] = json!(0),
        1 => {
          b.as_object_mut().unwrap().remove("return_stored");
        }
        _ => b["limit"] = json!(-1),
      }
      step("search.invalid_member", "POST", "/search", Some(j), b.to_string().as_bytes(), "cl")
    }
    72..=77 => {
      // mutation stream: a valid body of some JSON endpoint, damaged
      let (path, body) = match rng.below(4) {
        0 => ("/search", sreq.to_string()),
        1 => ("/bulk", json!({"docs": [gen_doc(rng, 1), gen_doc(rng, 2)]}).to_string()),
        2 => ("/delete", json!({"ids": ["d1", "d2"]}).to_string()),
        _ => ("/init", schema_pool(rng.below(3)).to_string()),
      };
      let mut b = mutate(rng, body.as_bytes());
      if rng.chance(1, 3) {
        b = mutate(rng, &b);
      }
      step("mutated.json", "POST", path, Some(j), &b, "cl")
    }
    78..=79 => {
      let base = ndjson(&[gen_doc(rng, 3), gen_doc(rng, 4)]);
      let b = mutate(rng, &base);
      step("mutated.ndjson", "POST", "/add", None, &b, "cl")
    }
    80..=82 => {
      let ct = *rng.pick(&CONTENT_TYPES_BAD);
      let path = *rng.pick(&["/search", "/bulk", "/delete", "/init"]);
      step("content_type.bad", "POST", path, ct, sreq.to_string().as_bytes(), "cl")
    }
    83..=86 => {
      let p = *rng.pick(&PATHS_UNKNOWN);
      let m = *rng.pick(&["GET", "POST", "PUT"]);
      step("path.unknown", m, p, Some(j), if m == "GET" { b"" } else { b"{}" }, "cl")
    }
    87..=89 => {
      let r = ROUTES[rng.below(ROUTES.len())];
      let m = if rng.chance(1, 2) { if r.1 == "GET" { "POST" } else { "GET" } } else { *rng.pick(&METHODS_OTHER) };
      step("method.other", m, r.2, Some(j), if m == "GET" || m == "HEAD" { b"" } else { b"{}" }, "cl")
    }
    90..=93 => {
      // bodies around the limit, declared by Content-Length
      let delta = *rng.pick(&[-1i64, 0, 1, 2, 700]);
      let size = (max_body as i64 + delta) as usize;
      *next_id += 1;
      let id = format!("p{}", *next_id % 12);
      if rng.chance(1, 2) {
        step("limit.declared.add", "POST", "/add", None, &padded_ndjson(size, &id), "cl")
      } else {
        step("limit.declared.bulk", "POST", "/bulk", Some(j), &padded_bulk(size, &id), "cl")
      }
    }
    94..=96 => {
      // bodies around the limit, streamed (no Content-Length)
      let delta = *rng.pick(&[-1i64, 0, 1, 300, 5000]);
      let size = (max_body as i64 + delta) as usize;
      *next_id += 1;
      let id = format!("p{}", *next_id % 12);
      let framing = format!("chunked:{}", *rng.pick(&[64usize, 500, 4096]));
      if rng.chance(1, 2) {
        step("limit.streamed.add", "POST", "/add", None, &padded_ndjson(size, &id), &framing)
      } else {
        step("limit.streamed.bulk", "POST", "/bulk", Some(j), &padded_bulk(size, &id), &framing)
      }
    }
    97 => {
      // a Content-Length that lies
      let path = *rng.pick(&["/search", "/delete", "/add", "/nope", "/healthz"]);
      let body = sreq.to_string();
      let framing = match rng.below(3) {
        0 => format!("cl_lie:{}", max_body + 1 + rng.below(1000)),
        1 => format!("cl_under:{}", 1 + rng.below(body.len().min(20))),
        _ => format!("cl_over_halfclose:{}", 1 + rng.below(30)),
      };
      step("framing.wrong_length", if path == "/healthz" { "GET" } else { "POST" }, path, Some(j), body.as_bytes(), &framing)
    }
    98 if *allow_stall > 0 => {
      *allow_stall -= 1;
      let path = *rng.pick(&["/search", "/add", "/bulk", "/commit", "/delete"]);
      let body = if path == "/add" { ndjson(&[gen_doc(rng, 5)]) } else { sreq.to_string().into_bytes() };
      let framing = if rng.chance(1, 2) { format!("cl_over:{}", 5 + rng.below(20)) } else { "chunked_trunc:16".to_string() };
      step("framing.stall", "POST", path, Some(j), &body, &framing)
    }
    _ => {
      let raw: &[u8] = *rng.pick(&[
        &b"\x00\x01garbage\r\n\r\n"[..],
        b"GET /healthz HTTP/9.9\r\n\r\n",
        b"POST /search\r\n\r\n",
        b"GET /healthz HTTP/1.1\r\nHost: a\r\nContent-Length: abc\r\n\r\n",
        b"GET  HTTP/1.1\r\n\r\n",
        b"POST /search HTTP/1.1\r\nHost: a\r\nTransfer-Encoding: chunked\r\n\r\nzz\r\n",
      ]);
      json!({"tag": "protocol.garbage", "raw": hex(raw)})
    }
  }
}

// ---------------------------------------------------------------------------------------
// native derivation of the facts
// ---------------------------------------------------------------------------------------

#[derive(Debug, Clone, PartialEq)]
enum Incomplete {
  No,
  Stall,
  Truncated,
}

struct Wire {
  plan: SendPlan,
  declared: Option<usize>,
  streamed: bool,
  seen: Vec<u8>,
  incomplete: Incomplete,
}

fn wire(stepv: &Value, stall_wait_ms: u64) -> Wire {
  let method = stepv["method"].as_str().unwrap_or("GET");
  let path = stepv["path"].as_str().unwrap_or("/");
  let body = unhex(stepv["body"].as_str().unwrap_or(""));
  let mut headers: Vec<(String, String)> = Vec::new();
  if let Some(ct) = stepv["ct"].as_str() {
    headers.push(("Content-Type".into(), ct.into()));
  }
  let framing = stepv["framing"].as_str().unwrap_or("cl");
  let (kind, arg) = match framing.find(':') {
    Some(i) => (&framing[..i], framing[i + 1..].parse::<usize>().unwrap_or(1)),
    None => (framing, 0),
  };
  let normal_wait = 30_000;
  match kind {
    "chunked" => Wire {
      plan: SendPlan { first: chunked_bytes(method, path, &headers, &body, arg, true), wait_ms: normal_wait, ..Default::default() },
      declared: None,
      streamed: true,
      seen: body,
      incomplete: Incomplete::No,
    },
    "chunked_trunc" => Wire {
      plan: SendPlan { first: chunked_bytes(method, path, &headers, &body, arg, false), wait_ms: stall_wait_ms, ..Default::default() },
      declared: None,
      streamed: true,
      seen: body,
      incomplete: Incomplete::Stall,
    },
    "cl_over" => Wire {
      plan: SendPlan { first: request_bytes(method, path, &headers, &body, Some(body.len() + arg)), wait_ms: stall_wait_ms, ..Default::default() },
      declared: Some(body.len() + arg),
      streamed: false,
      seen: body,
      incomplete: Incomplete::Stall,
    },
    "cl_over_halfclose" => Wire {
      plan: SendPlan { first: request_bytes(method, path, &headers, &body, Some(body.len() + arg)), wait_ms: normal_wait, half_close: true, ..Default::default() },
      declared: Some(body.len() + arg),
      streamed: false,
      seen: body,
      incomplete: Incomplete::Truncated,
    },
    "cl_under" => {
      let n = body.len().saturating_sub(arg);
      Wire {
        plan: SendPlan { first: request_bytes(method, path, &headers, &body, Some(n)), wait_ms: normal_wait, ..Default::default() },
        declared: Some(n),
        streamed: false,
        seen: body[..n].to_vec(),
        incomplete: Incomplete::No,
      }
    }
    "cl_lie" => Wire {
      plan: SendPlan { first: request_bytes(method, path, &headers, &body, Some(arg)), wait_ms: normal_wait, ..Default::default() },
      declared: Some(arg),
      streamed: false,
      seen: body,
      incomplete: Incomplete::Stall,
    },
    _ => {
      let cl = if (method == "GET" || method == "HEAD") && body.is_empty() { None } else { Some(body.len()) };
      Wire {
        plan: SendPlan { first: request_bytes(method, path, &headers, &body, cl), wait_ms: normal_wait, ..Default::default() },
        declared: cl,
        streamed: false,
        seen: body,
        incomplete: Incomplete::No,
      }
    }
  }
}

/// what axum 0.7's `Json<T>` does with the bytes: deserialize the *leading* JSON value; bytes
/// after it are not looked at (no `Deserializer::end`)
fn lead<'a, T: serde::Deserialize<'a>>(bytes: &'a [u8]) -> Result<T, serde_json::Error> {
  let mut de = serde_json::Deserializer::from_slice(bytes);
  T::deserialize(&mut de)
}

/// axum's `json_content_type`: `application/json` or `application/*+json`
fn is_json_ct(ct: Option<&str>) -> bool {
  let Some(ct) = ct else { return false };
  let main = ct.split(';').next().unwrap_or("").trim().to_ascii_lowercase();
  let Some((ty, sub)) = main.split_once('/') else { return false };
  ty == "application" && (sub == "json" || sub.ends_with("+json"))
}

/// (kind, endpoint)
pub fn route_of(method: &str, path: &str) -> (&'static str, &'static str) {
  let p = path.split('?').next().unwrap_or("");
  for (name, m, rp) in ROUTES.iter() {
    if *rp == p {
      let hit = *m == method || (*m == "GET" && method == "HEAD");
      return (if hit { "hit" } else { "wrong_method" }, name);
    }
  }
  ("unknown_path", "")
}

fn validate_ids(ids: &[String]) -> bool {
  ids.iter().all(|id| {
    let t = id.trim();
    !t.is_empty() && t.len() == id.len() && !id.chars().any(|c| c.is_control())
  })
}

fn to_document(v: &Value) -> Option<Document> {
  let obj = v.as_object()?;
  Some(Document { fields: obj.iter().map(|(k, v)| (k.clone(), v.clone())).collect() })
}

/// the library handle the probes use: the harness's own `Index`, opened while no fault is
/// armed (it mirrors the `Index` the server holds: later requests do not re-read the manifest)
fn with_index<T>(h: Option<&Index>, idx: &Path, f: impl FnOnce(&Index) -> anyhow::Result<T>) -> anyhow::Result<T> {
  match h {
    Some(i) => f(i),
    None => {
      let i = Index::open(lib_opts(idx, false))?;
      f(&i)
    }
  }
}

/// schema of the index on disk, read through the library
fn disk_schema(h: Option<&Index>, idx: &Path) -> Option<Schema> {
  // guarded: with a storage panic armed an open panics
  guarded(|| with_index(h, idx, |i| Ok(i.manifest().schema)).ok()).ok().flatten()
}

/// ok / err / panic of `index.writer()` on the directory (reads the log; writes nothing)
fn probe_writer(h: Option<&Index>, idx: &Path) -> &'static str {
  class3(guarded(|| with_index(h, idx, |i| i.writer().map(|_| ()))))
}

fn copy_dir(from: &Path, to: &Path) {
  let _ = std::fs::create_dir_all(to);
  if let Ok(rd) = std::fs::read_dir(from) {
    for e in rd.flatten() {
      let p = e.path();
      if p.is_file() {
        let _ = std::fs::copy(&p, to.join(e.file_name()));
      }
    }
  }
}

/// outcome of `/commit`'s library work — `writer().commit()`, then `index.reader()` when the
/// server runs with `--refresh-on-commit` — on a private copy of the directory
fn probe_commit(idx: &Path, armed: u8, refresh: bool) -> &'static str {
  let tmp = scratch();
  let copy = tmp.path().join("copy");
  copy_dir(idx, &copy);
  // the copy lives under another prefix: give it the same fault mode
  let _g = if armed != 0 {
    let mode = Arc::new(AtomicU8::new(armed));
    searchlite_core::storage::verif::install(copy.clone(), fault_hook(mode.clone()));
    searchlite_core::storage::verif::install_points(copy.clone(), point_hook(mode));
    Some(HookGuard(copy.clone()))
  } else {
    None
  };
  class3(guarded(|| {
    let i = Index::open(lib_opts(&copy, false))?;
    let mut w = i.writer()?;
    w.commit()?;
    if refresh {
      i.reader().map(|_| ())?;
    }
    Ok(())
  }))
}

fn probe_search(h: Option<&Index>, idx: &Path, req: &SearchRequest) -> &'static str {
  class3(guarded(|| with_index(h, idx, |i| i.reader()?.search(req).map(|_| ()))))
}

/// storage fault injection through the repository's own hook (`--cfg searchlite_verif`):
/// while armed, every storage primitive below the directory fails (`1`) or panics (`2`).
/// Primitives a destructor may issue during unwinding (sync/flush/write/set_len) only fail.
const ARM_ERR: u8 = 1;
const ARM_PANIC: u8 = 2;
/// panic at the reader's pause points (`reader.after_manifest_copy`, `reader.before_segment_open`)
const ARM_READER_PANIC: u8 = 3;
/// panic at the first pause point of a commit (`commit.after_snapshot`)
const ARM_COMMIT_PANIC: u8 = 4;

fn point_hook(mode: Arc<AtomicU8>) -> searchlite_core::storage::verif::PointHook {
  Arc::new(move |_root: &Path, kind: &'static str, name: &'static str| {
    if kind != "at" {
      return;
    }
    match mode.load(Ordering::SeqCst) {
      ARM_READER_PANIC if name.starts_with("reader.") => panic!("injected panic at {name}"),
      ARM_COMMIT_PANIC if name == "commit.after_snapshot" => panic!("injected panic at {name}"),
      _ => {}
    }
  })
}

fn fault_hook(mode: Arc<AtomicU8>) -> searchlite_core::storage::verif::FsHook {
  Arc::new(move |ev: &searchlite_core::storage::verif::FsEvent| {
    if ev.after {
      return Ok(());
    }
    match mode.load(Ordering::SeqCst) {
      ARM_ERR => Err(anyhow::anyhow!("injected storage fault")),
      ARM_PANIC => {
        if matches!(ev.op, "sync" | "flush" | "write" | "set_len" | "sync_dir") {
          Err(anyhow::anyhow!("injected storage fault"))
        } else {
          panic!("injected storage panic")
        }
      }
      _ => Ok(()),
    }
  })
}

struct HookGuard(PathBuf);
impl Drop for HookGuard {
  fn drop(&mut self) {
    searchlite_core::storage::verif::uninstall_points(&self.0);
    searchlite_core::storage::verif::uninstall(&self.0);
  }
}

fn class3(r: Result<anyhow::Result<()>, String>) -> &'static str {
  match r {
    Ok(Ok(())) => "ok",
    Ok(Err(_)) => "err",
    Err(_) => "panic",
  }
}

/// ok / err / panic of `index.reader()` (what `/refresh` does)
fn probe_reader(h: Option<&Index>, idx: &Path) -> &'static str {
  class3(guarded(|| with_index(h, idx, |i| i.reader().map(|_| ()))))
}

struct Sess {
  idx: PathBuf,
  max_body: usize,
  /// storage fault mode currently armed (0 = none)
  armed: u8,
  /// the server runs with `--refresh-on-commit`
  refresh: bool,
  /// the harness's own handle on the directory (see `with_index`)
  handle: Option<Index>,
  /// the server holds an open `Index`
  loaded: bool,
}

struct Derived {
  route_kind: &'static str,
  endpoint: &'static str,
  facts: Value,
  /// core outcomes to try (set-valued where the harness cannot predict natively)
  cores: Vec<&'static str>,
  /// what the property statement demands natively: "413" | "404" | "409" | "4xx" | "500" | "2xx" | "non2xx" | "any"
  expect: &'static str,
  /// the request reaches `require_index` and finds an openable index
  loads: bool,
  ambiguous: bool,
  notes: Vec<&'static str>,
}

fn derive(sess: &Sess, stepv: &Value, w: &Wire) -> Derived {
  let method = stepv["method"].as_str().unwrap_or("GET");
  let path = stepv["path"].as_str().unwrap_or("/");
  let (route_kind, endpoint) = route_of(method, path);
  let declared_oversize = w.declared.map(|d| d > sess.max_body).unwrap_or(false);
  let streamed_oversize = w.streamed && w.seen.len() > sess.max_body;
  let manifest_exists = sess.idx.join("MANIFEST.json").exists();
  let mut notes = Vec::new();
  let mut d = Derived {
    route_kind,
    endpoint,
    facts: json!({}),
    cores: vec!["ok"],
    expect: "any",
    loads: false,
    ambiguous: false,
    notes: vec![],
  };
  let mut facts = json!({"declared_oversize": declared_oversize, "manifest_exists": manifest_exists});
  if declared_oversize {
    d.facts = facts;
    d.expect = "413";
    return d;
  }
  if route_kind != "hit" {
    d.facts = facts;
    d.expect = if streamed_oversize { "413" } else { "non2xx" };
    return d;
  }
  // index state as `require_index` sees it
  let (idx_state, schema) = if sess.loaded {
    ("ready", disk_schema(sess.handle.as_ref(), &sess.idx))
  } else if !manifest_exists {
    ("missing", None)
  } else {
    match disk_schema(sess.handle.as_ref(), &sess.idx) {
      Some(s) => ("ready", Some(s)),
      None => ("corrupt", None),
    }
  };
  facts["idx"] = json!(idx_state);
  let json_ep = matches!(endpoint, "init" | "bulk" | "delete" | "search");
  let mut payload = "ok";
  let mut input_bad = false;
  let mut writer_err = false;
  if json_ep {
    let ct = stepv["ct"].as_str();
    payload = if !is_json_ct(ct) {
      "no_json_content_type"
    } else if streamed_oversize || w.seen.len() > AXUM_DEFAULT_LIMIT {
      "length_limit"
    } else if w.incomplete == Incomplete::Stall {
      "stall"
    } else if w.incomplete == Incomplete::Truncated {
      "buffer_error"
    } else {
      let r: Result<(), serde_json::Error> = match endpoint {
        "init" => lead::<Schema>(&w.seen).map(|_| ()),
        "bulk" => lead::<BulkReq>(&w.seen).map(|_| ()),
        "delete" => lead::<DeleteReq>(&w.seen).map(|_| ()),
        _ => lead::<SearchRequest>(&w.seen).map(|_| ()),
      };
      if r.is_ok() && serde_json::from_slice::<Value>(&w.seen).is_err() {
        notes.push("trailing_bytes_after_json_accepted");
      }
      match r {
        Ok(()) => "ok",
        Err(e) => match e.classify() {
          serde_json::error::Category::Data => "data_error",
          _ => "syntax_error",
        },
      }
    };
    if payload == "length_limit" && w.seen.len() > AXUM_DEFAULT_LIMIT && !streamed_oversize {
      notes.push("axum_default_body_limit");
    }
  }
  facts["payload"] = json!(payload);
  match endpoint {
    "healthz" => d.expect = "2xx",
    "init" => {
      if payload == "ok" {
        if manifest_exists {
          d.expect = "409";
        } else {
          let schema: Schema = lead(&w.seen).unwrap();
          let core = match guarded(|| schema.validate_config()) {
            Ok(Ok(_)) => "ok",
            Ok(Err(_)) => "err",
            Err(_) => "panic",
          };
          d.cores = vec![core];
          d.expect = match core {
            "ok" => "2xx",
            "err" => "4xx",
            _ => "500",
          };
        }
      } else {
        d.expect = if payload == "stall" { "any" } else if payload == "length_limit" { "413" } else { "4xx" };
      }
    }
    "add" => {
      // the NDJSON loop, natively
      let mut add_body = "docs";
      let mut docs: Vec<Value> = Vec::new();
      let mut bad = None;
      if idx_state == "ready" {
        let complete = w.incomplete == Incomplete::No && !streamed_oversize;
        let mut pieces: Vec<&[u8]> = w.seen.split_inclusive(|b| *b == b'\n').collect();
        if !complete {
          if let Some(last) = pieces.last() {
            if !last.ends_with(b"\n") {
              pieces.pop();
            }
          }
        }
        for p in pieces {
          match std::str::from_utf8(p) {
            Err(_) => {
              bad = Some("read_err");
              break;
            }
            Ok(line) => {
              let t = line.trim();
              if t.is_empty() {
                continue;
              }
              match serde_json::from_str::<Value>(t) {
                Ok(v) if v.is_object() => docs.push(v),
                _ => {
                  bad = Some("bad_line");
                  break;
                }
              }
            }
          }
        }
        add_body = match bad {
          Some(b) => {
            if streamed_oversize || w.incomplete != Incomplete::No {
              // which comes first depends on frame boundaries
              d.ambiguous = true;
            }
            b
          }
          None => {
            if streamed_oversize {
              // the body stream's "length limit exceeded" error
              "limit_err"
            } else if w.incomplete == Incomplete::Stall {
              "stall"
            } else if w.incomplete == Incomplete::Truncated {
              "read_err"
            } else if docs.is_empty() {
              "empty"
            } else {
              "docs"
            }
          }
        };
      }
      facts["add_body"] = json!(add_body);
      d.loads = idx_state == "ready";
      if idx_state == "missing" {
        d.expect = "404";
      } else if idx_state == "corrupt" {
        d.expect = "non2xx";
      } else {
        match add_body {
          "docs" => {
            let (core, werr) = ingest_core(sess.handle.as_ref(), &sess.idx, schema.as_ref(), &docs);
            d.cores = vec![core];
            facts["writer_err"] = json!(werr);
            d.expect = match (core, werr) {
              (_, true) => "non2xx",
              ("ok", _) => "2xx",
              ("err", _) => "4xx",
              _ => "500",
            };
          }
          "empty" => d.expect = "2xx",
          "stall" => d.expect = "any",
          "limit_err" => d.expect = "413",
          _ => d.expect = "4xx",
        }
      }
    }
    "bulk" | "delete" => {
      if payload == "ok" {
        if endpoint == "bulk" {
          let b: BulkReq = lead(&w.seen).unwrap();
          input_bad = b.docs.is_empty() || b.docs.iter().any(|x| !x.is_object());
          if !input_bad {
            d.loads = idx_state == "ready";
            if idx_state == "ready" {
              let (core, werr) = ingest_core(sess.handle.as_ref(), &sess.idx, schema.as_ref(), &b.docs);
              d.cores = vec![core];
              writer_err = werr;
            }
          }
        } else {
          let r: DeleteReq = lead(&w.seen).unwrap();
          input_bad = r.ids.is_empty() || !validate_ids(&r.ids);
          if !input_bad {
            d.loads = idx_state == "ready";
            if idx_state == "ready" {
              let ws = probe_writer(sess.handle.as_ref(), &sess.idx);
              d.cores = vec![if ws == "panic" { "panic" } else { "ok" }];
              writer_err = ws == "err";
            }
          }
        }
        facts["writer_err"] = json!(writer_err);
        d.expect = if input_bad {
          "4xx"
        } else {
          match (idx_state, d.cores[0]) {
            ("missing", _) => "404",
            ("corrupt", _) => "non2xx",
            _ if writer_err => "non2xx",
            (_, "ok") => "2xx",
            (_, "err") => "4xx",
            _ => "500",
          }
        };
      } else {
        d.expect = if payload == "stall" { "any" } else if payload == "length_limit" && streamed_oversize { "413" } else { "4xx" };
      }
    }
    "commit" => {
      d.loads = idx_state == "ready";
      if idx_state == "ready" {
        let core = probe_commit(&sess.idx, sess.armed, sess.refresh);
        d.cores = vec![core];
        d.expect = match core {
          "ok" => "2xx",
          "err" => "non2xx",
          _ => "500",
        };
      } else {
        d.expect = if idx_state == "missing" { "404" } else { "non2xx" };
      }
    }
    "refresh" | "compact" => {
      d.loads = idx_state == "ready";
      if idx_state == "ready" {
        if sess.armed != 0 {
          // both start by opening a reader, which goes to storage
          let core = probe_reader(sess.handle.as_ref(), &sess.idx);
          d.cores = vec![core];
          d.expect = match core {
            "ok" => "any",
            "err" => "non2xx",
            _ => "500",
          };
        } else {
          // not predicted natively: compaction may refuse (non-stored fast fields), a reader may fail
          d.cores = vec!["ok", "err"];
          d.expect = "any";
        }
      } else {
        d.expect = if idx_state == "missing" { "404" } else { "non2xx" };
      }
    }
    "search" => {
      if payload == "ok" {
        let req: SearchRequest = lead(&w.seen).unwrap();
        input_bad = req.limit == 0;
        if input_bad {
          d.expect = "4xx";
        } else {
          d.loads = idx_state == "ready";
          if idx_state == "ready" {
            let core = probe_search(sess.handle.as_ref(), &sess.idx, &req);
            d.cores = vec![core];
            d.expect = match core {
              "ok" => "2xx",
              "err" => "4xx",
              _ => "500",
            };
          } else {
            d.expect = if idx_state == "missing" { "404" } else { "non2xx" };
          }
        }
      } else {
        d.expect = if payload == "stall" { "any" } else if payload == "length_limit" && streamed_oversize { "413" } else { "4xx" };
      }
    }
    _ => {
      // inspect, stats
      d.loads = idx_state == "ready";
      d.expect = match idx_state {
        "ready" => "2xx",
        "missing" => "404",
        _ => "non2xx",
      };
    }
  }
  facts["input_bad"] = json!(input_bad);
  d.facts = facts;
  d.notes = notes;
  d
}

/// outcome of `writer(); add_document*` for these documents: (core, `writer()` returned Err)
fn ingest_core(h: Option<&Index>, idx: &Path, schema: Option<&Schema>, docs: &[Value]) -> (&'static str, bool) {
  match probe_writer(h, idx) {
    "panic" => return ("panic", false),
    "err" => return ("ok", true),
    _ => {}
  }
  let Some(schema) = schema else { return ("ok", false) };
  for v in docs {
    let Some(doc) = to_document(v) else { return ("err", false) };
    match guarded(|| schema.validate_document(&doc)) {
      Ok(Ok(())) => {}
      Ok(Err(_)) => return ("err", false),
      Err(_) => return ("panic", false),
    }
  }
  ("ok", false)
}

fn observed_shape(r: &Resp) -> &'static str {
  if r.status.is_none() {
    return "no_response";
  }
  if r.body.is_empty() {
    return "empty";
  }
  match r.json() {
    Some(v) => {
      if v["error"]["type"].is_string() && v["error"]["reason"].is_string() {
        "error_json"
      } else {
        "ok_json"
      }
    }
    None => "other",
  }
}

/// the documented success body of each endpoint
fn documented_ok(endpoint: &str, v: &Value) -> bool {
  match endpoint {
    "healthz" => v["status"] == json!("ok"),
    "init" => v["created"].is_boolean(),
    "add" | "bulk" | "delete" => v["queued"].is_u64(),
    "commit" => v["committed"].is_boolean(),
    "refresh" => v["refreshed"].is_boolean(),
    "compact" => v["compacted"].is_boolean(),
    "search" => v.is_object() && (v["hits"].is_array() || v.get("total_hits_estimate").is_some() || v.get("total_hits").is_some()),
    "inspect" => v["manifest"].is_object(),
    "stats" => v["documents"].is_u64() && v["segments"].is_u64(),
    _ => false,
  }
}

fn obs_json(r: &Resp) -> Value {
  json!({"status": r.status, "end": r.end, "complete": r.complete, "body": r.body_text()})
}

/// disk actions between requests (`{"disk": …}` steps)
fn disk_action(kind: &str, idx: &Path) {
  match kind {
    "corrupt_manifest" => {
      let _ = std::fs::create_dir_all(idx);
      let _ = std::fs::write(idx.join("MANIFEST.json"), b"{ this is not a manifest");
    }
    "garbage_wal" => {
      // 12 continuation bytes (an over-long varint): must be treated as an empty log
      let _ = std::fs::write(idx.join("wal.log"), [0x80u8; 12]);
    }
    "create_external" => {
      let schema: Schema = serde_json::from_value(schema_pool(1)).unwrap();
      if let Ok(i) = Index::create(idx, schema, lib_opts(idx, true)) {
        if let Ok(mut w) = i.writer() {
          let _ = w.add_document(&to_document(&json!({"_id":"x1","body":"rust search engine","tag":"a","year":2001})).unwrap());
          let _ = w.add_document(&to_document(&json!({"_id":"x2","body":"fast lite index","tag":"b","year":2002})).unwrap());
          let _ = w.commit();
        }
      }
    }
    _ => {}
  }
}

impl Prop for C24 {
  fn id(&self) -> &'static str {
    "C24"
  }
  fn rule(&self) -> &'static str {
    "case = one session (fresh in-process server + scratch index directory, 20-30 raw HTTP/1.1 requests drawn from valid / hostile / mutated bodies, content types, methods, paths, framings around the body limit, stalls, core errors and panics — also by storage fault injection through the FsStorage hook —, disk actions); every request is one evaluation; a request is non-trivial when it exercises a failure branch (the model's expected status is not 2xx) ; distinct = distinct (server config, index state, request) JSON"
  }
  fn count(&self, tier: Tier) -> usize {
    tier.pick(64, 6000)
  }
  fn gen(&self, rng: &mut Rng, _tier: Tier, i: usize) -> Value {
    let max_body = *rng.pick(&[1024usize, 2048, 4096, 16384, 16384, 65536]);
    let kind = match i % 8 {
      0 => "preexisting",
      1 => "late_external",
      2 => "corrupt_manifest",
      3 => "garbage_wal",
      4 => "storage_faults",
      _ => "normal",
    };
    let with_stall = i % 4 == 1;
    let mut allow_stall = if with_stall { 2 } else { 0 };
    let n = 20 + rng.below(11);
    let mut steps: Vec<Value> = Vec::new();
    let mut next_id = 0usize;
    let j = Some("application/json");
    match kind {
      "normal" => {
        // some traffic before the index exists, then /init near the front
        for _ in 0..rng.below(5) {
          steps.push(gen_step(rng, max_body, &mut next_id, &mut allow_stall));
        }
        steps.push(step("init.valid", "POST", "/init", j, schema_pool(rng.below(3)).to_string().as_bytes(), "cl"));
      }
      "late_external" => {
        for _ in 0..3 {
          steps.push(gen_step(rng, max_body, &mut next_id, &mut allow_stall));
        }
        steps.push(json!({"tag": "disk", "disk": "create_external"}));
      }
      "corrupt_manifest" => {
        steps.push(json!({"tag": "disk", "disk": "corrupt_manifest"}));
      }
      "garbage_wal" => {
        steps.push(step("init.valid", "POST", "/init", j, schema_pool(0).to_string().as_bytes(), "cl"));
        steps.push(step("add.valid", "POST", "/add", None, &ndjson(&[gen_doc(rng, 1), gen_doc(rng, 2)]), "cl"));
        steps.push(step("commit", "POST", "/commit", None, b"", "cl"));
        steps.push(json!({"tag": "disk", "disk": "garbage_wal"}));
        // every writer-opening endpoint once, /delete among them
        steps.push(step("delete.valid", "POST", "/delete", j, json!({"ids": ["d1"]}).to_string().as_bytes(), "cl"));
        steps.push(step("add.valid", "POST", "/add", None, &ndjson(&[gen_doc(rng, 3)]), "cl"));
        steps.push(step("commit", "POST", "/commit", None, b"", "cl"));
      }
      "storage_faults" => {
        // the core fails, then panics, under every endpoint that reaches it
        steps.push(step("init.valid", "POST", "/init", j, schema_pool(rng.below(2)).to_string().as_bytes(), "cl"));
        steps.push(step("add.valid", "POST", "/add", None, &ndjson(&[gen_doc(rng, 1), gen_doc(rng, 2)]), "cl"));
        steps.push(step("commit", "POST", "/commit", None, b"", "cl"));
        for arm in ["arm_err", "arm_panic", "arm_reader_panic", "arm_commit_panic"] {
          steps.push(json!({"tag": "disk", "disk": arm}));
          let mut reqs = vec![
            step("search.valid", "POST", "/search", j, search_pool(rng).to_string().as_bytes(), "cl"),
            step("add.valid", "POST", "/add", None, &ndjson(&[gen_doc(rng, 3)]), "cl"),
            step("bulk.valid", "POST", "/bulk", j, json!({"docs": [gen_doc(rng, 4)]}).to_string().as_bytes(), "cl"),
            step("delete.valid", "POST", "/delete", j, json!({"ids": ["d1"]}).to_string().as_bytes(), "cl"),
            step("commit", "POST", "/commit", None, b"", "cl"),
            step("refresh", "POST", "/refresh", None, b"", "cl"),
            step("compact", "POST", "/compact", None, b"", "cl"),
            step("stats", "GET", "/stats", None, b"", "cl"),
            step("init.valid", "POST", "/init", j, schema_pool(0).to_string().as_bytes(), "cl"),
          ];
          rng.shuffle(&mut reqs);
          steps.extend(reqs);
          steps.push(json!({"tag": "disk", "disk": "disarm"}));
          steps.push(step("search.valid", "POST", "/search", j, search_pool(rng).to_string().as_bytes(), "cl"));
          steps.push(step("commit", "POST", "/commit", None, b"", "cl"));
        }
      }
      _ => {}
    }
    while steps.len() < n {
      steps.push(gen_step(rng, max_body, &mut next_id, &mut allow_stall));
    }
    if i % 16 == 5 {
      // a body above axum's built-in 2 MiB extractor limit but below the configured limit
      steps.push(step("bulk.over_axum_default", "POST", "/bulk", j, &padded_bulk(AXUM_DEFAULT_LIMIT + 1000, "big"), "cl"));
      return json!({"kind": kind, "cfg": {"max_body": 8 * 1024 * 1024, "timeout_secs": if with_stall { 5 } else { 60 }}, "steps": steps});
    }
    // fault sessions (and every third other session) run with --refresh-on-commit
    let refresh = kind == "storage_faults" || i % 3 == 0;
    json!({"kind": kind, "cfg": {"max_body": max_body, "timeout_secs": if with_stall { 5 } else { 60 }, "refresh_on_commit": refresh}, "steps": steps})
  }

  fn run_case(&self, drv: &mut Driver, case: &Value, s: &mut Summary) {
    let dir = scratch();
    let idx = dir.path().join("idx");
    let kind = case["kind"].as_str().unwrap_or("normal");
    let max_body = case["cfg"]["max_body"].as_u64().unwrap_or(4096) as usize;
    let timeout_secs = case["cfg"]["timeout_secs"].as_u64().unwrap_or(60);
    if kind == "preexisting" {
      disk_action("create_external", &idx);
    }
    let refresh = case["cfg"]["refresh_on_commit"] == json!(true);
    let cfg = ServerCfg { max_body: max_body as u64, timeout_secs, refresh_on_commit: refresh, ..Default::default() };
    let srv = match Server::start(&idx, &cfg) {
      Ok(s) => s,
      Err(e) => {
        s.fail("server.start", "the server did not start on a fresh directory", case, json!(e));
        return;
      }
    };
    let mut sess = Sess { idx: idx.clone(), max_body, armed: 0, refresh, handle: None, loaded: kind == "preexisting" };
    let fault_mode = Arc::new(AtomicU8::new(0));
    searchlite_core::storage::verif::install(idx.clone(), fault_hook(fault_mode.clone()));
    searchlite_core::storage::verif::install_points(idx.clone(), point_hook(fault_mode.clone()));
    let _hook_guard = HookGuard(idx.clone());
    s.count(&format!("session.{kind}"));
    let steps = case["steps"].as_array().cloned().unwrap_or_default();
    let stall_wait = (timeout_secs + 20) * 1000;
    for (k, stepv) in steps.iter().enumerate() {
      // the replayable prefix of the session up to this request
      let upto = || {
        let mut c = case.clone();
        c["steps"] = json!(steps[..=k].to_vec());
        c
      };
      if let Some(dk) = stepv["disk"].as_str() {
        if matches!(dk, "arm_err" | "arm_panic" | "arm_reader_panic" | "arm_commit_panic" | "disarm") {
          // only once the server holds the index: `require_index` opens it on the async task
          let m = match dk {
            "arm_err" if sess.loaded => ARM_ERR,
            "arm_panic" if sess.loaded => ARM_PANIC,
            "arm_reader_panic" if sess.loaded => ARM_READER_PANIC,
            "arm_commit_panic" if sess.loaded => ARM_COMMIT_PANIC,
            _ => 0,
          };
          if sess.armed == 0 {
            // the handle must see everything the server has committed so far
            sess.handle = if idx.join("MANIFEST.json").exists() { Index::open(lib_opts(&idx, false)).ok() } else { None };
            if std::env::var("C24_TRACE").is_ok() {
              eprintln!("[arm {dk}] handle: {:?}", Index::open(lib_opts(&idx, false)).err().map(|e| format!("{e:#}")));
            }
          }
          fault_mode.store(m, Ordering::SeqCst);
          sess.armed = m;
          s.count(&format!("disk.{dk}"));
          continue;
        }
        if !sess.loaded || dk == "garbage_wal" {
          disk_action(dk, &idx);
          s.count(&format!("disk.{dk}"));
        }
        continue;
      }
      let tag = stepv["tag"].as_str().unwrap_or("?").to_string();
      s.count(&format!("req.{tag}"));
      // ---- protocol-level garbage: outside the statement's quantifier; only liveness ----
      if let Some(raw) = stepv["raw"].as_str() {
        let r = exchange(srv.port, &SendPlan { first: unhex(raw), wait_ms: 3000, half_close: true, ..Default::default() });
        s.case(&json!({"raw": raw}), false);
        s.count(&format!("protocol.status.{}", r.status.map(|c| c.to_string()).unwrap_or_else(|| "none".into())));
        let h = simple(srv.port, "GET", "/healthz", None, b"");
        if h.status != Some(200) || !srv.alive() {
          s.fail("healthz-after.protocol", "the server stopped answering /healthz after a malformed HTTP message", &upto(), obs_json(&h));
          return;
        }
        continue;
      }
      if sess.armed == 0 || sess.armed >= ARM_READER_PANIC {
        // follow the server's commits: a fresh handle while no storage fault is armed (the
        // pause-point panics leave `Index::open` alone, and commits/compactions still succeed)
        sess.handle = if idx.join("MANIFEST.json").exists() { Index::open(lib_opts(&idx, false)).ok() } else { None };
      }
      let w = wire(stepv, stall_wait);
      let d = derive(&sess, stepv, &w);
      for n in d.notes.iter() {
        s.count(&format!("note.{n}"));
      }
      let r = exchange(srv.port, &w.plan);
      let class = match d.route_kind {
        "hit" => d.endpoint,
        "wrong_method" => "wrong-method",
        _ => "unknown-path",
      };
      if std::env::var("C24_TRACE").is_ok() {
        eprintln!("[{k}] {tag} {} {} -> {:?} {} | facts {} cores {:?} expect {}", stepv["method"], stepv["path"], r.status, r.body_text(), d.facts, d.cores, d.expect);
      }
      let head = stepv["method"] == json!("HEAD");
      let shape = observed_shape(&r);
      let status = r.status.unwrap_or(0);
      s.count(&format!("status.{status}"));
      s.count(&format!("expect.{}", d.expect));
      let sub = json!({"cfg": case["cfg"], "state": {"loaded": sess.loaded, "armed": sess.armed, "manifest": d.facts["manifest_exists"], "idx": d.facts["idx"]}, "step": stepv});

      // ---- correspondence: model vs socket ----
      let mut model_status = 0u64;
      let mut agreed = d.ambiguous;
      let mut last_model = json!(null);
      if !d.ambiguous {
        for core in d.cores.iter() {
          let mut facts = d.facts.clone();
          facts["core"] = json!(core);
          let route = json!({"kind": d.route_kind, "endpoint": d.endpoint});
          let m = drv.call("C24", json!({"op": "respond", "route": route, "facts": facts}));
          if m["ok"] != json!(true) {
            last_model = m;
            continue;
          }
          model_status = m["status"].as_u64().unwrap_or(0);
          let shape_ok = head || m["shape"] == json!(shape);
          if model_status == status as u64 && shape_ok {
            agreed = true;
            last_model = m;
            break;
          }
          last_model = m;
        }
        if !agreed {
          s.disagree("http.respond", &upto(), json!({"status": status, "shape": shape, "facts": d.facts, "cores": d.cores, "observed": obs_json(&r)}), last_model.clone());
        }
      } else {
        s.count("ambiguous_order_skipped");
      }
      s.case(&sub, !(200..300).contains(&(model_status as u16)) || d.expect != "2xx");

      // ---- finder: the statement on the implementation alone ----
      let core_panic = d.cores == vec!["panic"];
      if r.status.is_none() {
        let sig = if core_panic { format!("no-response.{class}.core-panic") } else { format!("no-response.{class}") };
        s.fail(&sig, "the connection ended without an HTTP response", &upto(), obs_json(&r));
      } else if !head {
        if (200..300).contains(&status) {
          let okj = r.json().map(|v| documented_ok(d.endpoint, &v)).unwrap_or(false);
          if d.route_kind != "hit" || !okj {
            s.fail(&format!("shape.2xx.{class}"), "a 2xx response does not carry the endpoint's documented JSON", &upto(), obs_json(&r));
          }
        } else if shape != "error_json" {
          s.fail(&format!("shape.{status}.{class}"), "a non-2xx response whose body is not {\"error\":{\"type\",\"reason\"}}", &upto(), obs_json(&r));
        }
        let streamed_over = w.streamed && w.seen.len() > sess.max_body;
        let bad = match d.expect {
          "413" => status != 413,
          "404" => status != 404,
          "409" => status != 409,
          "4xx" => !(400..500).contains(&status),
          "500" => status != 500,
          "2xx" => !(200..300).contains(&status),
          "non2xx" => (200..300).contains(&status),
          _ => false,
        };
        if bad {
          let what = match d.expect {
            "413" if streamed_over => "streamed-oversize",
            "413" => "declared-oversize",
            "404" => "missing-index",
            "409" => "re-init",
            "4xx" => "invalid-input",
            "500" => "core-panic",
            "2xx" => "valid-request",
            _ => "failure",
          };
          s.fail(&format!("status.{what}.{class}.{status}"), "the status required by the statement for this request class was not returned", &upto(), json!({"expected": d.expect, "observed": obs_json(&r)}));
        }
      }
      // ---- liveness after every request ----
      let h = simple(srv.port, "GET", "/healthz", None, b"");
      let hv = h.json().unwrap_or(Value::Null);
      if h.status != Some(200) || hv["status"] != json!("ok") || !srv.alive() {
        s.fail(&format!("healthz-after.{class}"), "/healthz did not answer 200 {\"status\":\"ok\"} after this request", &upto(), obs_json(&h));
        return;
      }
      // ---- session state ----
      if d.endpoint == "init" && d.route_kind == "hit" && status == 200 {
        sess.loaded = true;
      }
      if d.loads {
        sess.loaded = true;
      }
    }
  }

  fn finish(&self, _tier: Tier, s: &mut Summary) {
    s.exhaustive = false;
    s.notes.push("status and body shape compared per request; /healthz probed on a fresh connection after every request; core outcome of /refresh and /compact is not predicted natively unless a storage fault is armed (model asked for ok and err); core errors and panics are also produced by storage fault injection through the searchlite_verif FsStorage hook (storage_faults sessions); protocol-level garbage only checked for liveness".into());
  }
}
