//! C25 — CLI, HTTP and FFI agree with the Rust API.
//!
//! One case = a schema, an abstract history (batches of upserts — now and then with a document
//! the library rejects —, deletes, commits, compaction) and a list of searches.  The history
//! is rendered for each front end and run against its own index directory:
//!   * the CLI binary (`searchlite-cli`, built from /repo into `harness/target/cli`, one
//!     subprocess per command),
//!   * the HTTP service (in-process server, raw HTTP/1.1),
//!   * the C FFI (`searchlite_ffi::*`, linked as rlib; adds only — it has no delete/compact).
//! Next to every front-end directory a *twin* directory receives the equivalent Rust API calls.
//!
//! Finder (implementation alone): the harness's own table of equivalent library calls
//! (`native_denote`) is executed on the twin; contents after every commit, the outcome of
//! every operation and the results of every search (through the front end vs
//! `IndexReader::search` on the twin) must coincide.
//! Correspondence: the model's `denote` must equal that table call for call, the model's
//! contents semantics (`runFront`) must predict the committed contents of the front-end
//! directory, and the model's `cliRequest` / `ffiRequest`, run through the library, must
//! give what the CLI / FFI printed.
use crate::idx;
use crate::proto::Driver;
use crate::rng::Rng;
use crate::summary::Summary;
use crate::util::{guarded, scratch};
use crate::{Prop, Tier};
use searchlite_core::api::types::{Document, QueryNode, SearchRequest};
use searchlite_core::api::writer::IndexWriter;
use searchlite_core::api::Index;
use searchlite_core::Schema;
use searchlite_ffi::*;
use serde_json::{json, Value};
use std::collections::BTreeMap;
use std::ffi::CString;
use std::os::raw::c_char;
use std::path::{Path, PathBuf};
use std::process::Command;
use std::sync::{Mutex, OnceLock};

use super::c24::httpc::*;

/// C25 compares results across front ends; availability is C24's subject. A request that got
/// no status line at all (the machine was too busy to answer within the deadline) is repeated
/// - every operation sent here is idempotent - before its absence counts as an outcome.
fn simple(port: u16, method: &str, path: &str, content_type: Option<&str>, body: &[u8]) -> Resp {
  let mut r = super::c24::httpc::simple(port, method, path, content_type, body);
  for _ in 0..2 {
    if r.status.is_some() {
      break;
    }
    std::thread::sleep(std::time::Duration::from_millis(300));
    r = super::c24::httpc::simple(port, method, path, content_type, body);
  }
  r
}

fn post_json(port: u16, path: &str, body: &serde_json::Value) -> Resp {
  simple(port, "POST", path, Some("application/json"), body.to_string().as_bytes())
}
use super::c24::{lib_opts, schema_pool};

pub struct C25;
pub static P: C25 = C25;

// ---------------------------------------------------------------------------------------
// the CLI binary
// ---------------------------------------------------------------------------------------

fn cli_binary() -> Result<PathBuf, String> {
  static BIN: OnceLock<Mutex<Option<Result<PathBuf, String>>>> = OnceLock::new();
  let m = BIN.get_or_init(|| Mutex::new(None));
  let mut g = m.lock().unwrap();
  if let Some(r) = g.as_ref() {
    return r.clone();
  }
  let root = crate::proto::verif_root();
  let target = std::env::var("VERIF_CLI_TARGET").unwrap_or_else(|_| format!("{root}/harness/target/cli"));
  let out = Command::new("cargo")
    .args(["build", "--offline", "-j", "6", "-p", "searchlite-cli", "--manifest-path", &format!("{}/Cargo.toml", std::env::var("VERIF_REPO").unwrap_or_else(|_| "/repo".to_string())), "--target-dir", &target])
    .current_dir(&root)
    .env("CARGO_NET_OFFLINE", "true")
    .env_remove("RUSTFLAGS")
    .output();
  let r = match out {
    Ok(o) if o.status.success() => {
      let p = PathBuf::from(format!("{target}/debug/searchlite-cli"));
      if p.exists() {
        Ok(p)
      } else {
        Err("cargo succeeded but the CLI binary is missing".to_string())
      }
    }
    Ok(o) => {
      let e = String::from_utf8_lossy(&o.stderr);
      let tail: Vec<&str> = e.lines().filter(|l| l.starts_with("error")).take(5).collect();
      Err(format!("building searchlite-cli failed: {}", tail.join("; ")))
    }
    Err(e) => Err(format!("cargo: {e}")),
  };
  *g = Some(r.clone());
  r
}

struct CliOut {
  ok: bool,
  stdout: String,
  stderr: String,
}

fn cli(bin: &Path, args: &[&str]) -> CliOut {
  match Command::new(bin).args(args).env("RUST_BACKTRACE", "0").env_remove("RUST_LOG").output() {
    Ok(o) => CliOut {
      ok: o.status.success(),
      stdout: String::from_utf8_lossy(&o.stdout).to_string(),
      stderr: String::from_utf8_lossy(&o.stderr).lines().next().unwrap_or("").to_string(),
    },
    Err(e) => CliOut { ok: false, stdout: String::new(), stderr: format!("spawn: {e}") },
  }
}

// ---------------------------------------------------------------------------------------
// library interpreter for `LibOp` lists (the twin)
// ---------------------------------------------------------------------------------------

struct Twin {
  dir: PathBuf,
  schema: Schema,
  index: Option<Index>,
  writer: Option<IndexWriter>,
  failed: bool,
}

fn to_document(v: &Value) -> Document {
  let mut fields = BTreeMap::new();
  if let Some(obj) = v.as_object() {
    for (k, x) in obj {
      fields.insert(k.clone(), x.clone());
    }
  }
  Document { fields }
}

impl Twin {
  /// run the calls; `Ok(())` when none of them returned `Err`
  fn exec(&mut self, ops: &[Value]) -> Result<(), String> {
    let mut first_err: Option<String> = None;
    let note = |e: String, fe: &mut Option<String>| {
      if fe.is_none() {
        *fe = Some(e);
      }
    };
    for op in ops {
      let name = op["op"].as_str().unwrap_or("");
      match name {
        "create_idx" => match Index::create(&self.dir, self.schema.clone(), lib_opts(&self.dir, true)) {
          Ok(i) => self.index = Some(i),
          Err(e) => note(format!("create: {e}"), &mut first_err),
        },
        "open_idx" => {
          self.writer = None;
          match Index::open(lib_opts(&self.dir, op["create"].as_bool().unwrap_or(false))) {
            Ok(i) => self.index = Some(i),
            Err(e) => {
              self.index = None;
              note(format!("open: {e}"), &mut first_err);
              // the process ends here (`?`)
              self.failed = true;
            }
          }
        }
        "new_writer" => {
          self.failed = false;
          match self.index.as_ref().map(|i| i.writer()) {
            Some(Ok(w)) => self.writer = Some(w),
            Some(Err(e)) => {
              note(format!("writer: {e}"), &mut first_err);
              self.failed = true;
            }
            None => {
              note("no index".into(), &mut first_err);
              self.failed = true;
            }
          }
        }
        "add" => {
          if !self.failed {
            if let Some(w) = self.writer.as_mut() {
              if let Err(e) = w.add_document(&to_document(&op["doc"]["doc"])) {
                note(format!("add: {e}"), &mut first_err);
                self.failed = true;
              }
            }
          }
        }
        "add_batch" => {
          if !self.failed {
            let docs: Vec<Document> = op["docs"].as_array().map(|a| a.iter().map(|d| to_document(&d["doc"])).collect()).unwrap_or_default();
            if let Some(w) = self.writer.as_mut() {
              if let Err(e) = w.add_documents(&docs) {
                note(format!("add_documents: {e}"), &mut first_err);
                self.failed = true;
              }
            }
          }
        }
        "delete" => {
          if !self.failed {
            let ids: Vec<String> = op["ids"].as_array().map(|a| a.iter().filter_map(|x| x.as_str().map(String::from)).collect()).unwrap_or_default();
            if let Some(w) = self.writer.as_mut() {
              if let Err(e) = w.delete_documents(&ids) {
                note(format!("delete: {e}"), &mut first_err);
                self.failed = true;
              }
            }
          }
        }
        "commit" => {
          if !self.failed {
            if let Some(w) = self.writer.as_mut() {
              if let Err(e) = w.commit() {
                note(format!("commit: {e}"), &mut first_err);
                self.failed = true;
              }
            }
          }
        }
        "rollback_if_failed" => {
          if self.failed {
            if let Some(w) = self.writer.as_mut() {
              let _ = w.rollback();
            }
          }
        }
        "drop_writer" => {
          self.writer = None;
          self.failed = false;
        }
        "compact" => {
          if !self.failed {
            if let Some(Err(e)) = self.index.as_ref().map(|i| i.compact()) {
              note(format!("compact: {e}"), &mut first_err);
            }
          }
        }
        "refresh" => {
          if let Some(Err(e)) = self.index.as_ref().map(|i| i.reader().map(|_| ())) {
            note(format!("refresh: {e}"), &mut first_err);
          }
        }
        _ => note(format!("unknown lib op {name}"), &mut first_err),
      }
    }
    match first_err {
      None => Ok(()),
      Some(e) => Err(e),
    }
  }
}

/// the harness's own reading of the front ends: equivalent library calls, same JSON format
/// as the model's `denote`
fn native_denote(f: &Value) -> Vec<Value> {
  let adds = |docs: &Value| -> Vec<Value> { docs.as_array().map(|a| a.iter().map(|d| json!({"op":"add","doc": d})).collect()).unwrap_or_default() };
  let open = json!({"op":"open_idx","create":false});
  let nw = json!({"op":"new_writer"});
  let dw = json!({"op":"drop_writer"});
  match f["kind"].as_str().unwrap_or("") {
    "cli_init" | "http_init" => vec![json!({"op":"create_idx"})],
    "cli_add" | "cli_update" => {
      let mut v = vec![open, nw];
      v.extend(adds(&f["docs"]));
      v.push(dw);
      v
    }
    "cli_delete" => vec![open, nw, json!({"op":"delete","ids": f["ids"]}), dw],
    "cli_commit" => vec![open, nw, json!({"op":"commit"}), dw],
    "cli_compact" => vec![open, json!({"op":"compact"})],
    "http_add" | "http_bulk" => {
      // `IndexWriter::add_documents`: the request's documents are queued as one unit
      let n = f["docs"].as_array().map(|a| a.len()).unwrap_or(0);
      if n == 0 && f["kind"] == json!("http_add") {
        return vec![];
      }
      vec![nw, json!({"op":"add_batch","docs": f["docs"]}), dw]
    }
    "http_delete" => vec![nw, json!({"op":"delete","ids": f["ids"]}), dw],
    "http_commit" => {
      let mut v = vec![nw, json!({"op":"commit"})];
      if f["refresh"] == json!(true) {
        v.push(json!({"op":"refresh"}));
      }
      v.push(dw);
      v
    }
    "http_compact" => vec![json!({"op":"compact"})],
    "http_refresh" => vec![json!({"op":"refresh"})],
    "ffi_open" => vec![json!({"op":"open_idx","create":true})],
    "ffi_add" => vec![nw, json!({"op":"add","doc": f["doc"]}), json!({"op":"commit"}), dw],
    "ffi_commit" => vec![nw, json!({"op":"commit"}), dw],
    _ => vec![],
  }
}

// ---------------------------------------------------------------------------------------
// comparison helpers
// ---------------------------------------------------------------------------------------

/// structural JSON equality with relative tolerance on numbers (f32 scores printed and
/// re-read differ in the last digits); `next_cursor` values are compared for presence only
fn json_close(a: &Value, b: &Value) -> bool {
  match (a, b) {
    (Value::Number(x), Value::Number(y)) => {
      if x == y {
        return true;
      }
      match (x.as_f64(), y.as_f64()) {
        (Some(p), Some(q)) => idx::close(p, q, 2e-5),
        _ => false,
      }
    }
    (Value::Array(x), Value::Array(y)) => x.len() == y.len() && x.iter().zip(y.iter()).all(|(p, q)| json_close(p, q)),
    (Value::Object(x), Value::Object(y)) => {
      let keys: std::collections::BTreeSet<&String> = x.keys().chain(y.keys()).collect();
      keys.into_iter().all(|k| {
        let p = x.get(k).unwrap_or(&Value::Null);
        let q = y.get(k).unwrap_or(&Value::Null);
        if k == "next_cursor" {
          p.is_null() == q.is_null()
        } else {
          json_close(p, q)
        }
      })
    }
    _ => a == b,
  }
}

/// hits compared as lists; neighbours whose scores tie may be swapped (hash-map summation
/// order / tie-break by internal ids is layout dependent)
fn results_close(a: &Value, b: &Value) -> Result<(), String> {
  let (ha, hb) = (a["hits"].as_array().cloned().unwrap_or_default(), b["hits"].as_array().cloned().unwrap_or_default());
  if ha.len() != hb.len() {
    return Err(format!("hit counts differ: {} vs {}", ha.len(), hb.len()));
  }
  let mut i = 0;
  while i < ha.len() {
    // tie group in `a` starting at i
    let s = ha[i]["score"].as_f64().unwrap_or(f64::NAN);
    let mut j = i + 1;
    while j < ha.len() && idx::close(ha[j]["score"].as_f64().unwrap_or(f64::NAN), s, 2e-5) {
      j += 1;
    }
    let mut ga: Vec<&Value> = ha[i..j].iter().collect();
    let mut gb: Vec<&Value> = hb[i..j].iter().collect();
    let key = |h: &&Value| h["doc_id"].as_str().unwrap_or("").to_string();
    // sorted-by-field requests have no ties to permute in practice; a swap is only accepted
    // inside a score-tie group
    if ga.iter().map(key).collect::<Vec<_>>() != gb.iter().map(key).collect::<Vec<_>>() {
      ga.sort_by_key(key);
      gb.sort_by_key(key);
    }
    for (x, y) in ga.iter().zip(gb.iter()) {
      if !json_close(x, y) {
        return Err(format!("hit differs at rank {i}..{j}: {} vs {}", x, y));
      }
    }
    i = j;
  }
  let strip = |v: &Value| {
    let mut v = v.clone();
    if let Some(o) = v.as_object_mut() {
      o.remove("hits");
    }
    v
  };
  if !json_close(&strip(a), &strip(b)) {
    return Err(format!("response members differ: {} vs {}", strip(a), strip(b)));
  }
  Ok(())
}

fn live_of(dir: &Path) -> Result<BTreeMap<String, Value>, String> {
  let i = Index::open(lib_opts(dir, false)).map_err(|e| format!("open: {e}"))?;
  idx::live(&i)
}

fn lib_search(dir: &Path, req: &Value) -> idx::Outcome {
  let i = match Index::open(lib_opts(dir, false)) {
    Ok(i) => i,
    Err(e) => return idx::Outcome::Err(format!("open: {e}")),
  };
  let r = match i.reader() {
    Ok(r) => r,
    Err(e) => return idx::Outcome::Err(format!("reader: {e}")),
  };
  match serde_json::from_value::<SearchRequest>(req.clone()) {
    Err(e) => idx::Outcome::Err(format!("request: {e}")),
    Ok(sr) => match guarded(|| r.search(&sr)) {
      Ok(Ok(res)) => idx::Outcome::Ok(serde_json::to_value(&res).unwrap_or(Value::Null)),
      Ok(Err(e)) => idx::Outcome::Err(e.to_string()),
      Err(p) => idx::Outcome::Panic(p),
    },
  }
}

// ---------------------------------------------------------------------------------------
// generation
// ---------------------------------------------------------------------------------------

const WORDS: [&str; 9] = ["rust", "search", "engine", "fast", "lite", "index", "über", "日本", "embedded"];

fn gen_doc(rng: &mut Rng, id: usize, rich: bool) -> Value {
  let n = 1 + rng.below(6);
  let body: Vec<&str> = (0..n).map(|_| *rng.pick(&WORDS)).collect();
  let mut d = json!({"_id": format!("d{id}"), "body": body.join(" ")});
  if rich {
    d["tag"] = json!(["a", "b", "c"][rng.below(3)]);
    d["year"] = json!(2000 + rng.below(6));
  }
  d
}

fn gen_request(rng: &mut Rng, rich: bool) -> Value {
  let w = *rng.pick(&WORDS);
  let w2 = *rng.pick(&WORDS);
  let n = if rich { 10 } else { 7 };
  match rng.below(n) {
    0 => json!({"query": w, "limit": 1 + rng.below(4), "return_stored": true}),
    1 => json!({"query": format!("{w} {w2}"), "limit": 5, "return_stored": false, "execution": "bm25"}),
    2 => json!({"query": {"type":"term","field":"body","value": w}, "limit": 3, "return_stored": true, "execution": "bmw"}),
    3 => json!({"query": {"type":"match_all"}, "limit": 20, "return_stored": true}),
    4 => json!({"query": w, "limit": 2, "return_stored": true, "highlight_field": "body"}),
    5 => json!({"query": format!("{w} {w2}"), "limit": 3, "return_stored": false, "aggs": {"n": {"type":"value_count","field":"body"}}}),
    6 => match rng.below(3) {
      0 => json!({"query": {"type":"match_all"}, "limit": 2, "return_stored": false, "page2": true}),
      1 => json!({"query": format!("{w} {w2} {}", rng.pick(&WORDS)), "limit": 10, "return_stored": false, "sort": [{"field":"_score"}]}),
      _ => json!({"query": format!("{w} {w2}"), "limit": 10, "return_stored": false, "sort": [{"field":"_score","order":"asc"}]}),
    },
    7 => match rng.below(3) {
      0 => json!({"query": {"type":"match_all"}, "limit": 10, "return_stored": true, "sort": [{"field":"year","order":"desc"},{"field":"tag"}]}),
      1 => json!({"query": format!("{w} {w2}"), "limit": 10, "return_stored": true, "sort": [{"field":"tag"},{"field":"_score"}]}),
      _ => json!({"query": format!("{w} {w2}"), "limit": 10, "return_stored": false, "sort": [{"field":"year","order":"asc"},{"field":"_score"},{"field":"tag","order":"desc"}]}),
    },
    8 => json!({"query": w, "limit": 5, "return_stored": true, "filter": {"KeywordEq": {"field":"tag","value":"a"}}}),
    _ => json!({"query": {"type":"match_all"}, "limit": 5, "return_stored": false, "aggs": {"t": {"type":"terms","field":"tag"}}}),
  }
}

/// a CLI flag set (what `searchlite search` accepts) as a JSON object of flag → value
fn gen_cli_flags(rng: &mut Rng, rich: bool) -> Value {
  let w = *rng.pick(&WORDS);
  let mut f = json!({"query": w});
  if rng.chance(1, 2) {
    f["query"] = json!(format!("{w} {}", rng.pick(&WORDS)));
  }
  if rng.chance(2, 3) {
    f["limit"] = json!(1 + rng.below(6));
  }
  if rng.chance(1, 2) {
    f["execution"] = json!(*rng.pick(&["bm25", "wand", "bmw", "BM25", "Bmw", "fastest", ""]));
  }
  if rng.chance(1, 2) {
    f["return_stored"] = json!(true);
  }
  if rng.chance(1, 4) {
    f["highlight"] = json!("body");
  }
  if rng.chance(1, 4) {
    f["fields"] = json!(*rng.pick(&["body", "body, body", " body "]));
  }
  // `--sort`: clauses with and without a direction (the core picks the per-field default when
  // none is given: descending for `_score`, ascending otherwise), `_score` alone and as a
  // tie-breaker, odd spacing and case, rejected directions
  if rng.chance(1, 2) {
    const ANY: [&str; 8] = ["_score", "_score:asc", "_score:desc", " _score ", "_score:DESC,", "_score:up", "_score: desc", ",_score"];
    const RICH: [&str; 16] = [
      "year:desc", "year:ASC,tag", " tag:Desc , year ", "year", ",year:asc,,", "year:up", "tag:", "year: desc",
      "year:desc,_score", "year,_score", "tag,_score", "_score,year", "tag:desc,_score:asc", "tag,_score:desc", "year:asc,_score,tag", "_score,tag:desc",
    ];
    f["sort"] = if rich && rng.chance(2, 3) { json!(*rng.pick(&RICH)) } else { json!(*rng.pick(&ANY)) };
    // several hits with different scores, so that the direction shows
    if rng.chance(2, 3) {
      f["query"] = json!(format!("{} {} {}", rng.pick(&WORDS), rng.pick(&WORDS), rng.pick(&WORDS)));
      f["limit"] = json!(3 + rng.below(8));
    }
  }
  if rng.chance(1, 4) {
    f["aggs"] = json!(*rng.pick(&["{\"n\":{\"type\":\"value_count\",\"field\":\"body\"}}", "  ", "not json"]));
  }
  if rng.chance(1, 12) {
    f["limit"] = json!(0);
  }
  if rng.chance(1, 6) {
    f["bmw_block_size"] = json!(1 + rng.below(4));
    f["execution"] = json!("bmw");
  }
  if rng.chance(1, 5) {
    f["page2"] = json!(true);
  }
  f
}

fn gen_ffi_call(rng: &mut Rng) -> Value {
  let w = *rng.pick(&WORDS);
  let query = match rng.below(4) {
    0 => w.to_string(),
    1 => format!("{w} {}", rng.pick(&WORDS)),
    2 => json!({"type":"match_all"}).to_string(),
    _ => json!({"type":"term","field":"body","value": w}).to_string(),
  };
  let aggs = match rng.below(5) {
    0 => json!("{\"n\":{\"type\":\"value_count\",\"field\":\"body\"}}"),
    1 => json!("not json"),
    _ => Value::Null,
  };
  json!({"query": query, "limit": if rng.chance(1, 10) { 0 } else { 1 + rng.below(5) }, "aggs": aggs, "page2": rng.chance(1, 4)})
}

// ---------------------------------------------------------------------------------------

/// wrap a document for the model: `id` = the id the library accepts it under, or null
fn wrap(schema: &Schema, d: &Value) -> Value {
  let doc = to_document(d);
  let ok = d.is_object() && schema.validate_document(&doc).is_ok();
  let id = if ok { d[schema.doc_id_field()].as_str().map(String::from) } else { None };
  json!({"id": id, "doc": d})
}

/// what one front end does with one abstract history step
fn render(front: &str, h: &Value, schema: &Schema, http_bulk: bool, refresh: bool) -> Vec<Value> {
  let wrapped = |docs: &Value| -> Vec<Value> { docs.as_array().map(|a| a.iter().map(|d| wrap(schema, d)).collect()).unwrap_or_default() };
  match (front, h["op"].as_str().unwrap_or("")) {
    ("cli", "add") => vec![json!({"kind": if h["update"] == json!(true) { "cli_update" } else { "cli_add" }, "docs": wrapped(&h["docs"])})],
    ("cli", "delete") => vec![json!({"kind":"cli_delete","ids": h["ids"]})],
    ("cli", "commit") => vec![json!({"kind":"cli_commit"})],
    ("cli", "compact") => vec![json!({"kind":"cli_compact"})],
    ("http", "add") => vec![json!({"kind": if http_bulk { "http_bulk" } else { "http_add" }, "docs": wrapped(&h["docs"])})],
    ("http", "delete") => vec![json!({"kind":"http_delete","ids": h["ids"]})],
    ("http", "commit") => vec![json!({"kind":"http_commit","refresh": refresh})],
    ("http", "compact") => vec![json!({"kind":"http_compact"})],
    ("ffi", "add") => wrapped(&h["docs"]).into_iter().map(|d| json!({"kind":"ffi_add","doc": d})).collect(),
    ("ffi", "commit") => vec![json!({"kind":"ffi_commit"})],
    _ => vec![],
  }
}

struct FfiHandle(*mut IndexHandle);
impl Drop for FfiHandle {
  fn drop(&mut self) {
    unsafe { searchlite_index_close(self.0) };
  }
}

fn ffi_search(h: &FfiHandle, query: &str, limit: usize, cursor: Option<&str>, aggs: Option<&str>) -> Option<Value> {
  let q = CString::new(query).ok()?;
  let cur = cursor.and_then(|c| CString::new(c).ok());
  let mut cap = 1 << 16;
  loop {
    let mut buf = vec![0u8; cap];
    let n = unsafe {
      searchlite_search(
        h.0,
        q.as_ptr(),
        limit,
        cur.as_ref().map(|c| c.as_ptr()).unwrap_or(std::ptr::null()),
        aggs.map(|a| a.as_ptr() as *const c_char).unwrap_or(std::ptr::null()),
        aggs.map(|a| a.len()).unwrap_or(0),
        buf.as_mut_ptr() as *mut c_char,
        cap,
      )
    };
    if n == 0 {
      return None;
    }
    if n + 1 >= cap {
      cap *= 4;
      continue;
    }
    return serde_json::from_slice(&buf[..n]).ok();
  }
}

impl Prop for C25 {
  fn id(&self) -> &'static str {
    "C25"
  }
  fn rule(&self) -> &'static str {
    "case = (schema, abstract history of upsert batches / deletes / commits / compaction with occasional rejected documents, searches as JSON requests, CLI flag sets and FFI argument tuples); the history runs through the CLI binary, the HTTP service and the FFI, each next to a twin directory driven by the equivalent Rust API calls; every front-end operation and every search is one evaluation; an evaluation is non-trivial when it changes or reads non-empty contents (a commit that applies ≥ 1 operation, a rejected batch, a search with ≥ 1 hit or an aggregation, a rejected flag set); distinct = distinct (front end, operation/search, history prefix) JSON"
  }
  fn count(&self, tier: Tier) -> usize {
    tier.pick(20, 600)
  }
  fn gen(&self, rng: &mut Rng, tier: Tier, i: usize) -> Value {
    let schema_i = i % 3; // 0 default text, 1 rich (tag/year), 2 non-stored fast field (compaction refuses)
    let rich = schema_i == 1;
    let n_ops = 4 + rng.below(tier.pick(5, 9));
    let mut hist: Vec<Value> = Vec::new();
    let mut next = 0usize;
    for _ in 0..n_ops {
      match rng.below(10) {
        0..=4 => {
          let n = 1 + rng.below(4);
          let mut docs: Vec<Value> = (0..n)
            .map(|_| {
              // one time in three an id that exists already (upsert)
              let id = if next > 0 && rng.chance(1, 3) { rng.below(next) } else { next += 1; next - 1 };
              gen_doc(rng, id, rich)
            })
            .collect();
          if rng.chance(1, 6) {
            let bad = match rng.below(5) {
              // rejected when queued since /repo 37df93e (unknown top-level member)
              4 => json!({"_id": "bad3", "body": "unknown member", "zzz": 1}),
              0 => json!({"body": "no id"}),
              1 => json!({"_id": "bad1", "body": 17}),
              2 => json!({"_id": "  ", "body": "blank id"}),
              _ => json!({"_id": "bad2", "body": null}),
            };
            let at = rng.below(docs.len() + 1);
            docs.insert(at, bad);
          }
          hist.push(json!({"op": "add", "docs": docs, "update": rng.chance(1, 4)}));
        }
        5..=6 => {
          let k = 1 + rng.below(2);
          let ids: Vec<String> = (0..k).map(|_| format!("d{}", rng.below(next.max(1) + 1))).collect();
          hist.push(json!({"op": "delete", "ids": ids}));
        }
        7..=8 => hist.push(json!({"op": "commit"})),
        _ => hist.push(json!({"op": "compact"})),
      }
    }
    if rng.chance(5, 6) {
      hist.push(json!({"op": "commit"}));
    }
    let n_s = tier.pick(3, 8);
    let requests: Vec<Value> = (0..n_s).map(|_| gen_request(rng, rich)).collect();
    let flags: Vec<Value> = (0..n_s).map(|_| gen_cli_flags(rng, rich)).collect();
    let ffi_calls: Vec<Value> = (0..n_s).map(|_| gen_ffi_call(rng)).collect();
    // one more pass over the same history on ONE directory: every step through a front end of
    // its own (CLI process, HTTP service — stopped and started again in between —, FFI handle)
    let plan: Vec<Value> = hist
      .iter()
      .map(|_| json!({"front": *rng.pick(&["cli", "http", "http", "ffi"]), "restart": rng.chance(1, 3)}))
      .collect();
    let mixed = json!({"init": *rng.pick(&["cli", "http"]), "ops": plan});
    json!({"schema": schema_i, "http_bulk": rng.chance(1, 2), "refresh_on_commit": rng.chance(1, 2), "history": hist, "requests": requests, "cli_flags": flags, "ffi_calls": ffi_calls, "mixed": mixed})
  }

  fn run_case(&self, drv: &mut Driver, case: &Value, s: &mut Summary) {
    let bin = match cli_binary() {
      Ok(b) => b,
      Err(e) => {
        s.disagree("cli.build", case, json!(e), json!(null));
        return;
      }
    };
    let tmp = scratch();
    let root = tmp.path();
    let schema_json = schema_pool(case["schema"].as_u64().unwrap_or(0) as usize);
    let schema: Schema = serde_json::from_value(schema_json.clone()).expect("schema");
    let hist = case["history"].as_array().cloned().unwrap_or_default();
    let http_bulk = case["http_bulk"] == json!(true);
    let refresh = case["refresh_on_commit"] == json!(true);
    let schema_file = root.join("schema.json");
    std::fs::write(&schema_file, schema_json.to_string()).unwrap();

    for front in ["cli", "http", "ffi"] {
      let fdir = root.join(format!("{front}-front"));
      let tdir = root.join(format!("{front}-twin"));
      let mut twin = Twin { dir: tdir.clone(), schema: schema.clone(), index: None, writer: None, failed: false };
      let mut script: Vec<Value> = Vec::new(); // front-end ops so far, for the contents model
      let mut server: Option<Server> = None;
      let mut handle: Option<FfiHandle> = None;
      let fdir_s = fdir.to_string_lossy().to_string();

      // ---- initialisation ----
      let init_op = match front {
        "cli" => json!({"kind":"cli_init"}),
        "http" => json!({"kind":"http_init"}),
        _ => json!({"kind":"ffi_open"}),
      };
      let mut init_note = String::new();
      let init_ok = match front {
        "cli" => cli(&bin, &["init", &fdir_s, &schema_file.to_string_lossy()]).ok,
        "http" => match Server::start(&fdir, &ServerCfg { refresh_on_commit: refresh, ..Default::default() }) {
          Ok(sv) => {
            let r = post_json(sv.port, "/init", &schema_json);
            server = Some(sv);
            if r.status != Some(200) {
              init_note = format!("POST /init answered {:?}", r.status);
            }
            r.status == Some(200)
          }
          Err(e) => {
            init_note = format!("server start: {e}");
            false
          }
        },
        _ => {
          // the FFI can only create the default schema: other schemas are created through the
          // library first, then opened through the FFI
          if case["schema"] != json!(0) {
            let _ = Index::create(&fdir, schema.clone(), lib_opts(&fdir, true));
            let _ = Index::create(&tdir, schema.clone(), lib_opts(&tdir, true));
          }
          let p = CString::new(fdir_s.clone()).unwrap();
          let h = unsafe { searchlite_index_open(p.as_ptr(), true) };
          if h.is_null() {
            false
          } else {
            handle = Some(FfiHandle(h));
            true
          }
        }
      };
      let twin_init = twin.exec(&native_denote(&init_op));
      if !init_ok || twin_init.is_err() {
        s.fail(&format!("init.{front}"), "initialising an index through the front end failed", case, json!({"front_ok": init_ok, "twin": format!("{twin_init:?}"), "note": init_note}));
        continue;
      }
      script.push(init_op);

      // ---- the history ----
      let mut aborted = false;
      for (k, h) in hist.iter().enumerate() {
        let ops = render(front, h, &schema, http_bulk, refresh);
        for fop in ops {
          let sub = json!({"front": front, "schema": case["schema"], "op": fop, "after": k});
          // model vs the harness's table of equivalent calls
          let native = native_denote(&fop);
          let m = drv.call("C25", json!({"op":"denote","front": fop}));
          if m["ops"] != json!(native) {
            s.disagree("denote.table", &sub, json!(native), m.clone());
          }
          // the front end
          let kind = fop["kind"].as_str().unwrap_or("");
          let raw_docs: Vec<Value> = fop["docs"].as_array().map(|a| a.iter().map(|d| d["doc"].clone()).collect()).unwrap_or_default();
          let front_ok: bool = match kind {
            "cli_add" | "cli_update" => {
              let f = root.join(format!("docs-{k}.jsonl"));
              let txt: String = raw_docs.iter().map(|d| format!("{d}\n")).collect();
              std::fs::write(&f, txt).unwrap();
              cli(&bin, &[if kind == "cli_add" { "add" } else { "update" }, &fdir_s, &f.to_string_lossy()]).ok
            }
            "cli_delete" => {
              let f = root.join(format!("ids-{k}.txt"));
              let txt: String = fop["ids"].as_array().unwrap().iter().map(|d| format!("{}\n", d.as_str().unwrap_or(""))).collect();
              std::fs::write(&f, txt).unwrap();
              cli(&bin, &["delete", &fdir_s, &f.to_string_lossy()]).ok
            }
            "cli_commit" => cli(&bin, &["commit", &fdir_s]).ok,
            "cli_compact" => cli(&bin, &["compact", &fdir_s]).ok,
            "http_add" => {
              let body: String = raw_docs.iter().map(|d| format!("{d}\n")).collect();
              simple(server.as_ref().unwrap().port, "POST", "/add", Some("application/x-ndjson"), body.as_bytes()).status == Some(200)
            }
            "http_bulk" => post_json(server.as_ref().unwrap().port, "/bulk", &json!({"docs": raw_docs})).status == Some(200),
            "http_delete" => post_json(server.as_ref().unwrap().port, "/delete", &json!({"ids": fop["ids"]})).status == Some(200),
            "http_commit" => simple(server.as_ref().unwrap().port, "POST", "/commit", None, b"").status == Some(200),
            "http_compact" => simple(server.as_ref().unwrap().port, "POST", "/compact", None, b"").status == Some(200),
            "ffi_add" => {
              let js = CString::new(fop["doc"]["doc"].to_string()).unwrap();
              unsafe { searchlite_add_json(handle.as_ref().unwrap().0, js.as_ptr(), js.as_bytes().len()) >= 0 }
            }
            "ffi_commit" => unsafe { searchlite_commit(handle.as_ref().unwrap().0) == 0 },
            _ => true,
          };
          // the equivalent library calls on the twin
          let twin_res = twin.exec(&native);
          script.push(fop.clone());
          s.count(&format!("op.{kind}.{}", if front_ok { "ok" } else { "rejected" }));
          let commits = matches!(kind, "cli_commit" | "http_commit" | "ffi_add" | "ffi_commit");
          let mut nontrivial = !front_ok;
          if front_ok != twin_res.is_ok() {
            s.fail(&format!("outcome.{kind}"), "the front-end operation and the equivalent library calls disagree on success/failure", &sub, json!({"front_ok": front_ok, "library": format!("{twin_res:?}")}));
            aborted = true;
          }
          if commits || kind.ends_with("compact") {
            let lf = live_of(&fdir);
            let lt = live_of(&tdir);
            match (&lf, &lt) {
              (Ok(a), Ok(b)) => {
                nontrivial = nontrivial || !a.is_empty();
                if a != b {
                  let only_f: Vec<&String> = a.keys().filter(|k| b.get(*k) != a.get(*k)).collect();
                  let only_t: Vec<&String> = b.keys().filter(|k| a.get(*k) != b.get(*k)).collect();
                  s.fail(&format!("contents.{front}"), "index contents after the front-end history differ from the contents after the equivalent library calls", &json!({"front": front, "case": case, "upto": k}), json!({"differs_front": only_f, "differs_library": only_t}));
                  s.disagree("denote.effect", &sub, json!({"front": a.keys().collect::<Vec<_>>()}), json!({"library": b.keys().collect::<Vec<_>>()}));
                  aborted = true;
                }
                // the model's contents semantics on the script so far
                let m = drv.call("C25", json!({"op":"run","script": script}));
                let mut model: BTreeMap<String, Value> = BTreeMap::new();
                for kv in m["state"]["committed"].as_array().cloned().unwrap_or_default() {
                  model.insert(kv[0].as_str().unwrap_or("").to_string(), kv[1]["doc"].clone());
                }
                // stored projection: compare ids, and the stored fields the schema keeps
                let ids_model: Vec<&String> = model.keys().collect();
                let ids_impl: Vec<&String> = a.keys().collect();
                let mut same = m["ok"] == json!(true) && ids_model == ids_impl;
                if same {
                  for (id, doc) in a.iter() {
                    if let Some(o) = doc.as_object() {
                      for (fk, fv) in o {
                        if model[id].get(fk) != Some(fv) {
                          same = false;
                        }
                      }
                    }
                  }
                }
                if !same {
                  s.disagree("contents.model", &json!({"front": front, "script": script}), json!(a), m["state"]["committed"].clone());
                }
              }
              _ => {
                if lf.is_ok() != lt.is_ok() {
                  s.fail(&format!("contents.{front}"), "contents readable on one side only", &sub, json!({"front": format!("{lf:?}"), "library": format!("{lt:?}")}));
                  aborted = true;
                }
              }
            }
          }
          s.case(&sub, nontrivial);
          if aborted {
            break;
          }
        }
        if aborted {
          break;
        }
      }
      if aborted {
        continue;
      }

      // ---- searches through the front end vs the library on the twin ----
      match front {
        "http" => {
          let port = server.as_ref().unwrap().port;
          for req in case["requests"].as_array().cloned().unwrap_or_default() {
            let mut req = req;
            let page2 = req.as_object_mut().and_then(|o| o.remove("page2")).is_some();
            let mut fr = post_json(port, "/search", &req);
            let mut lib = lib_search(&tdir, &req);
            if page2 {
              let c1 = fr.json().and_then(|v| v["next_cursor"].as_str().map(String::from));
              let c2 = lib.ok().and_then(|v| v["next_cursor"].as_str().map(String::from));
              if let (Some(c1), Some(c2)) = (c1, c2) {
                let mut r1 = req.clone();
                r1["cursor"] = json!(c1);
                let mut r2 = req.clone();
                r2["cursor"] = json!(c2);
                fr = post_json(port, "/search", &r1);
                lib = lib_search(&tdir, &r2);
                s.count("search.page2");
              }
            }
            let sub = json!({"front":"http","schema":case["schema"],"history":case["history"],"http_bulk":http_bulk,"request":req,"page2":page2});
            compare_search(s, "http", &sub, fr.status == Some(200), fr.json(), &lib, None);
          }
        }
        "cli" => {
          // (a) request files
          for (n, req) in case["requests"].as_array().cloned().unwrap_or_default().into_iter().enumerate() {
            let mut req = req;
            let page2 = req.as_object_mut().and_then(|o| o.remove("page2")).is_some();
            let f = root.join(format!("req-{n}.json"));
            std::fs::write(&f, req.to_string()).unwrap();
            let out = cli(&bin, &["search", &fdir_s, "--request", &f.to_string_lossy()]);
            let lib = lib_search(&tdir, &req);
            let sub = json!({"front":"cli","schema":case["schema"],"history":case["history"],"request":req,"page2":page2});
            compare_search(s, "cli.request-file", &sub, out.ok, serde_json::from_str(&out.stdout).ok(), &lib, None);
          }
          // (b) flags
          for flags in case["cli_flags"].as_array().cloned().unwrap_or_default() {
            let run_flags = |cursor: Option<&str>| -> CliOut {
              let mut args: Vec<String> = vec!["search".into(), fdir_s.clone()];
              if let Some(q) = flags["query"].as_str() {
                args.push("-q".into());
                args.push(q.into());
              }
              for (k, flag) in [("limit", "--limit"), ("bmw_block_size", "--bmw-block-size")] {
                if let Some(v) = flags[k].as_u64() {
                  args.push(flag.into());
                  args.push(v.to_string());
                }
              }
              for (k, flag) in [("execution", "--execution"), ("fields", "--fields"), ("highlight", "--highlight"), ("sort", "--sort"), ("aggs", "--aggs")] {
                if let Some(v) = flags[k].as_str() {
                  args.push(format!("{flag}={v}"));
                }
              }
              if flags["return_stored"] == json!(true) {
                args.push("--return-stored".into());
              }
              if let Some(c) = cursor {
                args.push("--cursor".into());
                args.push(c.into());
              }
              let a: Vec<&str> = args.iter().map(|x| x.as_str()).collect();
              cli(&bin, &a)
            };
            // the request the flags stand for: (i) the model's, (ii) the harness's own reading of
            // the README (`-q`, `--limit` default 10, `--execution` default wand, …)
            let model_args = |cursor: Option<&str>| -> Value {
              let mut a = flags.clone();
              a.as_object_mut().unwrap().remove("page2");
              if let Some(t) = flags["aggs"].as_str() {
                a["aggs"] = if t.trim().is_empty() {
                  json!({"kind":"blank"})
                } else {
                  match serde_json::from_str::<BTreeMap<String, searchlite_core::api::types::Aggregation>>(t) {
                    Ok(_) => json!({"kind":"parsed","map": serde_json::from_str::<Value>(t).unwrap()}),
                    Err(_) => json!({"kind":"invalid"}),
                  }
                };
              }
              if let Some(c) = cursor {
                a["cursor"] = json!(c);
              }
              a
            };
            let native_req = |cursor: Option<&str>| -> Option<Value> { native_cli_request(&flags, cursor) };
            let mut out = run_flags(None);
            let mut m = drv.call("C25", json!({"op":"cli_request","args": model_args(None)}));
            let mut nat = native_req(None);
            let page2 = flags["page2"] == json!(true);
            if page2 && out.ok {
              let c1 = serde_json::from_str::<Value>(&out.stdout).ok().and_then(|v| v["next_cursor"].as_str().map(String::from));
              let c2 = nat.as_ref().and_then(|r| lib_search(&tdir, r).ok().and_then(|v| v["next_cursor"].as_str().map(String::from)));
              if let (Some(c1), Some(c2)) = (c1, c2) {
                out = run_flags(Some(&c1));
                m = drv.call("C25", json!({"op":"cli_request","args": model_args(Some(&c2))}));
                nat = native_req(Some(&c2));
                s.count("search.page2");
              }
            }
            let sub = json!({"front":"cli","schema":case["schema"],"history":case["history"],"flags":flags});
            let front_json: Option<Value> = serde_json::from_str(&out.stdout).ok();
            // finder: harness's request through the library
            match &nat {
              Some(r) => compare_search(s, "cli.flags", &sub, out.ok, front_json.clone(), &lib_search(&tdir, r), None),
              None => {
                s.count("cli.flags.rejected_expected");
                s.case(&sub, true);
                if out.ok {
                  s.fail("search.cli.flags.accepted-invalid", "the CLI accepted a flag set that has no library request (limit 0, bad sort order, bad aggregations)", &sub, json!(out.stdout));
                }
              }
            }
            // correspondence: the model's request through the library
            if m["ok"] != json!(true) {
              s.disagree("cli.request", &sub, json!({"cli_ok": out.ok}), m.clone());
            } else if m["result"] == json!("ok") {
              let lib = lib_search(&tdir, &m["request"]);
              let agree = match (&lib, out.ok, &front_json) {
                (idx::Outcome::Ok(l), true, Some(f)) => results_close(f, l).is_ok(),
                (idx::Outcome::Err(_), false, _) => true,
                // the library panics on this request (C16): the CLI process dies with it
                (idx::Outcome::Panic(_), false, _) => true,
                _ => false,
              };
              if !agree {
                s.disagree("cli.request", &sub, json!({"cli_ok": out.ok, "stdout": front_json, "stderr": out.stderr}), json!({"model_request": m["request"], "library": lib.to_json()}));
              }
            } else if out.ok {
              s.disagree("cli.request", &sub, json!({"cli_ok": true}), m.clone());
            }
          }
        }
        _ => {
          let h = handle.as_ref().unwrap();
          for call in case["ffi_calls"].as_array().cloned().unwrap_or_default() {
            let q = call["query"].as_str().unwrap_or("");
            let limit = call["limit"].as_u64().unwrap_or(1) as usize;
            let aggs = call["aggs"].as_str();
            let node: Option<Value> = serde_json::from_str::<QueryNode>(q).ok().map(|_| serde_json::from_str::<Value>(q).unwrap());
            let aggs_model = match aggs {
              None => json!({"kind":"absent"}),
              Some(t) if t.is_empty() => json!({"kind":"absent"}),
              Some(t) => match serde_json::from_str::<BTreeMap<String, searchlite_core::api::types::Aggregation>>(t) {
                Ok(_) => json!({"kind":"parsed","map": serde_json::from_str::<Value>(t).unwrap()}),
                Err(_) => json!({"kind":"invalid"}),
              },
            };
            let native_req = |cursor: Option<&str>| -> Option<Value> {
              if aggs_model["kind"] == json!("invalid") {
                return None;
              }
              let mut r = json!({"query": node.clone().unwrap_or(json!(q)), "limit": limit, "return_stored": true});
              if aggs_model["kind"] == json!("parsed") {
                r["aggs"] = aggs_model["map"].clone();
              }
              if let Some(c) = cursor {
                r["cursor"] = json!(c);
              }
              Some(r)
            };
            let mut nat = native_req(None);
            // a panic inside an `extern "C"` function aborts the process: ask the library first
            // (same request, same contents) and do not make the FFI call if it panics there
            if let Some(r) = &nat {
              if let idx::Outcome::Panic(p) = lib_search(&tdir, r) {
                s.count("ffi.skipped_library_panics");
                if s.notes.len() < 3 {
                  s.notes.push(format!("library panic (FFI call skipped, it would abort the process): {p} on {r}"));
                }
                continue;
              }
            }
            let mut out = ffi_search(h, q, limit, None, aggs);
            let mut mreq = json!({"op":"ffi_request","query": q, "node": node, "limit": limit, "aggs": aggs_model});
            if call["page2"] == json!(true) {
              let c1 = out.as_ref().and_then(|v| v["next_cursor"].as_str().map(String::from));
              let c2 = nat.as_ref().and_then(|r| lib_search(&tdir, r).ok().and_then(|v| v["next_cursor"].as_str().map(String::from)));
              if let (Some(c1), Some(c2)) = (c1, c2) {
                nat = native_req(Some(&c2));
                if let Some(idx::Outcome::Panic(_)) = nat.as_ref().map(|r| lib_search(&tdir, r)) {
                  s.count("ffi.skipped_library_panics");
                  continue;
                }
                out = ffi_search(h, q, limit, Some(&c1), aggs);
                mreq["cursor"] = json!(c2);
                s.count("search.page2");
              }
            }
            let sub = json!({"front":"ffi","schema":case["schema"],"history":case["history"],"call":call});
            match &nat {
              Some(r) => compare_search(s, "ffi", &sub, out.is_some(), out.clone(), &lib_search(&tdir, r), None),
              None => {
                s.case(&sub, true);
                if out.is_some() {
                  s.fail("search.ffi.accepted-invalid-aggs", "searchlite_search produced output although the aggregation JSON is invalid", &sub, json!(out));
                }
              }
            }
            let m = drv.call("C25", mreq);
            if m["ok"] != json!(true) {
              s.disagree("ffi.request", &sub, json!(out), m.clone());
            } else if m["result"] == json!("ok") {
              let lib = lib_search(&tdir, &m["request"]);
              let agree = match (&lib, &out) {
                (idx::Outcome::Ok(l), Some(f)) => results_close(f, l).is_ok(),
                (idx::Outcome::Err(_), None) => true,
                _ => false,
              };
              if !agree {
                s.disagree("ffi.request", &sub, json!(out), json!({"model_request": m["request"], "library": lib.to_json()}));
              }
            } else if out.is_some() {
              s.disagree("ffi.request", &sub, json!(out), m.clone());
            }
          }
        }
      }
      drop(handle);
      drop(server);
    }
    run_mixed(drv, case, s, &bin, root, &schema, &schema_json, &schema_file);
  }

  fn finish(&self, _tier: Tier, s: &mut Summary) {
    s.exhaustive = false;
    s.notes.push("three front ends (CLI subprocess, in-process HTTP server, FFI rlib), each against a twin directory driven by the equivalent library calls; contents compared after every commit/compaction, outcomes per operation, searches through the front end vs IndexReader::search on the twin (scores within 2e-5, ties as sets, next_cursor by presence)".into());
  }
}

/// The same history on ONE index directory, every step through a front end of its own: CLI
/// commands (separate processes), the HTTP service (started when needed, stopped before another
/// front end touches the directory, and now and then stopped and started again between two
/// requests), the FFI (handle opened and closed around its adds).  What one front end queued
/// must be committed by the next one; the twin receives the equivalent library calls, a server
/// start being `Index::open`.
#[allow(clippy::too_many_arguments)]
fn run_mixed(drv: &mut Driver, case: &Value, s: &mut Summary, bin: &Path, root: &Path, schema: &Schema, schema_json: &Value, schema_file: &Path) {
  let hist = case["history"].as_array().cloned().unwrap_or_default();
  let http_bulk = case["http_bulk"] == json!(true);
  let refresh = case["refresh_on_commit"] == json!(true);
  let fdir = root.join("mixed-front");
  let tdir = root.join("mixed-twin");
  let fdir_s = fdir.to_string_lossy().to_string();
  let mut twin = Twin { dir: tdir.clone(), schema: schema.clone(), index: None, writer: None, failed: false };
  let mut script: Vec<Value> = Vec::new();
  let mut server: Option<Server> = None;
  // what the front end said last (HTTP status and body, or the CLI's first stderr line): goes
  // into the observation of a failure, so that a replay file shows why an operation failed
  let note = std::cell::RefCell::new(String::new());
  let http_ok = |port: u16, r: Resp| -> bool {
    *note.borrow_mut() = format!("port {port}: HTTP {:?} ({}) {}", r.status, r.end, r.body_text());
    r.status == Some(200)
  };
  let cli_ok = |o: CliOut| -> bool {
    *note.borrow_mut() = format!("cli exit ok={} stderr: {}", o.ok, o.stderr);
    o.ok
  };
  let cfg = ServerCfg { refresh_on_commit: refresh, ..Default::default() };
  let plan_of = |k: usize| -> (String, bool) {
    match case["mixed"]["ops"].get(k) {
      Some(p) => (p["front"].as_str().unwrap_or("cli").to_string(), p["restart"] == json!(true)),
      None => (["cli", "http", "ffi"][k % 3].to_string(), k % 2 == 1),
    }
  };
  // a server (re)start is `Index::open` on the twin
  macro_rules! ensure_server {
    ($restart:expr) => {{
      if $restart {
        server = None;
      }
      if server.is_none() {
        match Server::start(&fdir, &cfg) {
          Ok(sv) => {
            server = Some(sv);
            if fdir.join("MANIFEST.json").exists() {
              let _ = twin.exec(&[json!({"op":"open_idx","create":false})]);
            }
            s.count("mixed.server_start");
          }
          Err(e) => {
            s.fail("mixed.server-start", "the HTTP service did not start on a directory written by another front end", case, json!(e));
            return;
          }
        }
      }
      server.as_ref().unwrap().port
    }};
  }
  // ---- init ----
  let init_http = case["mixed"]["init"] == json!("http");
  let init_op = if init_http { json!({"kind":"http_init"}) } else { json!({"kind":"cli_init"}) };
  let init_ok = if init_http {
    let port = ensure_server!(false);
    http_ok(port, post_json(port, "/init", schema_json))
  } else {
    cli_ok(cli(bin, &["init", &fdir_s, &schema_file.to_string_lossy()]))
  };
  if !init_ok || twin.exec(&native_denote(&init_op)).is_err() {
    s.fail("init.mixed", "initialising the shared index failed", case, json!({"front_ok": init_ok, "front_said": note.borrow().clone()}));
    return;
  }
  script.push(init_op);
  // ---- the history ----
  for (k, h) in hist.iter().enumerate() {
    let (mut front, restart) = plan_of(k);
    if front == "ffi" && h["op"] != json!("add") {
      front = "http".into();
    }
    let ops = render(&front, h, schema, http_bulk, refresh);
    let mut handle: Option<FfiHandle> = None;
    if front != "http" {
      // another process / handle takes over the directory: the service is stopped first
      server = None;
    }
    if front == "ffi" {
      let p = CString::new(fdir_s.clone()).unwrap();
      let hnd = unsafe { searchlite_index_open(p.as_ptr(), false) };
      if hnd.is_null() {
        s.fail("mixed.ffi-open", "searchlite_index_open failed on a directory written by another front end", case, json!(k));
        return;
      }
      handle = Some(FfiHandle(hnd));
      let _ = twin.exec(&[json!({"op":"open_idx","create":false})]);
    }
    for fop in ops {
      let kind = fop["kind"].as_str().unwrap_or("").to_string();
      let sub = json!({"front": "mixed", "via": front, "restart": restart, "schema": case["schema"], "op": fop, "after": k, "history": case["history"], "mixed": case["mixed"]});
      let raw_docs: Vec<Value> = fop["docs"].as_array().map(|a| a.iter().map(|d| d["doc"].clone()).collect()).unwrap_or_default();
      let front_ok: bool = match kind.as_str() {
        "cli_add" | "cli_update" => {
          let f = root.join(format!("mixed-docs-{k}.jsonl"));
          let txt: String = raw_docs.iter().map(|d| format!("{d}\n")).collect();
          std::fs::write(&f, txt).unwrap();
          cli_ok(cli(bin, &[if kind == "cli_add" { "add" } else { "update" }, &fdir_s, &f.to_string_lossy()]))
        }
        "cli_delete" => {
          let f = root.join(format!("mixed-ids-{k}.txt"));
          let txt: String = fop["ids"].as_array().unwrap().iter().map(|d| format!("{}\n", d.as_str().unwrap_or(""))).collect();
          std::fs::write(&f, txt).unwrap();
          cli_ok(cli(bin, &["delete", &fdir_s, &f.to_string_lossy()]))
        }
        "cli_commit" => cli_ok(cli(bin, &["commit", &fdir_s])),
        "cli_compact" => cli_ok(cli(bin, &["compact", &fdir_s])),
        "ffi_add" => {
          let js = CString::new(fop["doc"]["doc"].to_string()).unwrap();
          unsafe { searchlite_add_json(handle.as_ref().unwrap().0, js.as_ptr(), js.as_bytes().len()) >= 0 }
        }
        _ => {
          let port = ensure_server!(restart);
          match kind.as_str() {
            "http_add" => {
              let body: String = raw_docs.iter().map(|d| format!("{d}\n")).collect();
              http_ok(port, simple(port, "POST", "/add", Some("application/x-ndjson"), body.as_bytes()))
            }
            "http_bulk" => http_ok(port, post_json(port, "/bulk", &json!({"docs": raw_docs}))),
            "http_delete" => http_ok(port, post_json(port, "/delete", &json!({"ids": fop["ids"]}))),
            "http_commit" => http_ok(port, simple(port, "POST", "/commit", None, b"")),
            "http_compact" => http_ok(port, simple(port, "POST", "/compact", None, b"")),
            _ => true,
          }
        }
      };
      let twin_res = twin.exec(&native_denote(&fop));
      script.push(fop.clone());
      s.count(&format!("mixed.op.{kind}.{}", if front_ok { "ok" } else { "rejected" }));
      let mut nontrivial = !front_ok;
      if front_ok != twin_res.is_ok() {
        s.fail(&format!("outcome.mixed.{kind}"), "the front-end operation and the equivalent library calls disagree on success/failure (shared directory)", &sub, json!({"front_ok": front_ok, "front_said": note.borrow().clone(), "library": format!("{twin_res:?}")}));
        return;
      }
      if matches!(kind.as_str(), "cli_commit" | "http_commit" | "ffi_add" | "cli_compact" | "http_compact") {
        match (live_of(&fdir), live_of(&tdir)) {
          (Ok(a), Ok(b)) => {
            nontrivial = nontrivial || !a.is_empty() || !b.is_empty();
            if a != b {
              let df: Vec<&String> = a.keys().filter(|k| b.get(*k) != a.get(*k)).collect();
              let dt: Vec<&String> = b.keys().filter(|k| a.get(*k) != b.get(*k)).collect();
              s.fail("contents.mixed", "one index directory driven through several front ends (CLI processes, restarted HTTP service, FFI handles): contents after a commit differ from the same operations through the library", &sub, json!({"differs_front": df, "differs_library": dt}));
              s.disagree("denote.effect", &sub, json!({"front": a.keys().collect::<Vec<_>>()}), json!({"library": b.keys().collect::<Vec<_>>()}));
              return;
            }
            // the contents model: a restart or a change of front end is not an operation
            let m = drv.call("C25", json!({"op":"run","script": script}));
            let ids_model: std::collections::BTreeSet<String> = m["state"]["committed"].as_array().map(|x| x.iter().filter_map(|kv| kv[0].as_str().map(String::from)).collect()).unwrap_or_default();
            let ids_impl: std::collections::BTreeSet<String> = a.keys().cloned().collect();
            if m["ok"] != json!(true) || ids_model != ids_impl {
              s.disagree("contents.model", &json!({"front": "mixed", "script": script}), json!(ids_impl), m["state"]["committed"].clone());
            }
          }
          (a, b) => {
            if a.is_ok() != b.is_ok() {
              s.fail("contents.mixed", "contents readable on one side only", &sub, json!({"front": format!("{a:?}"), "library": format!("{b:?}")}));
              return;
            }
          }
        }
      }
      s.case(&sub, nontrivial);
    }
    drop(handle);
  }
  // ---- searches through the (restarted) service ----
  let port = ensure_server!(true);
  for req in case["requests"].as_array().cloned().unwrap_or_default().into_iter().take(3) {
    let mut req = req;
    if let Some(o) = req.as_object_mut() {
      o.remove("page2");
    }
    let fr = post_json(port, "/search", &req);
    let lib = lib_search(&tdir, &req);
    let sub = json!({"front":"mixed","schema":case["schema"],"history":case["history"],"mixed":case["mixed"],"request":req});
    compare_search(s, "mixed.http", &sub, fr.status == Some(200), fr.json(), &lib, None);
  }
}

/// the harness's own reading of the CLI documentation: the request a flag set stands for;
/// `None` = the flag set must be rejected
fn native_cli_request(flags: &Value, cursor: Option<&str>) -> Option<Value> {
  let q = flags["query"].as_str()?;
  let limit = flags["limit"].as_u64().unwrap_or(10);
  if limit == 0 {
    return None;
  }
  let mut r = json!({"query": q, "limit": limit, "return_stored": flags["return_stored"] == json!(true)});
  if let Some(e) = flags["execution"].as_str() {
    r["execution"] = json!(match e.to_ascii_lowercase().as_str() {
      "bm25" => "bm25",
      "bmw" => "bmw",
      _ => "wand",
    });
  }
  if let Some(b) = flags["bmw_block_size"].as_u64() {
    r["bmw_block_size"] = json!(b);
  }
  if let Some(h) = flags["highlight"].as_str() {
    r["highlight_field"] = json!(h);
  }
  if let Some(f) = flags["fields"].as_str() {
    r["fields"] = json!(f.split(',').map(|x| x.trim().to_string()).collect::<Vec<_>>());
  }
  if let Some(sv) = flags["sort"].as_str() {
    let mut out = Vec::new();
    for clause in sv.split(',') {
      let t = clause.trim();
      if t.is_empty() {
        continue;
      }
      match t.split_once(':') {
        None => out.push(json!({"field": t})),
        Some((f, o)) => match o.to_ascii_lowercase().as_str() {
          "asc" => out.push(json!({"field": f, "order": "asc"})),
          "desc" => out.push(json!({"field": f, "order": "desc"})),
          _ => return None,
        },
      }
    }
    r["sort"] = json!(out);
  }
  if let Some(a) = flags["aggs"].as_str() {
    if !a.trim().is_empty() {
      let v: Value = serde_json::from_str(a).ok()?;
      serde_json::from_value::<BTreeMap<String, searchlite_core::api::types::Aggregation>>(v.clone()).ok()?;
      r["aggs"] = v;
    }
  }
  if let Some(c) = cursor {
    r["cursor"] = json!(c);
  }
  Some(r)
}

/// finder for one search: front end (ok?, JSON) vs library outcome on the twin
fn compare_search(s: &mut Summary, front: &str, sub: &Value, front_ok: bool, front_json: Option<Value>, lib: &idx::Outcome, _note: Option<&str>) {
  let mut nontrivial = false;
  match (lib, front_ok) {
    (idx::Outcome::Ok(l), true) => match front_json {
      Some(f) => {
        nontrivial = l["hits"].as_array().map(|a| !a.is_empty()).unwrap_or(false) || l.get("aggregations").map(|a| !a.is_null()).unwrap_or(false);
        if let Err(e) = results_close(&f, l) {
          s.fail(&format!("search.{front}.results"), "search results through the front end differ from IndexReader::search for the same request on the same contents", sub, json!({"why": e, "front": f, "library": l}));
        }
      }
      None => s.fail(&format!("search.{front}.output"), "the front end reported success but its output is not JSON", sub, json!(null)),
    },
    (idx::Outcome::Ok(l), false) => s.fail(&format!("search.{front}.rejected"), "the front end failed on a request the library answers", sub, json!({"library": l})),
    (idx::Outcome::Err(e), true) => s.fail(&format!("search.{front}.accepted"), "the front end answered a request the library rejects", sub, json!({"library_error": e, "front": front_json})),
    (idx::Outcome::Err(_), false) => nontrivial = true,
    (idx::Outcome::Panic(_), _) => s.count("search.library_panic"),
  }
  s.count(&format!("search.{front}"));
  s.case(sub, nontrivial);
}
