//! C26 — the C search entry point stays within the caller's buffer.
//! Correspondence: the real `searchlite_search` vs `SL.Ffi.search` for every capacity.
//! Finder: guard bytes around the buffer, NUL position, prefix, return value — on the
//! implementation alone.
use crate::proto::Driver;
use crate::rng::Rng;
use crate::summary::Summary;
use crate::util::{guarded, hex, scratch};
use crate::{Prop, Tier};
use searchlite_core::api::types::{
  Aggregation, ExecutionStrategy, IndexOptions, Query, QueryNode, SearchRequest, StorageType,
};
use searchlite_core::api::Index;
use searchlite_ffi::*;
use serde_json::{json, Value};
use std::collections::BTreeMap;
use std::ffi::CString;
use std::os::raw::c_char;

pub struct C26;
pub static P: C26 = C26;

const GUARD: usize = 32;
const WORDS: [&str; 8] = ["rust", "search", "engine", "fast", "lite", "index", "über", "日本"];

fn lib_response(path: &std::path::Path, query: &str, limit: usize, cursor: Option<String>, aggs: Option<&str>) -> Result<String, String> {
  let opts = IndexOptions {
    path: path.to_path_buf(),
    create_if_missing: false,
    enable_positions: true,
    bm25_k1: 0.9,
    bm25_b: 0.4,
    storage: StorageType::Filesystem,
    #[cfg(feature = "vectors")]
    vector_defaults: None,
  };
  let idx = Index::open(opts).map_err(|e| e.to_string())?;
  let reader = idx.reader().map_err(|e| e.to_string())?;
  let query_node: Query = serde_json::from_str::<QueryNode>(query).map(Query::Node).unwrap_or_else(|_| query.to_string().into());
  let aggs_map: BTreeMap<String, Aggregation> = match aggs {
    Some(a) if !a.is_empty() => serde_json::from_str(a).map_err(|e| format!("aggs: {e}"))?,
    _ => BTreeMap::new(),
  };
  let req = SearchRequest {
    query: query_node,
    fields: None,
    filter: None,
    limit,
    return_hits: true,
    candidate_size: None,
    sort: Vec::new(),
    execution: ExecutionStrategy::Wand,
    bmw_block_size: None,
    fuzzy: None,
    return_stored: true,
    highlight_field: None,
    highlight: None,
    collapse: None,
    cursor,
    aggs: aggs_map,
    suggest: BTreeMap::new(),
    rescore: None,
    explain: false,
    profile: false,
    #[cfg(feature = "vectors")]
    vector_query: None,
    #[cfg(feature = "vectors")]
    vector_filter: None,
  };
  let res = reader.search(&req).map_err(|e| e.to_string())?;
  serde_json::to_string(&res).map_err(|e| e.to_string())
}

struct CallOut {
  ret: usize,
  /// bytes of the buffer region that differ from the fill pattern, as (written prefix) —
  /// `written` = bytes from offset 0 up to and including the last modified byte
  written: Vec<u8>,
  guard_ok: bool,
}

/// call the real entry point with a buffer of `cap` bytes surrounded by guard bytes
unsafe fn call(handle: *mut IndexHandle, query: Option<&CString>, limit: usize, cursor: Option<&CString>, aggs: Option<&[u8]>, cap: usize, buf_null: bool) -> CallOut {
  const FILL: u8 = 0xA5;
  let mut mem = vec![FILL; GUARD + cap + GUARD];
  let ptr = if buf_null { std::ptr::null_mut() } else { mem.as_mut_ptr().add(GUARD) as *mut c_char };
  let ret = searchlite_search(
    handle,
    query.map(|q| q.as_ptr()).unwrap_or(std::ptr::null()),
    limit,
    cursor.map(|c| c.as_ptr()).unwrap_or(std::ptr::null()),
    aggs.map(|a| a.as_ptr() as *const c_char).unwrap_or(std::ptr::null()),
    aggs.map(|a| a.len()).unwrap_or(0),
    ptr,
    cap,
  );
  let guard_ok = mem[..GUARD].iter().all(|b| *b == FILL) && mem[GUARD + cap..].iter().all(|b| *b == FILL);
  let region = &mem[GUARD..GUARD + cap];
  // 0xA5 never occurs inside valid UTF-8 JSON followed by NUL as the *last* written byte,
  // so "last byte != FILL" locates the end of the write.
  let last = region.iter().rposition(|b| *b != FILL);
  let written = match last {
    Some(i) => region[..=i].to_vec(),
    None => Vec::new(),
  };
  CallOut { ret, written, guard_ok }
}

impl Prop for C26 {
  fn id(&self) -> &'static str {
    "C26"
  }
  fn rule(&self) -> &'static str {
    "case = (random small index built through the FFI, query, limit, optional cursor/aggs, argument-null pattern); every buffer capacity 0..=len+16 is executed for each case; a (case, capacity) pair is non-trivial when the call reaches the copy-out step and the capacity truncates the response (0 < cap <= len) or when a null/invalid argument pattern is exercised; distinct = distinct (case, capacity) JSON"
  }
  fn count(&self, tier: Tier) -> usize {
    tier.pick(20, 500)
  }
  fn gen(&self, rng: &mut Rng, _tier: Tier, i: usize) -> Value {
    let ndocs = 1 + rng.below(6);
    let docs: Vec<Value> = (0..ndocs)
      .map(|d| {
        let n = 1 + rng.below(6);
        let body: Vec<&str> = (0..n).map(|_| *rng.pick(&WORDS)).collect();
        json!({"_id": format!("d{d}"), "body": body.join(" ")})
      })
      .collect();
    let w = *rng.pick(&WORDS);
    let query = match rng.below(4) {
      0 => w.to_string(),
      1 => format!("{} {}", w, rng.pick(&WORDS)),
      2 => json!({"type":"match_all"}).to_string(),
      _ => json!({"type":"term","field":"body","value": w}).to_string(),
    };
    let aggs = match rng.below(5) {
      0 => Some("not valid json".to_string()),
      1 => Some(json!({"n": {"type":"value_count","field":"body"}}).to_string()),
      _ => None,
    };
    let limit = if rng.chance(1, 10) { 0 } else { 1 + rng.below(5) };
    // null pattern: which of handle/query/buffer are null (mostly none)
    let nulls = if i % 5 == 4 { 1 + rng.below(7) } else { 0 };
    let cursor = match rng.below(6) {
      0 => Some("zz".to_string()),
      1 => Some("page2".to_string()), // replaced by a real next_cursor at run time when one exists
      _ => None,
    };
    json!({"docs": docs, "query": query, "limit": limit, "aggs": aggs, "nulls": nulls, "cursor": cursor})
  }

  fn run_case(&self, drv: &mut Driver, case: &Value, s: &mut Summary) {
    // a replayed sub-case is {"case": …, "cap": n}: run that capacity only
    let only_cap = case.get("cap").and_then(|c| c.as_u64()).map(|c| c as usize);
    let case = if only_cap.is_some() { &case["case"] } else { case };
    let dir = scratch();
    let path = CString::new(dir.path().to_string_lossy().to_string()).unwrap();
    let handle = unsafe { searchlite_index_open(path.as_ptr(), true) };
    if handle.is_null() {
      s.fail("ffi.open", "searchlite_index_open returned null for a fresh directory", case, json!(null));
      return;
    }
    for d in case["docs"].as_array().cloned().unwrap_or_default() {
      let js = CString::new(d.to_string()).unwrap();
      let rc = unsafe { searchlite_add_json(handle, js.as_ptr(), js.as_bytes().len()) };
      if rc < 0 {
        s.count("add_rejected");
      }
    }
    let query_s = case["query"].as_str().unwrap_or("").to_string();
    let limit = case["limit"].as_u64().unwrap_or(1) as usize;
    let aggs_s: Option<String> = case["aggs"].as_str().map(|x| x.to_string());
    let nulls = case["nulls"].as_u64().unwrap_or(0);
    let (h_null, q_null, b_null) = (nulls & 1 != 0, nulls & 2 != 0, nulls & 4 != 0);
    // cursor: "page2" means "use the next_cursor of the first page if there is one"
    let mut cursor_s: Option<String> = case["cursor"].as_str().map(|x| x.to_string());
    if cursor_s.as_deref() == Some("page2") {
      cursor_s = lib_response(dir.path(), &query_s, limit.max(1), None, None)
        .ok()
        .and_then(|r| serde_json::from_str::<Value>(&r).ok())
        .and_then(|v| v["next_cursor"].as_str().map(|x| x.to_string()));
    }
    // the full response, computed through the Rust API (independent of the FFI copy)
    let full = lib_response(dir.path(), &query_s, limit, cursor_s.clone(), aggs_s.as_deref());
    let aggs_bad = aggs_s.as_deref().map(|a| !a.is_empty() && serde_json::from_str::<BTreeMap<String, Aggregation>>(a).is_err()).unwrap_or(false);
    let search_err = full.is_err() && !aggs_bad;
    let resp: Vec<u8> = full.clone().map(|x| x.into_bytes()).unwrap_or_default();
    s.count(if aggs_bad { "aggs_invalid" } else if search_err { "search_error" } else { "search_ok" });
    if nulls != 0 {
      s.count("null_argument_pattern");
    }
    if cursor_s.is_some() {
      s.count("with_cursor");
    }
    let q_c = CString::new(query_s.clone()).unwrap();
    let cur_c = cursor_s.as_ref().map(|c| CString::new(c.clone()).unwrap());
    let max_cap = resp.len() + 16;
    for cap in 0..=max_cap {
      if only_cap.map(|c| c != cap).unwrap_or(false) {
        continue;
      }
      let sub = json!({"case": case, "cap": cap});
      let out = guarded(|| unsafe {
        call(
          if h_null { std::ptr::null_mut() } else { handle },
          if q_null { None } else { Some(&q_c) },
          limit,
          cur_c.as_ref(),
          aggs_s.as_ref().map(|a| a.as_bytes()),
          cap,
          b_null,
        )
      });
      let reaches_copy = !(h_null || q_null || b_null || aggs_bad || search_err);
      let nontrivial = (reaches_copy && cap > 0 && cap <= resp.len()) || (!reaches_copy && cap % 7 == 1);
      s.case(&sub, nontrivial);
      let out = match out {
        Ok(o) => o,
        Err(msg) => {
          s.fail("ffi.panic", "searchlite_search panicked", &sub, json!(msg));
          continue;
        }
      };
      // ---- finder: the property on the implementation alone ----
      if !out.guard_ok {
        s.fail("ffi.guard", "bytes outside the caller's buffer were modified", &sub, json!({"ret": out.ret}));
      }
      if out.written.len() > cap {
        s.fail("ffi.overrun", "more than buf_cap bytes written", &sub, json!({"written": out.written.len()}));
      }
      if !out.written.is_empty() {
        let n = out.written.len() - 1;
        if out.written[n] != 0 {
          s.fail("ffi.nul", "written bytes do not end with NUL", &sub, json!({"written": hex(&out.written)}));
        } else if out.ret != n {
          s.fail("ffi.ret", "return value is not the number of bytes before the NUL", &sub, json!({"ret": out.ret, "n": n}));
        } else if reaches_copy && out.written[..n] != resp[..n.min(resp.len())] {
          s.fail("ffi.prefix", "text before the NUL is not a prefix of the full response", &sub, json!({"written": hex(&out.written)}));
        }
      } else if out.ret != 0 {
        s.fail("ffi.ret", "nothing written but non-zero status", &sub, json!({"ret": out.ret}));
      }
      // ---- correspondence with the model ----
      let m = drv.call(
        "C26",
        json!({"op":"search","args":{"handle_null":h_null,"query_null":q_null,"buf_null":b_null,"aggs_bad":aggs_bad,"search_err":search_err,"reader_err":false,"cap":cap},"resp":hex(&resp)}),
      );
      let imp = json!({"written": hex(&out.written), "ret": out.ret});
      if m["ok"] != json!(true) || m["written"] != imp["written"] || m["ret"] != imp["ret"] {
        s.disagree("ffi.search", &sub, imp, m);
      }
    }
    unsafe { searchlite_index_close(handle) };
  }
  fn finish(&self, _tier: Tier, s: &mut Summary) {
    s.exhaustive = false;
    s.notes.push("every capacity 0..=len+16 enumerated per generated response; responses themselves are sampled".into());
  }
}
