//! C27 — browser persistence survives a reload at any moment.
//!
//! The browser crate cannot be linked into this harness (it needs `wasm-bindgen`, `web-sys`,
//! …).  `../harness-wasm` is a separate crate that `#[path]`-includes
//! `/repo/searchlite-wasm/src/wasm.rs` **unmodified** and resolves its `wasm_bindgen::`,
//! `js_sys::`, `web_sys::`, `wasm_bindgen_futures::`, `serde_wasm_bindgen::` paths through
//! API-compatible host shims (simulated IndexedDB + harness-driven executor).  This module
//! builds that crate (`slw`), feeds it one case per process and translates what it observed.
//!
//! * `commit` cases — short add/commit sequences through `Searchlite::{init, add_documents,
//!   commit}` under many schedules; the page is closed after every step; every distinct
//!   stored image is reopened with `Searchlite::init` + a match-all search.
//!   **Finder** (implementation alone): the reopened index opens and holds the contents of a
//!   commit that had started; every commit whose promise had resolved is included.
//!   **Correspondence**: `SL.Idb.recover` on every distinct (abstract) image vs the real
//!   reopen; the FIFO run of `SL.Idb`'s program model vs the completion log of the real run
//!   under the specified transaction order; the monitored hypothesis `SL.Idb.ordered` on the
//!   real completion logs (`ordered ⇒ every close image reopens`).
//! * `storage` cases — scripts of `JsStorage`/`JsFile` operations interleaved with scheduler
//!   choices; after every item the stored image, the open transactions, the runnable tasks
//!   and the state of every `flush()` are compared with `SL.Idb.sysStep`.
use crate::proto::{verif_root, Driver};
use crate::rng::Rng;
use crate::summary::Summary;
use crate::util::hex;
use crate::{Prop, Tier};
use serde_json::{json, Value};
use std::io::Write;
use std::process::{Command, Stdio};
use std::sync::OnceLock;

pub struct C27;
pub static P: C27 = C27;

const WORDS: [&str; 8] = ["rust", "search", "engine", "fast", "lite", "index", "wasm", "browser"];

fn slw_dir() -> String {
  format!("{}/harness-wasm", verif_root())
}

/// build `slw` once per process; `Err` carries the compiler output
fn slw_binary() -> &'static Result<String, String> {
  static BIN: OnceLock<Result<String, String>> = OnceLock::new();
  BIN.get_or_init(|| {
    let dir = slw_dir();
    let out = Command::new("cargo")
      .args(["build", "--offline"])
      .current_dir(&dir)
      .env("CARGO_NET_OFFLINE", "true")
      .env_remove("CARGO_TARGET_DIR")
      .env_remove("RUSTFLAGS")
      .output();
    match out {
      Ok(o) if o.status.success() => Ok(format!("{dir}/target/debug/slw")),
      Ok(o) => {
        let txt = String::from_utf8_lossy(&o.stderr).to_string();
        let errs: Vec<&str> = txt.lines().filter(|l| l.starts_with("error")).take(8).collect();
        Err(format!("cargo build in {dir} failed: {}", errs.join("; ")))
      }
      Err(e) => Err(format!("cannot run cargo in {dir}: {e}")),
    }
  })
}

fn run_slw(case: &Value) -> Result<Value, String> {
  let bin = slw_binary().clone()?;
  let mut child = Command::new(&bin).stdin(Stdio::piped()).stdout(Stdio::piped()).stderr(Stdio::null()).spawn().map_err(|e| format!("spawn slw: {e}"))?;
  child.stdin.take().unwrap().write_all(case.to_string().as_bytes()).map_err(|e| format!("slw stdin: {e}"))?;
  let out = child.wait_with_output().map_err(|e| format!("slw wait: {e}"))?;
  let txt = String::from_utf8_lossy(&out.stdout);
  let v: Value = serde_json::from_str(txt.trim()).map_err(|e| format!("slw output: {e}: {}", txt.chars().take(300).collect::<String>()))?;
  if v["ok"] != json!(true) {
    return Err(format!("slw: {}", v["error"]));
  }
  Ok(v)
}

/// the abstract program of a commit case, as `SL.Idb.Commit`s (see `harness-wasm/src/commit.rs`
/// `abstract_file`): manifest version k = [k], file j of commit k = path 2+5(k-1)+j, data [k, j];
/// log snapshots [9,1] (operations), [9,2] (with commit marker), [9,0] (truncated)
fn abstract_commits(n: usize) -> Value {
  let mut cs = vec![json!({"files": [], "manifest": [0]})];
  for k in 1..=n {
    let files: Vec<Value> = (0..5).map(|j| json!([2 + 5 * (k - 1) + j, [k, j]])).collect();
    cs.push(json!({"pre": [[9, 1]], "files": files, "manifest": [k], "post": [[9, 2], [9, 0]]}));
  }
  json!(cs)
}

fn gen_commit(rng: &mut Rng, tier: Tier) -> Value {
  let ncommits = match tier {
    Tier::Quick => 1 + rng.below(2),
    Tier::Thorough => 1 + rng.below(3),
  };
  let mut commits = Vec::new();
  for k in 0..ncommits {
    let nd = 1 + rng.below(3);
    let docs: Vec<Value> = (0..nd)
      .map(|_| {
        // small id space so that later commits overwrite earlier documents
        let id = format!("d{}", rng.below(4));
        let n = 1 + rng.below(3);
        let body: Vec<&str> = (0..n).map(|_| *rng.pick(&WORDS)).collect();
        json!({"_id": id, "body": format!("{} c{}", body.join(" "), k + 1)})
      })
      .collect();
    // one id per commit at most once (the last one wins inside a batch anyway; keep it simple)
    let mut seen = std::collections::BTreeSet::new();
    let docs: Vec<Value> = docs.into_iter().rev().filter(|d| seen.insert(d["_id"].as_str().unwrap().to_string())).collect();
    commits.push(json!(docs));
  }
  json!({
    "kind": "commit", "seed": rng.next() % 1_000_000, "commits": commits,
    "schedules": tier.pick(170, 1250), "spec_runs": 1, "yield_after_add": rng.chance(2, 3),
  })
}

fn gen_storage(rng: &mut Rng, tier: Tier) -> Value {
  let n = tier.pick(40, 70);
  let mut items: Vec<Value> = Vec::new();
  let mut open: Vec<u64> = Vec::new();
  let bytes = |rng: &mut Rng| -> String {
    let n = 1 + rng.below(3);
    hex(&(0..n).map(|_| rng.below(250) as u8 + 1).collect::<Vec<u8>>())
  };
  let with_remove = rng.chance(1, 3);
  for _ in 0..n {
    let r = rng.below(100);
    let p = rng.below(3) as u64;
    if r < 38 {
      items.push(json!({"op": "sched", "k": rng.below(8)}));
    } else if r < 52 {
      items.push(json!({"op": if rng.chance(1, 4) { "atomic_write" } else { "write_all" }, "p": p, "d": bytes(rng)}));
    } else if r < 60 {
      let h = rng.below(3) as u64;
      if !open.contains(&h) {
        open.push(h);
        items.push(json!({"op": if rng.chance(1, 2) { "open_write" } else { "open_append" }, "h": h, "p": p}));
      }
    } else if r < 90 && !open.is_empty() {
      let h = *rng.pick(&open);
      match rng.below(10) {
        0..=3 => items.push(json!({"op": "write", "h": h, "d": bytes(rng)})),
        4 => items.push(json!({"op": "flush", "h": h})),
        5..=6 => items.push(json!({"op": "sync", "h": h})),
        7 => items.push(json!({"op": "set_len", "h": h, "n": rng.below(5)})),
        8 => items.push(json!({"op": "seek", "h": h, "n": rng.below(4)})),
        _ => {
          open.retain(|x| *x != h);
          items.push(json!({"op": "drop", "h": h}));
        }
      }
    } else if r < 96 {
      items.push(json!({"op": "flush_storage"}));
    } else if with_remove {
      items.push(json!({"op": "remove", "p": p}));
    }
  }
  // drain: enough scheduler steps for everything that is still queued
  for _ in 0..30 {
    items.push(json!({"op": "sched", "k": rng.below(4)}));
  }
  json!({"kind": "storage", "order": if rng.chance(1, 5) { "spec" } else { "relaxed" }, "items": items})
}

impl C27 {
  fn run_storage(&self, drv: &mut Driver, case: &Value, s: &mut Summary) {
    let out = match run_slw(case) {
      Ok(o) => o,
      Err(e) => {
        s.case(case, false);
        s.disagree("slw.run", case, json!(e), json!(null));
        return;
      }
    };
    let obs = out["obs"].as_array().cloned().unwrap_or_default();
    let labels: Vec<Value> = obs.iter().map(|o| o["label"].clone()).collect();
    let completes = labels.iter().filter(|l| l["op"] == "complete").count();
    let flushes_done = obs.last().map(|o| o["flushes"].as_array().map(|f| f.iter().filter(|x| x[0] == json!(true)).count()).unwrap_or(0)).unwrap_or(0);
    s.case(case, completes >= 2 && flushes_done >= 1);
    s.add("storage.items", labels.len() as u64);
    s.add("storage.sched_steps", labels.iter().filter(|l| matches!(l["op"].as_str(), Some("run" | "succ" | "complete"))).count() as u64);
    s.add("storage.completed_transactions", completes as u64);
    s.add("storage.flushes_finished", flushes_done as u64);
    if labels.iter().any(|l| l["op"] == "remove") {
      s.count("storage.scripts_with_remove");
    }
    for e in out["exceptions"].as_array().cloned().unwrap_or_default() {
      s.fail("storage.js-exception", "the simulated browser reported an exception or console.error during a storage script", case, e);
    }
    // ---- finder (implementation alone): a flush that finished with Ok means that, for every
    // path last written with `write_all` before the flush was started, that snapshot or a
    // later one has had its put request succeed (it is stored or in a succeeded transaction)
    self.flush_predicate(case, &obs, s);
    // ---- correspondence with the Lean model
    let m = drv.call("C27", json!({"op": "sys", "items": labels, "paths": [0, 1, 2]}));
    if m["ok"] != json!(true) {
      s.disagree("idb.sys.error", case, json!(null), m);
      return;
    }
    if !m["stuck"].is_null() {
      let i = m["stuck"].as_u64().unwrap_or(0) as usize;
      s.disagree("idb.sys.model-rejects-step", case, json!({"step": i, "label": labels.get(i)}), json!({"stuck": i}));
      return;
    }
    let mobs = m["obs"].as_array().cloned().unwrap_or_default();
    for (i, (a, b)) in obs.iter().zip(mobs.iter()).enumerate() {
      for key in ["store", "txs", "runnable", "flushes"] {
        if a[key] != b[key] {
          s.disagree(&format!("idb.sys.{key}"), case, json!({"step": i, "label": a["label"], key: a[key]}), json!({key: b[key]}));
          return;
        }
      }
    }
    let mut files = serde_json::Map::new();
    for p in ["0", "1", "2"] {
      files.insert(p.to_string(), out["files"].get(p).cloned().unwrap_or(Value::Null));
    }
    if Value::Object(files.clone()) != m["files"] {
      s.disagree("idb.sys.files", case, Value::Object(files), m["files"].clone());
    }
    s.traces_validated += 1;
  }

  fn flush_predicate(&self, case: &Value, obs: &[Value], s: &mut Summary) {
    let labels: Vec<&Value> = obs.iter().map(|o| &o["label"]).collect();
    // paths touched through handles or removed are left out (their snapshots are not literal in the script)
    let mut tainted = std::collections::BTreeSet::new();
    for it in case["items"].as_array().cloned().unwrap_or_default() {
      if matches!(it["op"].as_str(), Some("open_write" | "open_append" | "remove")) {
        tainted.insert(it["p"].as_u64().unwrap_or(0));
      }
    }
    let mut flush_starts: Vec<usize> = Vec::new();
    for (i, l) in labels.iter().enumerate() {
      if l["op"] == "flush_storage" {
        flush_starts.push(i);
      }
    }
    let mut reported = false;
    for (f, start) in flush_starts.iter().enumerate() {
      // first step at which flush f is done with Ok
      let done_at = obs.iter().position(|o| o["flushes"].get(f).map(|x| x[0] == json!(true) && x[1] == json!(true)).unwrap_or(false));
      let done_at = match done_at {
        Some(i) => i,
        None => continue,
      };
      for p in 0u64..3 {
        if tainted.contains(&p) {
          continue;
        }
        let writes: Vec<(usize, String)> = labels
          .iter()
          .enumerate()
          .filter(|(_, l)| matches!(l["op"].as_str(), Some("write_all" | "atomic_write")) && l["p"].as_u64() == Some(p))
          .map(|(i, l)| (i, l["d"].as_str().unwrap_or("").to_string()))
          .collect();
        // only the receivers created since the previous flush() are taken by this one
        let prev_start = if f == 0 { 0 } else { flush_starts[f - 1] };
        let last_before = writes.iter().filter(|(i, _)| i < start && *i >= prev_start).last();
        let (li, _) = match last_before {
          Some(x) => x.clone(),
          None => continue,
        };
        let acceptable: Vec<&String> = writes.iter().filter(|(i, _)| *i >= li && *i <= done_at).map(|(_, d)| d).collect();
        let o = &obs[done_at];
        let mut have: Vec<String> = Vec::new();
        if let Some(d) = o["store"].get(p.to_string()).and_then(|d| d.as_str()) {
          have.push(d.to_string());
        }
        for t in o["txs"].as_array().cloned().unwrap_or_default() {
          if t[2].as_u64() == Some(p) && t[4] == json!(true) {
            if let Some(d) = t[3].as_str() {
              have.push(d.to_string());
            }
          }
        }
        if !have.iter().any(|h| acceptable.contains(&h)) && !reported {
          reported = true;
          s.fail(
            "storage.flush-resolved-before-request-success",
            "flush() finished with Ok although the snapshot written before it (or a later one) has neither been stored nor had its put request succeed",
            case,
            json!({"flush": f, "done_at_step": done_at, "path": p, "acceptable": acceptable, "stored_or_succeeded": have}),
          );
        }
      }
    }
  }

  fn run_commit(&self, drv: &mut Driver, case: &Value, s: &mut Summary) {
    let out = match run_slw(case) {
      Ok(o) => o,
      Err(e) => {
        s.case(case, false);
        s.disagree("slw.run", case, json!(e), json!(null));
        return;
      }
    };
    let ncommits = case["commits"].as_array().map(|c| c.len()).unwrap_or(0);
    let schedules = out["schedules"].as_u64().unwrap_or(0);
    // every schedule is one evaluation of the property; identify it by (case, schedule)
    let only = case["only"].as_u64();
    for i in 0..case["schedules"].as_u64().unwrap_or(0) {
      if only.map(|o| o != i).unwrap_or(false) {
        continue;
      }
      let mut sub = case.clone();
      sub["only"] = json!(i);
      s.case(&sub, ncommits >= 1);
    }
    s.add("commit.schedules", schedules);
    s.add("commit.steps", out["steps"].as_u64().unwrap_or(0));
    s.add("commit.close_points", out["close_points"].as_u64().unwrap_or(0));
    s.add("commit.distinct_close_states", out["distinct_close_states"].as_u64().unwrap_or(0));
    s.add("commit.reopens", out["reopens"].as_u64().unwrap_or(0));
    s.add(&format!("commit.cases_with_{ncommits}_commits"), 1);
    if let Some(d) = out["distribution"].as_object() {
      for (k, v) in d {
        s.add(&format!("commit.{k}"), v.as_u64().unwrap_or(0));
      }
    }
    // ---- finder: failures of the property on the implementation alone (found by slw)
    let sig_counts = out["sig_counts"].as_object().cloned().unwrap_or_default();
    for f in out["failures"].as_array().cloned().unwrap_or_default() {
      let sig = f["sig"].as_str().unwrap_or("unknown").to_string();
      let mut sub = case.clone();
      sub["only"] = f["schedule"].clone();
      s.fail(&sig, f["what"].as_str().unwrap_or(""), &sub, json!({"strategy": f["strategy"], "observed": f["observed"], "occurrences_in_case": sig_counts.get(&sig)}));
    }
    for (sig, n) in sig_counts.iter() {
      // keep the counts of the summary honest (one `fail` call above per kept example)
      let kept = out["failures"].as_array().map(|a| a.iter().filter(|f| f["sig"] == json!(sig)).count()).unwrap_or(0) as u64;
      let extra = n.as_u64().unwrap_or(0).saturating_sub(kept);
      if extra > 0 {
        s.n_failures += extra;
        *s.failure_sigs.entry(sig.clone()).or_insert(0) += extra;
      }
    }
    for nd in out["nondeterministic"].as_array().cloned().unwrap_or_default() {
      s.fail("reopen.depends-on-more-than-the-stored-files", "two stored images with the same files (up to segment ids) reopen differently", case, nd);
    }
    // ---- correspondence 1: recover(model) vs reopen(real) on every distinct abstract image
    let commits = abstract_commits(ncommits);
    let expected = out["expected"].as_array().cloned().unwrap_or_default();
    for im in out["images"].as_array().cloned().unwrap_or_default() {
      let m = drv.call("C27", json!({"op": "recover", "commits": commits, "store": im["store"]}));
      let imp = json!({"ok": im["ok"], "contents": im["contents"], "stage": im["stage"]});
      let agree = match m["class"].as_str() {
        Some("fresh") => im["ok"] == json!(true) && im["contents"] == json!([]),
        Some("commit") => {
          let k = m["k"].as_u64().unwrap_or(0) as usize;
          im["ok"] == json!(true) && expected.get(k).map(|e| *e == im["contents"]).unwrap_or(false)
        }
        Some("broken") => im["ok"] == json!(false),
        _ => false,
      };
      s.count(&format!("commit.image_class.{}", m["class"].as_str().unwrap_or("?")));
      if !agree {
        s.disagree("idb.recover", &json!({"case": case, "store": im["store"]}), imp, m);
      }
    }
    // ---- correspondence 2: monitored hypothesis `ordered` on the real completion logs
    for run in out["runs"].as_array().cloned().unwrap_or_default() {
      let m = drv.call("C27", json!({"op": "ordered", "commits": commits, "done": run["done"]}));
      if m["ok"] != json!(true) {
        s.disagree("idb.ordered.error", case, run.clone(), m);
        continue;
      }
      let ordered = m["ordered"] == json!(true);
      let unopenable = run["any_unopenable"] == json!(true);
      s.count(if ordered { "commit.runs_ordered" } else { "commit.runs_not_ordered" });
      // theorem ordered_prefix_recoverable on the real run: ordered ⇒ every close image reopens
      if ordered && unopenable {
        s.disagree("idb.ordered-but-unopenable", case, run.clone(), m.clone());
      }
      // model-internal consistency on the real log: prefixes_ok ⇔ no unopenable image
      if (m["prefixes_ok"] == json!(true)) == unopenable {
        s.disagree("idb.prefixes-vs-reopen", case, run.clone(), m.clone());
      }
      // under the specified transaction order the hypothesis must hold
      if run["strategy"].as_str().map(|x| x.starts_with("spec")).unwrap_or(false) {
        if !ordered {
          s.disagree("idb.monitor.spec-run-not-ordered", case, run.clone(), m.clone());
        }
        // ---- correspondence 3: the program model's FIFO run predicts the real completion log
        let f = drv.call("C27", json!({"op": "fifo", "commits": commits, "yield_after_add": case["yield_after_add"].as_bool().unwrap_or(true)}));
        if only.is_none() || only == Some(0) {
          if f["done"] != run["done"] || f["finished"] != json!(true) {
            s.disagree("idb.fifo-completion-log", case, run["done"].clone(), f);
          }
        }
      }
      s.traces_validated += 1;
    }
  }
}

impl Prop for C27 {
  fn id(&self) -> &'static str {
    "C27"
  }
  fn rule(&self) -> &'static str {
    "two kinds of case, both executed on the unmodified searchlite-wasm/src/wasm.rs (host build against shim crates, simulated IndexedDB, harness-driven executor). commit case = 1-2 (quick) / 1-3 (thorough) batches of 1-3 documents over 4 ids (later batches overwrite), init + add_documents + commit per batch, 170 (quick) / 1250 (thorough) schedules: schedule 0 uses the specified IndexedDB order and the FIFO microtask queue, the others the relaxed adversary (any order of request successes and transaction completions of different keys; delay-set or uniform choice; FIFO or arbitrary order of runnable tasks); one evaluation = one (case, schedule), the page is closed after every step of it and each distinct stored image is reopened with init + match-all search; non-trivial = the case has at least one commit (every schedule then has close points inside a commit). storage case = 40-70 random JsStorage/JsFile operations on 3 paths and 3 handles interleaved with scheduler choices, compared item by item with SL.Idb.sysStep; non-trivial = at least two transactions completed and one flush() finished"
  }
  fn count(&self, tier: Tier) -> usize {
    tier.pick(60, 440)
  }
  fn gen(&self, rng: &mut Rng, tier: Tier, i: usize) -> Value {
    // 12 (quick) / 40 (thorough) commit cases, the rest storage scripts
    let ncommit = tier.pick(12, 40);
    if i < ncommit {
      gen_commit(rng, tier)
    } else {
      gen_storage(rng, tier)
    }
  }
  fn run_case(&self, drv: &mut Driver, case: &Value, s: &mut Summary) {
    if let Err(e) = slw_binary() {
      s.case(case, false);
      s.disagree("slw.build", &json!({"note": "the host build of searchlite-wasm/src/wasm.rs against the shim crates failed"}), json!(e), json!(null));
      return;
    }
    match case["kind"].as_str() {
      Some("commit") => self.run_commit(drv, case, s),
      Some("storage") => self.run_storage(drv, case, s),
      _ => {}
    }
  }
  fn finish(&self, _tier: Tier, s: &mut Summary) {
    s.exhaustive = false;
    s.notes.push("schedules are sampled (seeded), not enumerated: one commit alone has 7 independent transactions with two events each; the stored images reached are deduplicated and each distinct one is reopened with the real code".into());
    s.notes.push("wasm.rs runs unmodified; the shim crates in harness-wasm/shims (JsValue/JsCast/Closure, IndexedDB requests/transactions/events, spawn_local executor) are part of the trusted base".into());
  }
}
